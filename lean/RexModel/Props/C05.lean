import RexModel.Lifecycle
import RexModel.Trigger

/-! # C05 — graph lifecycle calls always return and episodes are isolated

`stop_returns`: with the operation order of the current source (regenerated facts `source_order`), from **every**
state in which `stop()` can be entered — the supervisor's worker at any point of its step, any number `k` of queued
supervisor steps — **every** interleaving of the user thread and the worker is finite and ends with `stop()`
returned; no fairness is needed because a measure decreases on every step of either thread.
`pinned_stop_deadlock`: without the state re-check (the pinned tree) a stuck state is reachable.
`reset()`, `step()`, `run()` start with `stop()` and otherwise only wait for the dataflow machine to reach the next
supervisor observation (C02's machine); their termination on graphs for which the machine is productive is checked
on the implementation (partial: productivity under `num_tokens = 10` is not proved). -/

namespace Rex.C05

open Rex.Lifecycle Rex.Gen.Lifecycle

/-- the operation-order facts of the current source -/
theorem source_order :
    sync_checks_state_after_publish = true ∧ stop_flips_before_cancel = true ∧ stop_cancel_atomic = true := by decide

theorem step_measure (s s' : St) (h : Step true s s') : mu s' < mu s := by
  cases h <;> simp_all [mu, spcRank, upcRank] <;> (try split) <;> (try split) <;> omega

theorem inv_step (s s' : St) (hi : Inv s) (h : Step true s s') : Inv s' := by
  obtain ⟨h1, h2, h3, h4, h5, h6, h7⟩ := hi
  obtain ⟨fl, spc, k, sq, st, ap, ca, mr, upc⟩ := s
  simp only at h1 h2 h3 h4 h5 h6 h7
  cases h <;> simp only at * <;> subst_vars <;>
    (constructor <;> simp_all <;> (try omega) <;> (try (cases upc <;> simp_all)) <;> (try (cases st <;> simp_all <;> omega)))

/-- **no stuck state**: while `stop()` has not returned, some thread can take a step -/
theorem stop_no_stuck (s : St) (hi : Inv s) (hu : s.upc ≠ .returned) : ∃ s', Step true s s' := by
  obtain ⟨h1, h2, h3, h4, h5, h6, h7⟩ := hi
  -- the user thread can always move in its flip and cancel phases
  cases hup : s.upc with
  | start => exact ⟨_, Step.uFlip hup⟩
  | flipped => exact ⟨_, Step.uCancel hup⟩
  | returned => exact absurd hup hu
  | cancelled =>
    -- the user waits for the supervisor's stopping task: the worker must be able to move
    by_cases hst : s.stopped = true
    · exact ⟨_, Step.uReturn hup hst⟩
    · cases hsp : s.spc with
      | pre => exact ⟨_, Step.sPublish hsp⟩
      | done => exact ⟨_, Step.sDone hsp⟩
      | wait => exact ⟨_, Step.sWake hsp (h3 hsp (Or.inl hup))⟩
      | pub =>
        have hf : s.flipped = true := h1.mpr (by rw [hup]; simp)
        exact ⟨_, Step.sCheckSkip hsp (Or.inr ⟨rfl, hf⟩)⟩
      | idle =>
        by_cases hk : 0 < s.k
        · exact ⟨_, Step.sStart hsp hk⟩
        · have hq : s.stopQueued = true := by
            rcases h4 (by rw [hup]; simp) with h | h
            · exact h
            · exact absurd h hst
          exact ⟨_, Step.sStopping hsp (by omega) hq⟩

/-- **stop() returns**: from every state satisfying the invariant, every interleaving is finite and ends with `stop()`
returned. No fairness assumption: `mu` decreases on every step of either thread. -/
theorem stop_terminates : ∀ (n : Nat) (s : St), mu s ≤ n → Inv s → Terminates true s := by
  intro n
  induction n with
  | zero =>
    intro s hm hi
    by_cases hu : s.upc = .returned
    · exact .ret hu
    · obtain ⟨s', hs'⟩ := stop_no_stuck s hi hu
      have := step_measure s s' hs'
      omega
  | succ n ih =>
    intro s hm hi
    by_cases hu : s.upc = .returned
    · exact .ret hu
    · refine .step (stop_no_stuck s hi hu) ?_
      intro s' hs'
      exact ih s' (by have := step_measure s s' hs'; omega) (inv_step s s' hi hs')

/-- every state in which `stop()` can be entered satisfies the invariant: the worker anywhere in its step (waiting only
on a published, uncancelled future), any number of queued supervisor steps, any `must_reset` flag -/
theorem entry_inv (spc : SPc) (k : Nat) (ap ca mr : Bool) (hw : (spc = .wait ∨ spc = .pub) → ap = true) :
    Inv ⟨false, spc, k, false, false, ap, ca, mr, .start⟩ := by
  constructor <;> simp_all

/-- **C05, stop()**: whenever `stop()` is called — whatever the worker is doing, however many supervisor steps are queued —
it returns, under every interleaving. -/
theorem stop_returns (spc : SPc) (k : Nat) (ap ca mr : Bool) (hw : (spc = .wait ∨ spc = .pub) → ap = true) :
    Terminates true ⟨false, spc, k, false, false, ap, ca, mr, .start⟩ :=
  stop_terminates _ _ (Nat.le_refl _) (entry_inv spc k ap ca mr hw)

/-- when `stop()` has returned nothing is pending on the supervisor's worker (quiescence ⇒ the next episode starts clean) -/
theorem quiescent_after_stop (s : St) (hi : Inv s) (hu : s.upc = .returned) :
    s.stopped = true ∧ s.k = 0 ∧ s.spc = .idle ∧ s.stopQueued = false := by
  have hst := hi.retStopped hu
  obtain ⟨a, b, c⟩ := hi.notStopped hst
  exact ⟨hst, a, b, c⟩

/-- **the pinned tree deadlocks**: without the state re-check, `run(); stop()` reaches — from the worker idle with one queued
supervisor step — a state in which the worker waits for an action nobody will provide, its stopping task is queued behind it, and
the user waits for that task: no thread can move and `stop()` has not returned. -/
theorem pinned_stop_deadlock :
    ∃ s, Reach false ⟨false, .idle, 1, false, false, false, false, false, .start⟩ s ∧
      (∀ s', ¬ Step false s s') ∧ s.upc ≠ .returned := by
  refine ⟨⟨true, .wait, 0, true, false, true, false, false, .cancelled⟩, ?_, ?_, by decide⟩
  · -- worker dequeues the step; user flips and finds no future to cancel; worker publishes and waits
    have r0 := Reach.refl (checkState := false) ⟨false, .idle, 1, false, false, false, false, false, .start⟩
    have r1 := Reach.tail r0 (Step.sStart (s := ⟨false, .idle, 1, false, false, false, false, false, .start⟩) rfl (by decide))
    have r2 := Reach.tail r1 (Step.uFlip (s := ⟨false, .pre, 0, false, false, false, false, false, .start⟩) rfl)
    have r3 := Reach.tail r2 (Step.uCancel (s := ⟨true, .pre, 0, true, false, false, false, false, .flipped⟩) rfl)
    have r4 := Reach.tail r3 (Step.sPublish (s := ⟨true, .pre, 0, true, false, false, false, false, .cancelled⟩) rfl)
    have r5 := Reach.tail r4 (Step.sCheckWait (s := ⟨true, .pub, 0, true, false, true, false, false, .cancelled⟩) rfl rfl (by simp))
    exact r5
  · intro s' h
    cases h <;> simp_all

/-- with the re-check the same schedule ends: the worker sees the flipped state and skips -/
theorem fixed_same_schedule_returns :
    Terminates true ⟨false, .idle, 1, false, false, false, false, false, .start⟩ :=
  stop_returns .idle 1 false false false (by simp)

/-- messages of an earlier episode are filtered by their episode number (second barrier of episode isolation) -/
theorem prev_episode_filtered (msgEps nodeEps : Int) (h : msgEps ≠ nodeEps) :
    ts_input_prev_eps msgEps nodeEps = true ∧ input_prev_eps msgEps nodeEps = true := by
  simp [ts_input_prev_eps, input_prev_eps, h]

/-- once a wrapper has left RUNNING it accepts no task except its own stopping task -/
theorem no_task_after_flip : node_submit_allowed 5 false = false ∧ node_submit_allowed 0 false = false ∧
    conn_submit_allowed 5 false = false ∧ conn_submit_allowed 0 false = false ∧
    node_submit_allowed 5 true = true ∧ conn_submit_allowed 5 true = true := by decide

/-! ## No lost wake-up between the connection handlers

`run()`, `step()` and `reset()` return when the dataflow reaches the next supervisor observation. The handlers of a connection run
only when called; the three that serve a queue of expectations (`push_selection`: expected message counts against arrived messages;
`push_ts_max`: expected timestamp counts against arrived timestamps; `push_expected_nonblocking`: step start times against arrived
timestamps) must not be left ready with nobody to call them. The facts about the source (who calls the handler after appending, and
that the handler checks again after serving) are regenerated on every run. -/

open Rex.Trigger

/-- the trigger-discipline facts of the current source -/
theorem source_triggers :
    selection_rechecks = true ∧ ts_max_rechecks = true ∧ expected_nonblocking_rechecks = true ∧ expected_blocking_triggers = true ∧
    ts_input_triggers = true ∧ zip_triggers_selection = true ∧ next_step_triggers_expected_nonblocking = true ∧
    zip_called_after_delay = true ∧ zip_called_after_msg = true ∧ step_called_after_grouped = true ∧ step_called_after_start = true := by decide

/-- what happens to the selection queue of a connection -/
inductive SelEv | expectedByNonblocking (n : Nat) | expectedByBlocking (n : Nat) | message | handlerCall

/-- … with "is the append followed by a call of `push_selection`" read off the source -/
def SelEv.toEv : SelEv → Ev Nat Nat
  | .expectedByNonblocking n => .addExp n expected_nonblocking_rechecks
  | .expectedByBlocking n => .addExp n expected_blocking_triggers
  | .message => .arrive (· + 1) zip_triggers_selection
  | .handlerCall => .handle

theorem sel_allCall (evs : List SelEv) : AllCall (evs.map SelEv.toEv) := by
  induction evs with
  | nil => trivial
  | cons e evs ih => cases e <;> simp only [List.map_cons, SelEv.toEv, AllCall] <;> first | exact ⟨by decide, ih⟩ | exact ih

/-- **`push_selection` is never left ready without a pending call**: whatever the order in which expectations are queued, messages
arrive and calls run — every interleaving of the node, connection and sender threads. -/
theorem C05_selection_no_lost_wakeup (evs : List SelEv) :
    let q := run (fun (n have_ : Nat) => decide (n ≤ have_)) (fun n have_ => have_ - n) selection_rechecks 0 (evs.map SelEv.toEv)
    Ready (fun (n have_ : Nat) => decide (n ≤ have_)) q → 0 < q.trig := by
  have h : selection_rechecks = true := source_triggers.1
  rw [h]
  exact no_lost_wakeup _ _ 0 _ (sel_allCall evs)

/-- what happens to the blocking-arrival queue of a connection (`push_ts_max`) -/
inductive TsMaxEv | expected (n : Nat) | timestamp | handlerCall

def TsMaxEv.toEv : TsMaxEv → Ev Nat Nat
  | .expected n => .addExp n expected_blocking_triggers
  | .timestamp => .arrive (· + 1) ts_input_triggers
  | .handlerCall => .handle

theorem tsmax_allCall (evs : List TsMaxEv) : AllCall (evs.map TsMaxEv.toEv) := by
  induction evs with
  | nil => trivial
  | cons e evs ih => cases e <;> simp only [List.map_cons, TsMaxEv.toEv, AllCall] <;> first | exact ⟨by decide, ih⟩ | exact ih

/-- **`push_ts_max` is never left ready without a pending call.** -/
theorem C05_ts_max_no_lost_wakeup (evs : List TsMaxEv) :
    let q := run (fun (n have_ : Nat) => decide (n ≤ have_)) (fun n have_ => have_ - n) ts_max_rechecks 0 (evs.map TsMaxEv.toEv)
    Ready (fun (n have_ : Nat) => decide (n ≤ have_)) q → 0 < q.trig := by
  have h : ts_max_rechecks = true := source_triggers.2.1
  rw [h]
  exact no_lost_wakeup _ _ 0 _ (tsmax_allCall evs)

/-- what happens to the next-step queue of a non-blocking connection (`push_expected_nonblocking`): step start times are queued by
the node, arrival timestamps by the sender; a step is ready once some arrival lies in its future (any test `ready`, any way
`consume` of dropping the consumed timestamps) -/
inductive ExpNbEv (T : Type) | nextStep (ts : T) | timestamp (ts : T) | handlerCall

def ExpNbEv.toEv {T : Type} : ExpNbEv T → Ev T (List T)
  | .nextStep t => .addExp t next_step_triggers_expected_nonblocking
  | .timestamp t => .arrive (· ++ [t]) ts_input_triggers
  | .handlerCall => .handle

theorem expnb_allCall {T : Type} (evs : List (ExpNbEv T)) : AllCall (evs.map ExpNbEv.toEv) := by
  induction evs with
  | nil => trivial
  | cons e evs ih => cases e <;> simp only [List.map_cons, ExpNbEv.toEv, AllCall] <;> first | exact ⟨by decide, ih⟩ | exact ih

/-- **`push_expected_nonblocking` is never left ready without a pending call.** -/
theorem C05_expected_nonblocking_no_lost_wakeup {T : Type} (ready : T → List T → Bool) (consume : T → List T → List T)
    (evs : List (ExpNbEv T)) :
    let q := run ready consume expected_nonblocking_rechecks [] (evs.map ExpNbEv.toEv)
    Ready ready q → 0 < q.trig := by
  have h : expected_nonblocking_rechecks = true := source_triggers.2.2.1
  rw [h]
  exact no_lost_wakeup _ _ [] _ (expnb_allCall evs)

/-- what happens to `push_zip` (joins a message with its sampled delay): source 0 = delays queued by `push_ts_input`, source 1 =
messages queued by `push_input` -/
inductive ZipEv | delay | msg | handlerCall

def ZipEv.toEv : ZipEv → UEv
  | .delay => .append 0 zip_called_after_delay
  | .msg => .append 1 zip_called_after_msg
  | .handlerCall => .handle

theorem zip_allCall (evs : List ZipEv) : UAllCall (evs.map ZipEv.toEv) := by
  induction evs with
  | nil => trivial
  | cons e evs ih => cases e <;> simp only [List.map_cons, ZipEv.toEv, UAllCall] <;> first | exact ⟨by decide, ih⟩ | exact ih

/-- **`push_zip` is never left ready (a message and a delay both waiting) without a pending call.** -/
theorem C05_zip_no_lost_wakeup (evs : List ZipEv) :
    (∀ i, i < 2 → 0 < (urun 2 (evs.map ZipEv.toEv)).counts i) → 0 < (urun 2 (evs.map ZipEv.toEv)).trig :=
  unit_no_lost_wakeup 2 (by decide) _ (zip_allCall evs)

/-- what happens to `push_step` of a node with `m` inputs: source `i < m` = the grouped messages of input `i` (queued by its
`push_selection`), source `m` = the computed start time (queued by `push_phase_shift`) -/
inductive StepEv | grouped (i : Nat) | start (m : Nat) | handlerCall

def StepEv.toEv : StepEv → UEv
  | .grouped i => .append i step_called_after_grouped
  | .start m => .append m step_called_after_start
  | .handlerCall => .handle

theorem step_allCall (evs : List StepEv) : UAllCall (evs.map StepEv.toEv) := by
  induction evs with
  | nil => trivial
  | cons e evs ih => cases e <;> simp only [List.map_cons, StepEv.toEv, UAllCall] <;> first | exact ⟨by decide, ih⟩ | exact ih

/-- **`push_step` is never left ready (grouped messages of every input and a start time waiting) without a pending call.** -/
theorem C05_push_step_no_lost_wakeup (m : Nat) (evs : List StepEv) :
    (∀ i, i < m + 1 → 0 < (urun (m + 1) (evs.map StepEv.toEv)).counts i) → 0 < (urun (m + 1) (evs.map StepEv.toEv)).trig :=
  unit_no_lost_wakeup (m + 1) (Nat.succ_pos m) _ (step_allCall evs)

/-- what happens to `push_phase_shift` of a node with `m` blocking inputs (simulated clock): source 0 = scheduled ticks (queued by
`push_scheduled_ts`, which then calls the handler), source `i + 1` = blocking arrivals of input `i` (queued by that input's
`push_ts_max`, which then submits the handler). The previous end time comes from the handler's own success (and once from `_start`),
so it is not a source. `call i` is a call that followed a delivery of source `i`. On the wall clock the previous end time is queued
by the finished step instead, followed — through `push_scheduled_ts`, for which the step has just returned a token — by a call; that
case is `unit_no_lost_wakeup` with the end time as one more source. -/
theorem shift_sources_call :
    shift_called_after_scheduled = true ∧ shift_called_after_ts_max = true ∧ shift_success_provides_end_prev = true ∧
    start_provides_end_prev = true ∧ expected_blocking_called_after_next_step = true := by decide

/-- **`push_phase_shift` is never left ready without a pending call** although its previous-end input is queued without one. -/
theorem C05_phase_shift_no_lost_wakeup (m : Nat) (evs : List CEv) :
    (∀ i, i < m + 1 → (crun (m + 1) evs).done < (crun (m + 1) evs).arrived i) →
      ∃ i, i < m + 1 ∧ (crun (m + 1) evs).served i < (crun (m + 1) evs).arrived i :=
  chain_no_lost_wakeup (m + 1) (Nat.succ_pos m) evs

/-- `push_expected_blocking` serves one queued step per call and every queued step comes with a call: a joining handler with one source -/
inductive ExpBlEv | nextStep | handlerCall

def ExpBlEv.toEv : ExpBlEv → UEv
  | .nextStep => .append 0 expected_blocking_called_after_next_step
  | .handlerCall => .handle

theorem expbl_allCall (evs : List ExpBlEv) : UAllCall (evs.map ExpBlEv.toEv) := by
  induction evs with
  | nil => trivial
  | cons e evs ih => cases e <;> simp only [List.map_cons, ExpBlEv.toEv, UAllCall] <;> first | exact ⟨by decide, ih⟩ | exact ih

theorem C05_expected_blocking_no_lost_wakeup (evs : List ExpBlEv) :
    (∀ i, i < 1 → 0 < (urun 1 (evs.map ExpBlEv.toEv)).counts i) → 0 < (urun 1 (evs.map ExpBlEv.toEv)).trig :=
  unit_no_lost_wakeup 1 (by decide) _ (expbl_allCall evs)

/-! ### Stopping a wrapper: flip first, then queue the stopping task

The user thread flips a wrapper to STOPPING and queues its stopping task; the task (on the wrapper's worker) ends by setting STOPPED.
With the flip first the wrapper always ends STOPPED; with the task queued first the task can finish before the flip, which then
overwrites STOPPED — the wrapper stays STOPPING and the next `reset()` refuses to start. -/

inductive WState | running | stopping | stopped
deriving DecidableEq, Repr

structure StopSt where
  st : WState := .running
  upc : Nat := 0           -- user: 0 = nothing done, 1 = first statement done, 2 = both done
  queued : Bool := false
  wdone : Bool := false

/-- one step of the user (`true`) or of the worker (`false`); `flipFirst`: the order of the user's two statements -/
def stopStep (flipFirst : Bool) (s : StopSt) : Bool → StopSt
  | true =>
    if s.upc = 0 then (if flipFirst then { s with st := .stopping, upc := 1 } else { s with queued := true, upc := 1 })
    else if s.upc = 1 then (if flipFirst then { s with queued := true, upc := 2 } else { s with st := .stopping, upc := 2 })
    else s
  | false => if s.queued && !s.wdone then { s with st := .stopped, wdone := true } else s

def stopRun (flipFirst : Bool) (sched : List Bool) : StopSt := sched.foldl (stopStep flipFirst) {}

def StopInv (s : StopSt) : Prop :=
  (s.queued = true → s.upc = 2) ∧ (s.wdone = true → s.queued = true ∧ s.st = .stopped) ∧ s.upc ≤ 2

theorem stopInv_step (s : StopSt) (b : Bool) (h : StopInv s) : StopInv (stopStep true s b) := by
  obtain ⟨h1, h2, h3⟩ := h
  cases b with
  | true =>
    simp only [stopStep]
    by_cases u0 : s.upc = 0
    · simp only [u0, if_true]
      refine ⟨fun hq => ?_, fun hw => ?_, by simp⟩
      · have := h1 hq; omega
      · have := (h2 hw).1; have := h1 this; omega
    · by_cases u1 : s.upc = 1
      · simp only [u0, u1, if_true, if_false]
        refine ⟨fun _ => rfl, fun hw => ?_, by simp⟩
        have := (h2 hw).1; have := h1 this; omega
      · simp only [u0, u1, if_false]; exact ⟨h1, h2, h3⟩
  | false =>
    simp only [stopStep]
    by_cases hq : (s.queued && !s.wdone) = true
    · simp only [hq, if_true]
      simp only [Bool.and_eq_true, Bool.not_eq_true'] at hq
      exact ⟨h1, fun _ => ⟨hq.1, rfl⟩, h3⟩
    · simp only [hq]; exact ⟨h1, h2, h3⟩

/-- **the current order** (`node_flips_before_stopping_task`, `conn_flips_before_stopping_task`): under every interleaving, once the
stopping task has run the wrapper is STOPPED -/
theorem C05_wrapper_ends_stopped (sched : List Bool) :
    node_flips_before_stopping_task = true ∧ conn_flips_before_stopping_task = true ∧ node_running_before_first_task = true ∧
    ((stopRun true sched).wdone = true → (stopRun true sched).st = .stopped) := by
  refine ⟨by decide, by decide, by decide, ?_⟩
  have : StopInv (stopRun true sched) := by
    unfold stopRun
    suffices H : ∀ s, StopInv s → StopInv (sched.foldl (stopStep true) s) from H _ ⟨by simp, by simp, by simp⟩
    induction sched with
    | nil => intro s h; exact h
    | cons b bs ih => intro s h; exact ih _ (stopInv_step s b h)
  intro hw
  exact (this.2.1 hw).2

/-- with the stopping task queued first a schedule leaves the wrapper STOPPING although the task has run -/
theorem C05_task_first_stays_stopping :
    (stopRun false [true, false, true]).wdone = true ∧ (stopRun false [true, false, true]).st = .stopping ∧
    (stopRun false [true, false, true]).upc = 2 := by decide

/-- **before the repair** (one check per event) the selection handler could be left ready with no call pending — the schedule of the
stall observed on the real threads: two expectations (one message, then none) queued before the message arrives. -/
theorem C05_oneshot_selection_stalls :
    let q := run (fun (n have_ : Nat) => decide (n ≤ have_)) (fun n have_ => have_ - n) false 0
      [.addExp 1 true, .addExp 0 true, .handle, .handle, .arrive (· + 1) true, .handle]
    q.trig = 0 ∧ Ready (fun (n have_ : Nat) => decide (n ≤ have_)) q :=
  ⟨oneshot_lost_wakeup.2.2.1, oneshot_lost_wakeup.2.2.2⟩

end Rex.C05
