import RexModel.Lifecycle

/-! # C05 — graph lifecycle calls always return and episodes are isolated

`stop_returns`: with the operation order of the current source (regenerated facts `source_order`), from **every**
state in which `stop()` can be entered — the supervisor's worker at any point of its step, any number `k` of queued
supervisor steps — **every** interleaving of the user thread and the worker is finite and ends with `stop()`
returned; no fairness is needed because a measure decreases on every step of either thread.
`pinned_stop_deadlock`: without the state re-check (the pinned tree) a stuck state is reachable.
`reset()`, `step()`, `run()` start with `stop()` and otherwise only wait for the dataflow machine to reach the next
supervisor observation (C02's machine); their termination on graphs for which the machine is productive is checked
on the implementation (partial: productivity under `num_tokens = 10` is not proved). -/

namespace Rex.C05

open Rex.Lifecycle Rex.Gen.Lifecycle

/-- the operation-order facts of the current source -/
theorem source_order :
    sync_checks_state_after_publish = true ∧ stop_flips_before_cancel = true ∧ stop_cancel_atomic = true := by decide

theorem step_measure (s s' : St) (h : Step true s s') : mu s' < mu s := by
  cases h <;> simp_all [mu, spcRank, upcRank] <;> (try split) <;> (try split) <;> omega

theorem inv_step (s s' : St) (hi : Inv s) (h : Step true s s') : Inv s' := by
  obtain ⟨h1, h2, h3, h4, h5, h6, h7⟩ := hi
  obtain ⟨fl, spc, k, sq, st, ap, ca, mr, upc⟩ := s
  simp only at h1 h2 h3 h4 h5 h6 h7
  cases h <;> simp only at * <;> subst_vars <;>
    (constructor <;> simp_all <;> (try omega) <;> (try (cases upc <;> simp_all)) <;> (try (cases st <;> simp_all <;> omega)))

/-- **no stuck state**: while `stop()` has not returned, some thread can take a step -/
theorem stop_no_stuck (s : St) (hi : Inv s) (hu : s.upc ≠ .returned) : ∃ s', Step true s s' := by
  obtain ⟨h1, h2, h3, h4, h5, h6, h7⟩ := hi
  -- the user thread can always move in its flip and cancel phases
  cases hup : s.upc with
  | start => exact ⟨_, Step.uFlip hup⟩
  | flipped => exact ⟨_, Step.uCancel hup⟩
  | returned => exact absurd hup hu
  | cancelled =>
    -- the user waits for the supervisor's stopping task: the worker must be able to move
    by_cases hst : s.stopped = true
    · exact ⟨_, Step.uReturn hup hst⟩
    · cases hsp : s.spc with
      | pre => exact ⟨_, Step.sPublish hsp⟩
      | done => exact ⟨_, Step.sDone hsp⟩
      | wait => exact ⟨_, Step.sWake hsp (h3 hsp (Or.inl hup))⟩
      | pub =>
        have hf : s.flipped = true := h1.mpr (by rw [hup]; simp)
        exact ⟨_, Step.sCheckSkip hsp (Or.inr ⟨rfl, hf⟩)⟩
      | idle =>
        by_cases hk : 0 < s.k
        · exact ⟨_, Step.sStart hsp hk⟩
        · have hq : s.stopQueued = true := by
            rcases h4 (by rw [hup]; simp) with h | h
            · exact h
            · exact absurd h hst
          exact ⟨_, Step.sStopping hsp (by omega) hq⟩

/-- **stop() returns**: from every state satisfying the invariant, every interleaving is finite and ends with `stop()`
returned. No fairness assumption: `mu` decreases on every step of either thread. -/
theorem stop_terminates : ∀ (n : Nat) (s : St), mu s ≤ n → Inv s → Terminates true s := by
  intro n
  induction n with
  | zero =>
    intro s hm hi
    by_cases hu : s.upc = .returned
    · exact .ret hu
    · obtain ⟨s', hs'⟩ := stop_no_stuck s hi hu
      have := step_measure s s' hs'
      omega
  | succ n ih =>
    intro s hm hi
    by_cases hu : s.upc = .returned
    · exact .ret hu
    · refine .step (stop_no_stuck s hi hu) ?_
      intro s' hs'
      exact ih s' (by have := step_measure s s' hs'; omega) (inv_step s s' hi hs')

/-- every state in which `stop()` can be entered satisfies the invariant: the worker anywhere in its step (waiting only
on a published, uncancelled future), any number of queued supervisor steps, any `must_reset` flag -/
theorem entry_inv (spc : SPc) (k : Nat) (ap ca mr : Bool) (hw : (spc = .wait ∨ spc = .pub) → ap = true) :
    Inv ⟨false, spc, k, false, false, ap, ca, mr, .start⟩ := by
  constructor <;> simp_all

/-- **C05, stop()**: whenever `stop()` is called — whatever the worker is doing, however many supervisor steps are queued —
it returns, under every interleaving. -/
theorem stop_returns (spc : SPc) (k : Nat) (ap ca mr : Bool) (hw : (spc = .wait ∨ spc = .pub) → ap = true) :
    Terminates true ⟨false, spc, k, false, false, ap, ca, mr, .start⟩ :=
  stop_terminates _ _ (Nat.le_refl _) (entry_inv spc k ap ca mr hw)

/-- when `stop()` has returned nothing is pending on the supervisor's worker (quiescence ⇒ the next episode starts clean) -/
theorem quiescent_after_stop (s : St) (hi : Inv s) (hu : s.upc = .returned) :
    s.stopped = true ∧ s.k = 0 ∧ s.spc = .idle ∧ s.stopQueued = false := by
  have hst := hi.retStopped hu
  obtain ⟨a, b, c⟩ := hi.notStopped hst
  exact ⟨hst, a, b, c⟩

/-- **the pinned tree deadlocks**: without the state re-check, `run(); stop()` reaches — from the worker idle with one queued
supervisor step — a state in which the worker waits for an action nobody will provide, its stopping task is queued behind it, and
the user waits for that task: no thread can move and `stop()` has not returned. -/
theorem pinned_stop_deadlock :
    ∃ s, Reach false ⟨false, .idle, 1, false, false, false, false, false, .start⟩ s ∧
      (∀ s', ¬ Step false s s') ∧ s.upc ≠ .returned := by
  refine ⟨⟨true, .wait, 0, true, false, true, false, false, .cancelled⟩, ?_, ?_, by decide⟩
  · -- worker dequeues the step; user flips and finds no future to cancel; worker publishes and waits
    have r0 := Reach.refl (checkState := false) ⟨false, .idle, 1, false, false, false, false, false, .start⟩
    have r1 := Reach.tail r0 (Step.sStart (s := ⟨false, .idle, 1, false, false, false, false, false, .start⟩) rfl (by decide))
    have r2 := Reach.tail r1 (Step.uFlip (s := ⟨false, .pre, 0, false, false, false, false, false, .start⟩) rfl)
    have r3 := Reach.tail r2 (Step.uCancel (s := ⟨true, .pre, 0, true, false, false, false, false, .flipped⟩) rfl)
    have r4 := Reach.tail r3 (Step.sPublish (s := ⟨true, .pre, 0, true, false, false, false, false, .cancelled⟩) rfl)
    have r5 := Reach.tail r4 (Step.sCheckWait (s := ⟨true, .pub, 0, true, false, true, false, false, .cancelled⟩) rfl rfl (by simp))
    exact r5
  · intro s' h
    cases h <;> simp_all

/-- with the re-check the same schedule ends: the worker sees the flipped state and skips -/
theorem fixed_same_schedule_returns :
    Terminates true ⟨false, .idle, 1, false, false, false, false, false, .start⟩ :=
  stop_returns .idle 1 false false false (by simp)

/-- messages of an earlier episode are filtered by their episode number (second barrier of episode isolation) -/
theorem prev_episode_filtered (msgEps nodeEps : Int) (h : msgEps ≠ nodeEps) :
    ts_input_prev_eps msgEps nodeEps = true ∧ input_prev_eps msgEps nodeEps = true := by
  simp [ts_input_prev_eps, input_prev_eps, h]

/-- once a wrapper has left RUNNING it accepts no task except its own stopping task -/
theorem no_task_after_flip : node_submit_allowed 5 false = false ∧ node_submit_allowed 0 false = false ∧
    conn_submit_allowed 5 false = false ∧ conn_submit_allowed 0 false = false ∧
    node_submit_allowed 5 true = true ∧ conn_submit_allowed 5 true = true := by decide

end Rex.C05
