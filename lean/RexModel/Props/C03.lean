import RexModel.Async.Machine
import RexModel.Async.Pipeline
import RexModel.Async.FullPipe
import RexModel.Async.Guard
import RexModel.Props.FieldTime
import RexModel.Async.Blocking
import Mathlib.Algebra.Order.Field.Basic
import Mathlib.Tactic.Linarith
import Mathlib.Order.Monotone.Basic

/-! # C03 — recorded episodes are causal and loss-free on every connection

Per-connection laws about the generated kernels (`RexModel/Gen/Async.lean`) and the connection plumbing of
`RexModel/Async/Machine.lean`: FIFO arrival times, "received no earlier than sent" at clock resolution,
exactly-once / in-order consumption, the consumption policy of non-blocking connections (LATEST and BUFFER,
with the strict tie rule of skipped connections), and the input window as "the last `window` consumed messages,
oldest first". -/

namespace Rex.C03

open Rex.Gen.Async Rex.Async

section Field
variable {α : Type} [Field α] [LinearOrder α] [IsStrictOrderedRing α]

/-- FIFO: a message is never received before the previous one on the same connection (when the previous receive
time is on the clock grid, as every receive time is). -/
theorem fifo_recv_mono (rnd : α → α) (hm : Monotone rnd) (sent delay prev : α) (hgrid : rnd prev = prev) :
    prev ≤ recv_sc rnd sent delay prev := by
  simp only [recv_sc]
  calc prev = rnd prev := hgrid.symm
    _ ≤ rnd (max (sent + delay) prev) := hm (le_max_right _ _)

/-- receive times stay on the grid (idempotent rounding) -/
theorem recv_on_grid (rnd : α → α) (hi : ∀ x, rnd (rnd x) = rnd x) (sent delay prev : α) :
    rnd (recv_sc rnd sent delay prev) = recv_sc rnd sent delay prev := by
  simp only [recv_sc]; exact hi _

/-- received no earlier than sent, at clock resolution: `rnd sent ≤ recv` for a non-negative delay … -/
theorem recv_ge_rnd_sent (rnd : α → α) (hm : Monotone rnd) (sent delay prev : α) (hd : 0 ≤ delay) :
    rnd sent ≤ recv_sc rnd sent delay prev := by
  simp only [recv_sc]
  exact hm (le_trans (by linarith) (le_max_left _ _))

/-- … hence literally `sent ≤ recv` whenever the send time is on the grid (`_partial`: the hypothesis `rnd sent = sent`
is needed, see `recv_lt_sent_witness`). -/
theorem recv_ge_sent_partial (rnd : α → α) (hm : Monotone rnd) (sent delay prev : α) (hd : 0 ≤ delay)
    (hgrid : rnd sent = sent) : sent ≤ recv_sc rnd sent delay prev := by
  have := recv_ge_rnd_sent rnd hm sent delay prev hd
  rwa [hgrid] at this

/-- and within the rounding error `e` otherwise: `sent - e ≤ recv`. -/
theorem recv_ge_sent_resolution (rnd : α → α) (hm : Monotone rnd) (e : α) (herr : ∀ x, x - e ≤ rnd x)
    (sent delay prev : α) (hd : 0 ≤ delay) : sent - e ≤ recv_sc rnd sent delay prev :=
  le_trans (herr sent) (recv_ge_rnd_sent rnd hm sent delay prev hd)

/-- the recorded delay is receive minus send time -/
theorem delay_sc_spec (recv sent : α) : delay_sc recv sent = recv - sent := rfl

end Field

/-- The literal statement `sent ≤ recv` is **false** for off-grid send times: with rounding down to multiples of
1000 (integer nanoseconds → microseconds), zero delay and send time 1499, the message is "received" at 1000. -/
theorem recv_lt_sent_witness :
    recv_sc (fun x : Int => x / 1000 * 1000) 1499 0 0 < (1499 : Int) := by decide

section Policy
variable {α : Type} [LinearOrder α]

/-- the LATEST break test: "arrived after the step started" (or exactly at its start, for a skipped connection) -/
theorem latest_break_spec (skip : Bool) (ts tsStep : α) :
    nb_latest_break skip ts tsStep = true ↔ (tsStep < ts ∨ (skip = true ∧ ts = tsStep)) := by
  simp [nb_latest_break]

/-- the BUFFER arrival test carries the same strict tie rule for skipped connections -/
theorem buffer_break_recv_spec (skip : Bool) (ts tsStep : α) :
    nb_buffer_break_recv skip ts tsStep = true ↔ (tsStep < ts ∨ (skip = true ∧ ts = tsStep)) := by
  simp [nb_buffer_break_recv]

theorem buffer_break_expected_spec (tsExp tsStep : α) :
    nb_buffer_break_expected tsExp tsStep = true ↔ tsStep < tsExp := by
  simp [nb_buffer_break_expected]

/-- a message may be consumed by a step iff it arrived at or before the step's start (strictly before if skipped) -/
def mayConsume (skip : Bool) (ts tsStep : α) : Prop := ts ≤ tsStep ∧ (skip = true → ts < tsStep)

theorem latest_break_iff_not_mayConsume (skip : Bool) (ts tsStep : α) :
    nb_latest_break skip ts tsStep = true ↔ ¬ mayConsume skip ts tsStep := by
  rw [latest_break_spec]
  unfold mayConsume
  constructor
  · rintro (h | ⟨hs, rfl⟩)
    · intro ⟨h1, _⟩; exact absurd h (not_lt.mpr h1)
    · intro ⟨_, h2⟩; exact lt_irrefl _ (h2 hs)
  · intro h
    by_cases h1 : ts ≤ tsStep
    · right
      by_cases hs : skip = true
      · refine ⟨hs, ?_⟩
        by_contra hne
        exact h ⟨h1, fun _ => lt_of_le_of_ne h1 hne⟩
      · exact absurd ⟨h1, fun hs' => absurd hs' hs⟩ h
    · left; exact not_le.mp h1

/-- **LATEST policy, never early**: every message handed to a step arrived at or before the step started
(strictly before on a skipped connection) — a step never consumes a message that arrived after it started. -/
theorem latest_consumed_arrived (skip : Bool) (tsStep : α) (q : List α) :
    ∀ ts ∈ q.takeWhile (fun ts => !nb_latest_break skip ts tsStep), mayConsume skip ts tsStep := by
  induction q with
  | nil => intro ts hts; simp at hts
  | cons a q ih =>
    intro ts hts
    simp only [List.takeWhile_cons] at hts
    split at hts
    · rename_i ha
      rcases List.mem_cons.mp hts with rfl | hmem
      · by_contra hc
        have hb := (latest_break_iff_not_mayConsume skip ts tsStep).mpr hc
        simp [hb] at ha
      · exact ih ts hmem
    · simp at hts

/-- **LATEST policy, first step at or after arrival**: with FIFO (non-decreasing) arrival times, every message left in
the queue could not have been consumed by this step — so each message goes to the *first* step that may consume it. -/
theorem latest_rest_not_consumable (skip : Bool) (tsStep : α) (q : List α) (hs : q.Pairwise (· ≤ ·)) :
    ∀ ts ∈ q.dropWhile (fun ts => !nb_latest_break skip ts tsStep), ¬ mayConsume skip ts tsStep := by
  induction q with
  | nil => simp
  | cons a q ih =>
    intro ts hts
    rw [List.pairwise_cons] at hs
    simp only [List.dropWhile_cons] at hts
    split at hts
    · exact ih hs.2 ts hts
    · rename_i hb
      simp only [Bool.not_eq_true', Bool.not_eq_false] at hb
      have ha : ¬ mayConsume skip a tsStep := (latest_break_iff_not_mayConsume skip a tsStep).mp hb
      rcases List.mem_cons.mp hts with rfl | hmem
      · exact ha
      · have hle : a ≤ ts := hs.1 ts hmem
        intro ⟨h1, h2⟩
        apply ha
        refine ⟨le_trans hle h1, fun hsk => lt_of_le_of_lt hle (h2 hsk)⟩

/-- **Exactly once, in order**: a step's group and the remaining queue partition the arrival queue. -/
theorem exactly_once_in_order {β : Type} (p : β → Bool) (q : List β) :
    q.takeWhile p ++ q.dropWhile p = q := List.takeWhile_append_dropWhile

/-- consuming groups one after the other consumes a prefix of the arrival stream, each message once, in order -/
theorem groups_are_prefix {β : Type} (ps : List (β → Bool)) (q : List β) :
    ∃ rest, (ps.foldl (fun (acc : List (List β) × List β) p => (acc.1 ++ [acc.2.takeWhile p], acc.2.dropWhile p)) ([], q)).1.flatten ++ rest = q := by
  suffices h : ∀ (done : List (List β)) (q0 q : List β), done.flatten ++ q = q0 →
      ∃ rest, (ps.foldl (fun (acc : List (List β) × List β) p => (acc.1 ++ [acc.2.takeWhile p], acc.2.dropWhile p)) (done, q)).1.flatten ++ rest = q0 by
    exact h [] q q (by simp)
  induction ps with
  | nil => intro done q0 q h; exact ⟨q, h⟩
  | cons p ps ih =>
    intro done q0 q h
    simp only [List.foldl_cons]
    apply ih
    simp only [List.flatten_append, List.flatten_cons, List.flatten_nil, List.append_nil, List.append_assoc]
    rw [List.takeWhile_append_dropWhile]; exact h

end Policy

section Window
variable {T : Type}

/-- pushing one message rolls the window: same length, newest last -/
theorem pushItem_length (w : List (Item T)) (x : Item T) (h : 0 < w.length) : (pushItem w x).length = w.length := by
  simp [pushItem]; omega

/-- **Window = the last `w` consumed messages, oldest first**: pushing a group of messages into a window yields the
last `|window|` elements of (window ++ group). -/
theorem window_is_last_w (w : List (Item T)) (g : List (Item T)) (h : 0 < w.length) :
    g.foldl pushItem w = (w ++ g).drop g.length := by
  induction g generalizing w with
  | nil => simp
  | cons x g ih =>
    simp only [List.foldl_cons]
    rw [ih (pushItem w x) (by rw [pushItem_length w x h]; exact h)]
    simp only [pushItem, List.length_cons]
    cases w with
    | nil => simp at h
    | cons a w => simp [List.drop_append]

/-- the group a connection hands over is cut to the newest `window` messages (Python `grouped[-window:]`) -/
theorem sel_window_spec {β : Type} (g : List β) (w : Nat) : sel_window g w = g.drop (g.length - w) := rfl

theorem sel_window_length {β : Type} (g : List β) (w : Nat) : (sel_window g w).length = min g.length w := by
  simp [sel_window, Rex.lastN]; omega

end Window

/-- the two blocking in-range tests are mutually exclusive (the source asserts `flag < 2`) -/
theorem blocking_flags_exclusive {α : Type} [LinearOrder α] (t tLow tHigh : α) (skip : Bool) :
    ¬ (bl_in_noskip t tLow tHigh skip = true ∧ bl_in_skip t tLow tHigh skip = true) := by
  cases skip <;> simp [bl_in_noskip, bl_in_skip]

/-- blocking, not skipped: a message stamped `t` belongs to step `N` iff `t_low < t ≤ t_high` -/
theorem blocking_in_noskip_spec {α : Type} [LinearOrder α] (t tLow tHigh : α) :
    bl_in_noskip t tLow tHigh false = true ↔ (tLow < t ∧ t ≤ tHigh) := by
  simp [bl_in_noskip]

/-- blocking, skipped: `t_low ≤ t < t_high` (a message stamped exactly at the step's scheduled time goes to the next step) -/
theorem blocking_in_skip_spec {α : Type} [LinearOrder α] (t tLow tHigh : α) :
    bl_in_skip t tLow tHigh true = true ↔ (tLow ≤ t ∧ t < tHigh) := by
  simp [bl_in_skip]

/-- a blocking step waits for its group: the start-time input `ts_max` is the latest arrival in the group (≥ each) -/
theorem ts_max_fold_ge {α : Type} [LinearOrder α] [NatCast α] (xs : List α) : ∀ x ∈ xs, x ≤ ts_max_fold xs := by
  unfold ts_max_fold
  suffices h : ∀ (xs : List α) (a : α), (a ≤ List.foldl max a xs) ∧ ∀ x ∈ xs, x ≤ List.foldl max a xs from (h xs _).2
  intro xs
  induction xs with
  | nil => intro a; simp
  | cons y ys ih =>
    intro a
    simp only [List.foldl_cons, List.mem_cons]
    obtain ⟨h1, h2⟩ := ih (max a y)
    refine ⟨le_trans (le_max_left _ _) h1, ?_⟩
    rintro x (rfl | hx)
    · exact le_trans (le_max_right _ _) h1
    · exact h2 x hx

section Machine
variable {T : Type} [TimeLike T]

/-- the arrival queue of a connection holds (sequence number, receive time) pairs -/
def allTickTs : List (Val T) → Prop
  | [] => True
  | .tickTs _ _ :: r => allTickTs r
  | _ :: _ => False

/-- **The machine's LATEST rule is the policy function**: the number of messages `push_expected_nonblocking` hands to a step
is the length of the maximal leading run of arrivals that may be consumed (`¬ break`), computed on the receive times. -/
theorem machine_latest_count (cc : ConnCfg T) (hj : cc.jitter = 0) (tsStep : T) (pre : List (Val T)) (h : allTickTs pre) :
    nbCount cc tsStep pre = ((timesOf pre).takeWhile fun ts => !nb_latest_break cc.skip ts tsStep).length := by
  unfold nbCount
  induction pre with
  | nil => rfl
  | cons v r ih =>
    cases v with
    | tickTs seq ts =>
      simp only [allTickTs] at h
      simp only [List.takeWhile_cons, timesOf, hj]
      have hne : ((0 : Nat) == 1) = false := rfl
      simp only [hne, Bool.false_eq_true, if_false]
      cases hb : (!nb_latest_break cc.skip ts tsStep) with
      | true => simp only [if_true, List.length_cons]; rw [← ih h]; simp [hj]
      | false => simp
    | _ => simp [allTickTs] at h

end Machine

/-- … hence every message the machine's LATEST rule hands to a step had arrived when the step started (strictly before, if
skipped), and with FIFO arrivals the first message left behind could not have been consumed. -/
theorem machine_latest_policy {α : Type} [LinearOrder α] (skip : Bool) (tsStep : α) (q : List α) (hs : q.Pairwise (· ≤ ·)) :
    (∀ ts ∈ q.take ((q.takeWhile fun ts => !nb_latest_break skip ts tsStep).length), mayConsume skip ts tsStep) ∧
    (∀ ts ∈ q.drop ((q.takeWhile fun ts => !nb_latest_break skip ts tsStep).length), ¬ mayConsume skip ts tsStep) := by
  have key : ∀ (p : α → Bool) (l : List α), l.take (l.takeWhile p).length = l.takeWhile p ∧ l.drop (l.takeWhile p).length = l.dropWhile p := by
    intro p l
    induction l with
    | nil => simp
    | cons a l ih =>
      simp only [List.takeWhile_cons, List.dropWhile_cons]
      cases p a <;> simp [ih.1, ih.2]
  have e1 := (key (fun ts => !nb_latest_break skip ts tsStep) q).1
  have e2 := (key (fun ts => !nb_latest_break skip ts tsStep) q).2
  rw [e1, e2]
  exact ⟨latest_consumed_arrived skip tsStep q, latest_rest_not_consumable skip tsStep q hs⟩

/-- **No qualifying message is left behind because it was not visible yet**: `push_expected_nonblocking` counts only once an
arrival in the step's strict future is queued, and from then on the count is the same whatever arrives later — so a step gets every
message of the (FIFO) arrival stream that the policy lets it consume, not just those its thread happened to see. (With a wait
condition `ts ≥ ts_step` this fails: a later arrival with the same receive time would still qualify on a non-skipped connection.) -/
theorem C03_count_final_once_future_seen {T : Type} [TimeLike T] (cc : ConnCfg T) (tsStep : T) (pre rest : List (Val T))
    (h : ∃ v ∈ pre, isFuture tsStep v = true) :
    nbCount cc tsStep (pre ++ rest) = nbCount cc tsStep pre :=
  nbCount_needed_prefix cc tsStep pre rest h

/-- **FIFO under every schedule** (machine level): in every reachable state the receive times recorded on a connection are
non-decreasing in consumption order — for any monotone, idempotent rounding. -/
theorem C03_recorded_arrivals_fifo {α : Type} [Field α] [LinearOrder α] [IsStrictOrderedRing α] (rnd : α → α) (fdiv : α → α → Int)
    (hm : Monotone rnd) (hidem : ∀ x, rnd (rnd x) = rnd x) :
    letI := Rex.FieldTime.fieldTime α rnd fdiv
    ∀ (cfg : Cfg α) (c : Nat) (cc : ConnCfg α), cfg.conn c = some cc → WFConn cfg c →
    ∀ (σ : List Rule) (s : MSt α), Rex.Conf.Run (machine cfg).toNet.sys (initState cfg) σ s →
      ((s.q (.conn c .record)).filterMap recvRec).Pairwise (· ≤ ·) := by
  letI := Rex.FieldTime.fieldTime α rnd fdiv
  intro cfg c cc hcc hwf σ s hrun
  have hi := arrInv_run cfg c cc hcc hwf hrun (arrInv_init cfg c cc)
  have h1 := recorded_recv (s.q (.conn c .record)) hi.wfR
  have h2 : (s.q (.conn c .record)).filterMap delayRec
      = List.zipWith delay_sc (recvChain cc.commDelay 0 zeroT ((s.q (.conn c .record)).filterMap sentRec))
          ((s.q (.conn c .record)).filterMap sentRec) := hi.recorded_delays
  rw [h1, h2]
  have hz := Rex.FieldTime.zip_of_delay rnd fdiv hidem cc.commDelay ((s.q (.conn c .record)).filterMap sentRec) 0 zeroT
  have hz' : List.zipWith (zip_recv_sc TimeLike.rnd) ((s.q (.conn c .record)).filterMap sentRec)
      (List.zipWith delay_sc (recvChain cc.commDelay 0 zeroT ((s.q (.conn c .record)).filterMap sentRec)) ((s.q (.conn c .record)).filterMap sentRec))
      = recvChain cc.commDelay 0 zeroT ((s.q (.conn c .record)).filterMap sentRec) := hz
  rw [hz']
  exact Rex.FieldTime.chain_sorted rnd fdiv hm hidem cc.commDelay _ 0 zeroT

/-- **Blocking connections: the phase rule decides which step consumes a message, under every schedule** (machine level): in every
reachable state and for every step `i` of the receiver that `push_selection` has served, exactly `blCount i` recorded messages carry
`seq_in = i` — `blCount i` being the number the extracted phase arithmetic of `push_expected_blocking` computes for tick `i` from
rates and phases alone — and no recorded message names a later step. With exactly-once/in-order (`C03_exactly_once_in_order`) this
fixes the consuming step of every message: message `k` goes to the step whose cumulative count first exceeds `k`. -/
theorem C03_blocking_phase_rule {T : Type} [TimeLike T] (cfg : Cfg T) (c : Nat) (cc : ConnCfg T) (nc : NodeCfg T)
    (hwf : WFBlocking cfg c cc nc) {σ : List Rule} {s : MSt T} (h : Rex.Conf.Run (machine cfg).toNet.sys (initState cfg) σ s) (i : Nat) :
    cntIn (Int.ofNat i) (s.q (.conn c .record)) = if i < (s.priv (.select c)).tick then blCount cfg cc (Int.ofNat i) else 0 := by
  have hi := binv_run cfg c cc nc hwf h (binv_init cfg c (blCount cfg cc))
  exact hi.rc i

/-- **Exactly once, in arrival order, under every schedule** (machine level, last stage of a connection): along every execution
of the asynchronous machine, the sequence "messages recorded as consumed, followed by messages arrived but not yet consumed" of a
connection only ever grows at its end. Hence at every moment the consumed messages are the leading part of the arrival order: none
is lost, duplicated or overtaken between `push_zip` and `push_selection`, whatever the thread interleaving. -/
theorem C03_consumption_is_arrival_prefix {T : Type} [TimeLike T] (cfg : Cfg T) (c : Nat) {σ τ : List Rule} {s s' : MSt T}
    (_h : Rex.Conf.Run (machine cfg).toNet.sys (initState cfg) σ s) (h' : Rex.Conf.Run (machine cfg).toNet.sys s τ s') :
    seqsRec (s.q (.conn c .record)) ++ seqsOf (s.q (.conn c .msgs))
      <+: seqsRec (s'.q (.conn c .record)) ++ seqsOf (s'.q (.conn c .msgs)) :=
  pipe_prefix_run cfg c h'

/-- nothing is consumed before the episode starts -/
theorem C03_pipe_init {T : Type} [TimeLike T] (cfg : Cfg T) (c : Nat) : pipe c (initState cfg) = [] := by
  simp [pipe, initState, seqsRec, seqsOf]

theorem prefix_upTo (l : List Int) (k : Nat) (h : l <+: upTo k) : l = upTo l.length := by
  obtain ⟨t, ht⟩ := h
  have hlen : l.length ≤ k := by
    have := congrArg List.length ht
    simp [upTo] at this; omega
  apply List.ext_getElem
  · simp [upTo]
  · intro i h1 h2
    have h3 : i < (upTo k).length := by simp [upTo]; omega
    have h4 : i < (l ++ t).length := by simp; omega
    have e1 : (l ++ t)[i] = l[i] := List.getElem_append_left h1
    have e2 : (l ++ t)[i] = (upTo k)[i] := by simp only [ht]
    rw [← e1, e2]
    simp [upTo]

/-- **Gap-free sequence numbers from 0, under every schedule** (machine level): in every reachable state the steps a node has
recorded carry the sequence numbers `0, 1, …, n-1` in this order. -/
theorem C03_node_seq_gapfree {T : Type} [TimeLike T] (cfg : Cfg T) (n : Nat) {σ : List Rule} {s : MSt T}
    (h : Rex.Conf.Run (machine cfg).toNet.sys (initState cfg) σ s) :
    recTicks (s.q (.node n .record)) = upTo (recTicks (s.q (.node n .record))).length := by
  have hi := tickInv_run cfg h (tickInv_init cfg) n
  apply prefix_upTo _ (s.priv (.sched n)).tick
  rw [← hi]
  unfold tickLine
  rw [List.append_assoc, List.append_assoc]
  exact List.prefix_append _ _

/-- **Exactly once, in order, end to end, under every schedule** (machine level): for a connection listed once among its
sender's outputs, in every reachable state the messages recorded as consumed carry the sequence numbers `0, 1, …, m-1` in this
order — nothing the sender emitted is lost, duplicated or reordered on the way to the receiver's record, whatever the
interleaving of the sender's, the connection's and the receiver's threads. -/
theorem C03_exactly_once_in_order {T : Type} [TimeLike T] (cfg : Cfg T) (c : Nat) (hwf : WFConn cfg c) {σ : List Rule} {s : MSt T}
    (h : Rex.Conf.Run (machine cfg).toNet.sys (initState cfg) σ s) :
    seqsRec (s.q (.conn c .record)) = upTo (seqsRec (s.q (.conn c .record))).length := by
  have hp := pipeInv_run cfg c hwf h (pipeInv_init cfg c)
  have hn := C03_node_seq_gapfree cfg (cfg.src c) h
  unfold PipeInv fullPipe at hp
  apply prefix_upTo _ (recTicks (s.q (.node (cfg.src c) .record))).length
  rw [← hn, ← hp, List.append_assoc, List.append_assoc]
  exact List.prefix_append _ _

/-- … and every message still under way continues that numbering: the whole pipeline of the connection is `0, 1, …` -/
theorem C03_pipeline_numbering {T : Type} [TimeLike T] (cfg : Cfg T) (c : Nat) (hwf : WFConn cfg c) {σ : List Rule} {s : MSt T}
    (h : Rex.Conf.Run (machine cfg).toNet.sys (initState cfg) σ s) :
    fullPipe c s = upTo (fullPipe c s).length := by
  have hp := pipeInv_run cfg c hwf h (pipeInv_init cfg c)
  have hn := C03_node_seq_gapfree cfg (cfg.src c) h
  unfold PipeInv at hp
  rw [hp]; exact hn

-- non-vacuity: a FIFO queue with a tie on a skipped connection
example : mayConsume (α := ℚ) false 1 1 ∧ ¬ mayConsume (α := ℚ) true 1 1 := by
  constructor
  · exact ⟨le_refl _, fun h => by cases h⟩
  · intro ⟨_, h⟩; exact lt_irrefl _ (h rfl)

end Rex.C03
