import RexModel.Lib.Delay
import Mathlib.Algebra.Order.Field.Basic
import Mathlib.Tactic.Linarith
import Mathlib.Tactic.Ring
import Mathlib.Tactic.FieldSimp

/-! # C10 — a trainable delay set to d behaves exactly like a static delay of d (zero-order hold)

`L` is the extended window a step receives: the last `window + E` messages consumed under the *minimal* delay,
oldest first (`E = ⌈rate·(max − min)⌉`). -/

namespace Rex.C10

open Rex.Gen.Delay Rex.Delay

section Field
variable {α : Type} [Field α] [LinearOrder α] [IsStrictOrderedRing α]

/-- setting the delay through `get_alpha` saturates at the bounds: `min + alpha·(max − min) = clamp d min max` -/
theorem getAlpha_clamps (d dmin dmax : α) (h : dmin < dmax) :
    td_mean dmin (td_get_alpha (td_get_alpha_raw d dmin dmax)) dmax = max dmin (min d dmax) := by
  have hpos : 0 < dmax - dmin := sub_pos.mpr h
  simp only [td_mean, td_get_alpha, td_get_alpha_raw, Rex.clip, Nat.cast_zero, Nat.cast_one]
  rcases le_total d dmin with h1 | h1
  · have : (d - dmin) / (dmax - dmin) ≤ 0 := div_nonpos_of_nonpos_of_nonneg (by linarith) hpos.le
    rw [max_eq_right this, min_eq_left (by norm_num : (0:α) ≤ 1), min_eq_left (le_trans h1 h.le), max_eq_left h1]
    ring
  · rcases le_total d dmax with h2 | h2
    · have h0 : 0 ≤ (d - dmin) / (dmax - dmin) := div_nonneg (by linarith) hpos.le
      have h1' : (d - dmin) / (dmax - dmin) ≤ 1 := by rw [div_le_one hpos]; linarith
      rw [max_eq_left h0, min_eq_left h1', min_eq_left h2, max_eq_right h1]
      field_simp
      ring
    · have h1' : 1 ≤ (d - dmin) / (dmax - dmin) := by rw [le_div_iff₀ hpos]; linarith
      rw [max_eq_left (le_trans (by norm_num) h1'), min_eq_right h1', min_eq_right h2, max_eq_right h.le]
      ring

/-- the sampled delay is the mean (the distribution is a point mass) -/
theorem sample_eq_mean (dmin alpha dmax : α) : td_sample dmin alpha dmax 1 = td_mean dmin alpha dmax := by
  simp [td_sample, td_mean]

end Field

section Order
variable {α : Type} [LinearOrder α] [Add α] [NatCast α] [IntCast α]

/-- the step receives exactly `window` entries -/
theorem zoh_len (d start : α) (window : Nat) (L : List (Msg α)) (h : window ≤ L.length) :
    (applyDelayZoh d start window L).length = window := by
  unfold applyDelayZoh sliceStart
  simp only [List.length_take, List.length_drop]
  omega

/-- entries that have arrived by `start` under delay `d` -/
def arrived (d start : α) (m : Msg α) : Bool := !zoh_future (recv' d m) start

/-- with non-decreasing receive times the arrived entries form a prefix, of length `idxMax` -/
theorem arrived_prefix (d start : α) (L : List (Msg α))
    (hs : L.Pairwise (fun a b => recv' d a ≤ recv' d b)) :
    L.filter (arrived d start) = L.take (idxMax d start L) := by
  unfold idxMax
  induction L with
  | nil => rfl
  | cons m L ih =>
    rw [List.pairwise_cons] at hs
    simp only [List.filter_cons, List.takeWhile_cons]
    by_cases ha : arrived d start m = true
    · have : (!zoh_future (recv' d m) start) = true := ha
      simp only [ha, this, if_true, List.length_cons, List.take_succ_cons]
      rw [ih hs.2]
    · have hb : (!zoh_future (recv' d m) start) = false := by simpa [arrived] using ha
      simp only [ha, hb, Bool.false_eq_true, if_false, List.length_nil, List.take_zero]
      -- nothing later has arrived either
      apply List.filter_eq_nil_iff.mpr
      intro x hx
      have hle := hs.1 x hx
      simp only [arrived, zoh_future, Bool.not_eq_true', decide_eq_false_iff_not, not_lt, Bool.not_eq_false',
        decide_eq_true_eq, gt_iff_lt] at hb ⊢
      exact not_le.mpr (lt_of_lt_of_le hb hle)

/-- **zoh = static delay (partial).** If the receive times under `d` are non-decreasing and at least `window` entries of
the extended window have arrived by the step's start — i.e. at most `E` of its `window + E` entries are still in
flight under `d` — the step sees exactly the newest `window` messages that have arrived under delay `d`: what the
same system with a static communication delay `d` consumes. (`_partial`: the hypothesis `hw` is needed, see
`zoh_wraps_witness`.) -/
theorem zoh_eq_static_partial (d start : α) (window : Nat) (L : List (Msg α))
    (hs : L.Pairwise (fun a b => recv' d a ≤ recv' d b)) (hw : window ≤ idxMax d start L) :
    applyDelayZoh d start window L = Rex.lastN window (L.filter (arrived d start)) := by
  rw [arrived_prefix d start L hs]
  have hle : idxMax d start L ≤ L.length := by unfold idxMax; exact (List.takeWhile_sublist _).length_le
  unfold applyDelayZoh sliceStart zoh_idx_min Rex.lastN
  have h1 : ¬ ((idxMax d start L : Int) - (window : Int) < 0) := by omega
  simp only [h1, if_false, List.length_take]
  have e : (max 0 (min ((idxMax d start L : Int) - (window : Int)) ((L.length : Int) - window))).toNat = idxMax d start L - window := by omega
  rw [e, Nat.min_eq_left hle]
  apply List.ext_getElem
  · simp only [List.length_take, List.length_drop]; omega
  · intro i h1 h2
    simp only [List.getElem_take, List.getElem_drop]

end Order

/-- Without the hypothesis the slice start goes negative, `dynamic_slice` wraps it, and the step receives a message
that has **not** arrived yet under delay `d` (integer time units: window 1, extended window of 2, both entries still in
flight at `start = 10` under `d = 5`; the result is the *newest* message, sent at 9). -/
theorem zoh_wraps_witness :
    (applyDelayZoh (5 : Int) 10 1 [⟨0, 8, 8, 100⟩, ⟨1, 9, 9, 101⟩]).map (·.seq) = [1] ∧
    ([⟨0, 8, 8, 100⟩, ⟨1, 9, 9, 101⟩] : List (Msg Int)).filter (arrived 5 10) = [] := by decide

/-- sender outputs at least `p` apart: `n` of them span at least `(n-1)·p` -/
theorem gaps_bound {α : Type} [Field α] [LinearOrder α] [IsStrictOrderedRing α] (p : α) (x : α) (xs : List α)
    (h : (x :: xs).IsChain (fun a b => a + p ≤ b)) :
    x + (xs.length : α) * p ≤ (x :: xs).getLast (by simp) := by
  induction xs generalizing x with
  | nil => simp
  | cons y ys ih =>
    rw [List.isChain_cons_cons] at h
    have := ih y h.2
    simp only [List.length_cons, Nat.cast_add, Nat.cast_one]
    rw [List.getLast_cons (by simp)]
    linarith [h.1]

/-- **spacing suffices**: if consecutive sender outputs are at least `p = 1/rate` apart, any `n` of them inside a half-open
interval `(a, b]` satisfy `(n - 1)·p < b − a`; with `b − a ≤ max − min` this gives `n ≤ ⌈rate·(max − min)⌉ = E`. -/
theorem spacing_suffices {α : Type} [Field α] [LinearOrder α] [IsStrictOrderedRing α] (p a b : α) (x : α) (xs : List α)
    (h : (x :: xs).IsChain (fun a b => a + p ≤ b)) (hlo : a < x) (hhi : (x :: xs).getLast (by simp) ≤ b) :
    (xs.length : α) * p < b - a := by
  have := gaps_bound p x xs h
  linarith

example : (applyDelayZoh (5 : Int) 20 1 [⟨0, 8, 8, 100⟩, ⟨1, 9, 9, 101⟩, ⟨2, 18, 18, 102⟩]).map (·.seq) = [1] := by decide

end Rex.C10
