import RexModel.Lib.Phase
import Mathlib.Algebra.Order.Ring.Defs
import Mathlib.Data.Finset.Card
import Mathlib.Logic.Relation
import Mathlib.Algebra.Order.Ring.Nat

/-! # C16 — node phases and node infos stay consistent with the configured delays

All statements are about the definitions in `RexModel/Gen/Phase.lean` (regenerated from `rex/node.py` on every
run) and the plumbing in `RexModel/Lib/Phase.lean`. `α` is any linearly ordered semiring (ℕ, ℚ, ℝ, …). -/

set_option linter.unusedSectionVars false

namespace Rex.C16

open Rex.Gen.Phase Rex.Phase

/-! ## `Res`: strict propagation of `RecursionError` -/
section Res
variable {α : Type}

theorem natCast_eq [NatCast α] (n : Nat) : (Nat.cast n : Res α) = Res.ok (Nat.cast n) := rfl
theorem ok_add_ok [Add α] (a b : α) : (Res.ok a + Res.ok b : Res α) = Res.ok (a + b) := rfl
theorem ok_mul_ok [Mul α] (a b : α) : (Res.ok a * Res.ok b : Res α) = Res.ok (a * b) := rfl
theorem ok_max_ok [Max α] (a b : α) : (max (Res.ok a) (Res.ok b) : Res α) = Res.ok (max a b) := rfl
theorem loop_add [Add α] (x : Res α) : Res.loop + x = Res.loop := by cases x <;> rfl
theorem add_loop [Add α] (x : Res α) : x + Res.loop = Res.loop := by cases x <;> rfl
theorem loop_mul [Mul α] (x : Res α) : Res.loop * x = Res.loop := by cases x <;> rfl
theorem loop_max [Max α] (x : Res α) : max Res.loop x = Res.loop := by cases x <;> rfl
theorem max_loop [Max α] (x : Res α) : max x Res.loop = Res.loop := by cases x <;> rfl

theorem foldl_max_loop [Max α] (l : List (Res α)) : List.foldl max Res.loop l = Res.loop := by
  induction l with
  | nil => rfl
  | cons x l ih => simp [List.foldl_cons, loop_max, ih]

theorem foldl_max_eq_loop_iff [Max α] (a : Res α) (l : List (Res α)) :
    List.foldl max a l = Res.loop ↔ a = Res.loop ∨ Res.loop ∈ l := by
  induction l generalizing a with
  | nil => simp
  | cons x l ih =>
    rw [List.foldl_cons, ih]
    cases a with
    | loop => simp [loop_max]
    | ok a =>
      cases x with
      | loop => simp [max_loop]
      | ok x => simp [ok_max_ok]

end Res

section Ordered
variable {α : Type} [Semiring α] [LinearOrder α] [IsOrderedRing α]

theorem foldl_max_ok (a v : α) (l : List (Res α)) (h : List.foldl max (Res.ok a) l = Res.ok v) :
    (v = a ∨ Res.ok v ∈ l) ∧ a ≤ v ∧ ∀ w, Res.ok w ∈ l → w ≤ v := by
  induction l generalizing a with
  | nil =>
    simp only [List.foldl_nil, Res.ok.injEq] at h
    subst h
    simp
  | cons x l ih =>
    rw [List.foldl_cons] at h
    cases x with
    | loop => rw [max_loop, foldl_max_loop] at h; cases h
    | ok b =>
      rw [ok_max_ok] at h
      obtain ⟨h1, h2, h3⟩ := ih (max a b) h
      refine ⟨?_, le_trans (le_max_left a b) h2, ?_⟩
      · rcases h1 with h1 | h1
        · rcases max_choice a b with hm | hm
          · left; rw [h1, hm]
          · right; rw [h1, hm]; exact List.mem_cons_self
        · right; exact List.mem_cons_of_mem _ h1
      · intro w hw
        rcases List.mem_cons.mp hw with hw | hw
        · cases hw; exact le_trans (le_max_right a b) h2
        · exact h3 w hw

/-! ## the generated `node_phase` kernel over `Res α` -/

/-- The kernel raises iff one of the inputs *that pass its filter* raises. -/
theorem node_phase_eq_loop_iff {ι : Type} (g : ι → Res α) (sk : ι → Bool) (xs : List ι) :
    node_phase g sk xs = Res.loop ↔ ∃ i ∈ xs, sk i = false ∧ g i = Res.loop := by
  unfold node_phase
  rw [foldl_max_eq_loop_iff]
  constructor
  · rintro (h | h)
    · rw [natCast_eq] at h; cases h
    · obtain ⟨i, hi, he⟩ := List.mem_map.mp h
      obtain ⟨hi1, hi2⟩ := List.mem_filter.mp hi
      refine ⟨i, hi1, by simpa using hi2, ?_⟩
      cases hg : g i with
      | loop => rfl
      | ok u => rw [hg, natCast_eq, ok_mul_ok] at he; cases he
  · rintro ⟨i, hi, hs, hg⟩
    right
    refine List.mem_map.mpr ⟨i, List.mem_filter.mpr ⟨hi, by simp [hs]⟩, ?_⟩
    rw [hg, loop_mul]

/-- When the kernel returns a value, that value is `0` or the value of a filtered input, it is `≥ 0`, and it
dominates every filtered input. -/
theorem node_phase_ok {ι : Type} (g : ι → Res α) (sk : ι → Bool) (xs : List ι) (v : α)
    (h : node_phase g sk xs = Res.ok v) :
    (v = 0 ∨ ∃ i ∈ xs, sk i = false ∧ g i = Res.ok v) ∧ 0 ≤ v ∧
      ∀ i ∈ xs, sk i = false → ∀ w, g i = Res.ok w → w ≤ v := by
  unfold node_phase at h
  rw [natCast_eq] at h
  obtain ⟨h1, h2, h3⟩ := foldl_max_ok _ _ _ h
  simp only [Nat.cast_zero] at h1 h2
  refine ⟨?_, h2, ?_⟩
  · rcases h1 with h1 | h1
    · left; exact h1
    · right
      obtain ⟨i, hi, he⟩ := List.mem_map.mp h1
      obtain ⟨hi1, hi2⟩ := List.mem_filter.mp hi
      refine ⟨i, hi1, by simpa using hi2, ?_⟩
      cases hg : g i with
      | loop => rw [hg, loop_mul] at he; cases he
      | ok u =>
        rw [hg, natCast_eq, ok_mul_ok, Nat.cast_one, mul_one] at he
        exact he
  · intro i hi hs w hg
    apply h3
    refine List.mem_map.mpr ⟨i, List.mem_filter.mpr ⟨hi, by simp [hs]⟩, ?_⟩
    rw [hg, natCast_eq, ok_mul_ok, Nat.cast_one, mul_one]

end Ordered

/-! ## phase = longest expected-delay path over non-skipped connections -/
section Paths
variable {α : Type} [Semiring α] [LinearOrder α] [IsOrderedRing α]

/-- `PathTo G n w`: there is a walk along **non-skipped** connections that ends in `n` (and starts anywhere) whose
expected delay is `w` = Σ over its connections of (sender's expected computation delay + connection's expected delay).
The empty walk has weight `0` ("0 for sources"). -/
inductive PathTo (G : Graph α) : Nat → α → Prop
  | nil (n : Nat) : PathTo G n 0
  | snoc {w : α} (c : Conn α) : c ∈ G.conns → c.skip = false → PathTo G c.src w →
      PathTo G c.dst (w + G.nodeDelay c.src + c.delay)

/-- `v` is the longest expected-delay path into `n`: attained by some walk, and an upper bound of all walks. -/
def IsLongest (G : Graph α) (n : Nat) (v : α) : Prop := PathTo G n v ∧ ∀ w, PathTo G n w → w ≤ v

theorem pathTo_inv {G : Graph α} {n : Nat} {w : α} (h : PathTo G n w) :
    w = 0 ∨ ∃ (c : Conn α) (w0 : α), c ∈ G.conns ∧ c.skip = false ∧ c.dst = n ∧ PathTo G c.src w0 ∧
      w = w0 + G.nodeDelay c.src + c.delay := by
  cases h with
  | nil => left; rfl
  | snoc c hc hs hp => right; exact ⟨c, _, hc, hs, rfl, hp, rfl⟩

theorem mem_inputs {G : Graph α} {n : Nat} {c : Conn α} : c ∈ G.inputs n ↔ c ∈ G.conns ∧ c.dst = n := by
  simp [Graph.inputs, List.mem_filter]

/-- value of one connection's phase in terms of the sender's phase -/
theorem conn_val_ok {G : Graph α} {f : Nat} {c : Conn α} {w : α}
    (h : conn_phase (node_phase_output (phaseF G f c.src) (Res.ok (G.nodeDelay c.src))) (Res.ok c.delay) = Res.ok w) :
    ∃ u, phaseF G f c.src = Res.ok u ∧ w = u + G.nodeDelay c.src + c.delay := by
  unfold conn_phase node_phase_output at h
  cases hp : phaseF G f c.src with
  | loop => rw [hp, loop_add, loop_add] at h; cases h
  | ok u =>
    rw [hp, ok_add_ok, ok_add_ok] at h
    cases h
    exact ⟨u, rfl, rfl⟩

theorem conn_val_loop {G : Graph α} {f : Nat} {c : Conn α} :
    conn_phase (node_phase_output (phaseF G f c.src) (Res.ok (G.nodeDelay c.src))) (Res.ok c.delay) = Res.loop ↔
      phaseF G f c.src = Res.loop := by
  unfold conn_phase node_phase_output
  cases hp : phaseF G f c.src with
  | loop => simp [loop_add]
  | ok u => simp [ok_add_ok]

/-- **phase_longest_path.** Whenever the (fuelled) evaluation of `node.phase` returns a value, that value is the
longest expected-delay path into the node over non-skipped connections (0 for sources). No assumption on the graph,
the fuel or the sign of the delays. -/
theorem phase_longest_path (G : Graph α) (fuel n : Nat) (v : α) (h : phaseF G fuel n = Res.ok v) :
    IsLongest G n v := by
  induction fuel generalizing n v with
  | zero => cases h
  | succ f ih =>
    rw [phaseF] at h
    have hk := node_phase_ok _ _ _ _ h
    have hnl : ∀ c ∈ G.inputs n, c.skip = false → phaseF G f c.src ≠ Res.loop := by
      intro c hc hs hl
      have : node_phase (fun c : Conn α => conn_phase (node_phase_output (phaseF G f c.src) (Res.ok (G.nodeDelay c.src))) (Res.ok c.delay))
          (fun c : Conn α => c.skip) (G.inputs n) = Res.loop :=
        (node_phase_eq_loop_iff _ _ _).mpr ⟨c, hc, hs, conn_val_loop.mpr hl⟩
      rw [this] at h; cases h
    obtain ⟨h1, h2, h3⟩ := hk
    constructor
    · rcases h1 with h1 | ⟨c, hc, hs, hg⟩
      · rw [h1]; exact PathTo.nil n
      · obtain ⟨u, hu, hw⟩ := conn_val_ok hg
        obtain ⟨hc1, hc2⟩ := mem_inputs.mp hc
        rw [hw, ← hc2]
        exact PathTo.snoc c hc1 hs (ih _ _ hu).1
    · intro w hp
      rcases pathTo_inv hp with hw | ⟨c, w0, hc, hs, hd, hp0, hw⟩
      · rw [hw]; exact h2
      · have hci : c ∈ G.inputs n := mem_inputs.mpr ⟨hc, hd⟩
        cases hu : phaseF G f c.src with
        | loop => exact absurd hu (hnl c hci hs)
        | ok u =>
          have hle : w0 ≤ u := (ih _ _ hu).2 w0 hp0
          have hg : conn_phase (node_phase_output (phaseF G f c.src) (Res.ok (G.nodeDelay c.src))) (Res.ok c.delay)
              = Res.ok (u + G.nodeDelay c.src + c.delay) := by
            unfold conn_phase node_phase_output; rw [hu, ok_add_ok, ok_add_ok]
          have := h3 c hci hs _ hg
          rw [hw]
          exact le_trans (add_le_add (add_le_add hle le_rfl) le_rfl) this

/-- The value does not depend on how much stack was available. -/
theorem phase_fuel_irrelevant (G : Graph α) (f₁ f₂ n : Nat) (v₁ v₂ : α)
    (h₁ : phaseF G f₁ n = Res.ok v₁) (h₂ : phaseF G f₂ n = Res.ok v₂) : v₁ = v₂ := by
  have a := phase_longest_path G f₁ n v₁ h₁
  have b := phase_longest_path G f₂ n v₂ h₂
  exact le_antisymm (b.2 _ a.1) (a.2 _ b.1)

/-- `connection.phase` = sender's longest path + sender's computation delay + connection delay. -/
theorem conn_phase_longest (G : Graph α) (fuel : Nat) (c : Conn α) (w : α) (h : connPhaseF G fuel c = Res.ok w) :
    ∃ u, IsLongest G c.src u ∧ w = u + G.nodeDelay c.src + c.delay := by
  obtain ⟨u, hu, hw⟩ := conn_val_ok (f := fuel) (c := c) (by simpa [connPhaseF, phaseOutF] using h)
  exact ⟨u, phase_longest_path G fuel c.src u hu, hw⟩

/-! ## `RecursionError` ⇔ an un-skipped cycle reaches the node -/

/-- an un-skipped connection from `a` to `b` -/
def Edge (G : Graph α) (a b : Nat) : Prop := ∃ c ∈ G.conns, c.skip = false ∧ c.src = a ∧ c.dst = b

/-- `n` is reachable (along un-skipped connections) from a node that lies on an un-skipped cycle -/
def OnLoop (G : Graph α) (n : Nat) : Prop :=
  ∃ m, Relation.TransGen (Edge G) m m ∧ Relation.ReflTransGen (Edge G) m n

theorem onLoop_pred {G : Graph α} {n : Nat} (h : OnLoop G n) : ∃ k, Edge G k n ∧ OnLoop G k := by
  obtain ⟨m, hc, hr⟩ := h
  rcases Relation.ReflTransGen.cases_tail hr with heq | ⟨k, hk, he⟩
  · subst heq
    obtain ⟨k, hk, he⟩ := Relation.TransGen.tail'_iff.mp hc
    exact ⟨k, he, n, hc, hk⟩
  · exact ⟨k, he, m, hc, hk⟩

/-- With a reachable un-skipped cycle, no amount of stack suffices. -/
theorem loop_of_onLoop (G : Graph α) (fuel n : Nat) (h : OnLoop G n) : phaseF G fuel n = Res.loop := by
  induction fuel generalizing n with
  | zero => rfl
  | succ f ih =>
    obtain ⟨k, ⟨c, hc, hs, hsrc, hdst⟩, hk⟩ := onLoop_pred h
    rw [phaseF]
    refine (node_phase_eq_loop_iff _ _ _).mpr ⟨c, mem_inputs.mpr ⟨hc, hdst⟩, hs, conn_val_loop.mpr ?_⟩
    rw [hsrc]; exact ih k hk

theorem loop_step {G : Graph α} {f n : Nat} (h : phaseF G (f + 1) n = Res.loop) :
    ∃ c ∈ G.conns, c.skip = false ∧ c.dst = n ∧ phaseF G f c.src = Res.loop := by
  rw [phaseF] at h
  obtain ⟨c, hc, hs, hg⟩ := (node_phase_eq_loop_iff _ _ _).mp h
  obtain ⟨hc1, hc2⟩ := mem_inputs.mp hc
  exact ⟨c, hc1, hs, hc2, conn_val_loop.mp hg⟩

/-- Walking backwards from `n₀` while the evaluation keeps failing: a node is revisited before the fuel runs out. -/
theorem onLoop_of_loop_aux (G : Graph α) (N n₀ : Nat) (hsrc : ∀ c ∈ G.conns, c.src < N) :
    ∀ (f n : Nat) (vis : Finset Nat), vis ⊆ Finset.range N → n < N →
      (∀ v ∈ vis, Relation.TransGen (Edge G) n v) → Relation.ReflTransGen (Edge G) n n₀ →
      N + 1 ≤ f + vis.card → phaseF G f n = Res.loop → OnLoop G n₀ := by
  intro f
  induction f with
  | zero =>
    intro n vis hsub _ _ _ hcard _
    have := Finset.card_le_card hsub
    rw [Finset.card_range] at this
    omega
  | succ f ih =>
    intro n vis hsub hn hvis hreach hcard hloop
    by_cases hmem : n ∈ vis
    · exact ⟨n, hvis n hmem, hreach⟩
    · obtain ⟨c, hc, hs, hd, hl⟩ := loop_step hloop
      have hedge : Edge G c.src n := ⟨c, hc, hs, rfl, hd⟩
      refine ih c.src (insert n vis) ?_ (hsrc c hc) ?_ (Relation.ReflTransGen.head hedge hreach) ?_ hl
      · intro x hx
        rcases Finset.mem_insert.mp hx with hx | hx
        · rw [hx]; exact Finset.mem_range.mpr hn
        · exact hsub hx
      · intro v hv
        rcases Finset.mem_insert.mp hv with hv | hv
        · rw [hv]; exact Relation.TransGen.single hedge
        · exact Relation.TransGen.head hedge (hvis v hv)
      · rw [Finset.card_insert_of_notMem hmem]; omega

/-- **phase_none_iff_cycle.** For a graph whose nodes are `0 … N-1`, evaluating `node.phase` with more than `N`
levels of stack fails (the implementation's `RecursionError` → "Algebraic loop detected" branch) **iff** an
un-skipped cycle reaches the node. -/
theorem phase_none_iff_cycle (G : Graph α) (N fuel n : Nat)
    (hwf : ∀ c ∈ G.conns, c.src < N ∧ c.dst < N) (hf : N < fuel) :
    phaseF G fuel n = Res.loop ↔ OnLoop G n := by
  constructor
  · intro h
    by_cases hn : n < N
    · exact onLoop_of_loop_aux G N n (fun c hc => (hwf c hc).1) fuel n ∅ (Finset.empty_subset _) hn
        (by simp) Relation.ReflTransGen.refl (by simp; omega) h
    · obtain ⟨f, rfl⟩ : ∃ f, fuel = f + 1 := ⟨fuel - 1, by omega⟩
      obtain ⟨c, hc, _, hd, _⟩ := loop_step h
      exact absurd (hd ▸ (hwf c hc).2) hn
  · exact loop_of_onLoop G fuel n

/-- On a graph without un-skipped cycles every node has a phase, and it is the longest path. -/
theorem phase_acyclic_total (G : Graph α) (N fuel n : Nat)
    (hwf : ∀ c ∈ G.conns, c.src < N ∧ c.dst < N) (hf : N < fuel)
    (hacyc : ∀ m, ¬ Relation.TransGen (Edge G) m m) :
    ∃ v, phaseF G fuel n = Res.ok v ∧ IsLongest G n v := by
  cases h : phaseF G fuel n with
  | loop =>
    obtain ⟨m, hc, _⟩ := (phase_none_iff_cycle G N fuel n hwf hf).mp h
    exact absurd hc (hacyc m)
  | ok v => exact ⟨v, rfl, phase_longest_path G fuel n v h⟩

end Paths

/-! ## `set_delay` (and the constructors) store what was requested -/
section Setters
variable {α δ : Type}

/-- Constructors: the stored (distribution, expected delay) is exactly the requested one (a raw distrax distribution is
wrapped, a missing expected delay defaults to the 0.99 quantile of the stored distribution). -/
theorem init_effective_node (D : DistOps α δ) (dist : Option δ) (delay : Option α) :
    mkNode D dist delay = reqInit D dist delay := by
  cases dist <;> cases delay <;> rfl

theorem init_effective_conn (D : DistOps α δ) (src dst : Nat) (dist : Option δ) (delay : Option α) (skip blocking : Bool) :
    (mkConn D src dst dist delay skip blocking).cfg = reqInit D dist delay ∧
    (mkConn D src dst dist delay skip blocking).src = src ∧ (mkConn D src dst dist delay skip blocking).dst = dst ∧
    (mkConn D src dst dist delay skip blocking).skip = skip ∧ (mkConn D src dst dist delay skip blocking).blocking = blocking := by
  cases dist <;> cases delay <;> exact ⟨rfl, rfl, rfl, rfl, rfl⟩

/-- **set_delay_effective (node).** `BaseNode.set_delay(delay_dist, delay)`: every argument that is not `None` replaces
the stored value (an explicit `delay = 0` included), every `None` keeps it. (`hcur`: the stored distribution is a
`DelayDistribution`, which the constructor and every earlier `set_delay` guarantee — `stored_normalized` below.) -/
theorem set_delay_effective_node (D : DistOps α δ) (dist : Option δ) (delay : Option α) (s : NodeSt α δ)
    (hcur : D.isD s.dist = false) : nodeSetDelay D dist delay s = reqSet D dist delay s := by
  cases dist <;> cases delay <;>
    simp [nodeSetDelay, reqSet, node_set_dist, node_set_wrap, node_set_delay, DistOps.norm, hcur] <;> rfl

/-- **set_delay_effective (connection).** Same for `Connection.set_delay`; the other attributes are untouched. -/
theorem set_delay_effective_conn (D : DistOps α δ) (dist : Option δ) (delay : Option α) (c : ConnSt α δ)
    (hcur : D.isD c.dist = false) :
    (connSetDelay D dist delay c).cfg = reqSet D dist delay c.cfg ∧
    (connSetDelay D dist delay c).src = c.src ∧ (connSetDelay D dist delay c).dst = c.dst ∧
    (connSetDelay D dist delay c).skip = c.skip ∧ (connSetDelay D dist delay c).blocking = c.blocking := by
  cases dist <;> cases delay <;>
    simp [connSetDelay, reqSet, ConnSt.cfg, conn_set_dist, conn_set_wrap, conn_set_delay, DistOps.norm, hcur] <;> rfl

/-- The delay argument is honoured for *every* value — in particular an explicit zero. -/
theorem set_delay_some (D : DistOps α δ) (dist : Option δ) (v : α) (s : NodeSt α δ) (c : ConnSt α δ) :
    (nodeSetDelay D dist (some v) s).delay = v ∧ (connSetDelay D dist (some v) c).delay = v := by
  constructor <;> simp [nodeSetDelay, connSetDelay, node_set_delay, conn_set_delay]

/-- The distribution argument is honoured: the stored distribution is the (normalised) argument. -/
theorem set_delay_dist_some (D : DistOps α δ) (x : δ) (delay : Option α) (s : NodeSt α δ) (c : ConnSt α δ) :
    (nodeSetDelay D (some x) delay s).dist = D.norm x ∧ (connSetDelay D (some x) delay c).dist = D.norm x := by
  constructor <;> rfl

theorem norm_normalized (D : DistOps α δ) (hw : ∀ x, D.isD (D.wrap x) = false) (x : δ) : D.isD (D.norm x) = false := by
  unfold DistOps.norm
  by_cases h : D.isD x = true
  · simp [h, hw]
  · simp at h; simp [h]

/-- every stored distribution is a `DelayDistribution` (never a raw distrax distribution) -/
def StOK (D : DistOps α δ) (s : St α δ) : Prop :=
  (∀ x ∈ s.nodes, D.isD x.dist = false) ∧ (∀ c ∈ s.conns, D.isD c.dist = false)

theorem mem_modify {β : Type} {l : List β} {k : Nat} {f : β → β} {y : β} (h : y ∈ l.modify k f) :
    y ∈ l ∨ ∃ x ∈ l, y = f x := by
  obtain ⟨j, hj⟩ := List.mem_iff_getElem?.mp h
  rw [List.getElem?_modify] at hj
  cases hx : l[j]? with
  | none => rw [hx] at hj; cases hj
  | some x =>
    rw [hx] at hj
    have hxm : x ∈ l := List.mem_iff_getElem?.mpr ⟨j, hx⟩
    by_cases hk : k = j
    · right; refine ⟨x, hxm, ?_⟩; simpa [hk] using hj.symm
    · left; have : x = y := by simpa [hk] using hj
      rw [← this]; exact hxm

theorem stored_normalized (D : DistOps α δ) (hw : ∀ x, D.isD (D.wrap x) = false)
    (s : St α δ) (op : Op α δ) (h : StOK D s) : StOK D (s.apply D op) := by
  have hreq : ∀ dist delay, D.isD (reqInit D dist delay).dist = false := by
    intro dist delay; exact norm_normalized D hw _
  have hset : ∀ dist delay (x : NodeSt α δ), D.isD x.dist = false → D.isD (reqSet D dist delay x).dist = false := by
    intro dist delay x hx
    cases dist with
    | none => exact hx
    | some y => exact norm_normalized D hw _
  obtain ⟨hn, hc⟩ := h
  cases op with
  | newNode dist delay =>
    refine ⟨?_, hc⟩
    intro x hx
    rcases List.mem_append.mp hx with hx | hx
    · exact hn x hx
    · rw [List.mem_singleton.mp hx, init_effective_node]; exact hreq _ _
  | connect src dst dist delay skip blocking =>
    refine ⟨hn, ?_⟩
    intro c hcm
    rcases List.mem_append.mp hcm with hcm | hcm
    · exact hc c hcm
    · rw [List.mem_singleton.mp hcm]
      have := (init_effective_conn D src dst dist delay skip blocking).1
      have h2 : (mkConn D src dst dist delay skip blocking).dist = (mkConn D src dst dist delay skip blocking).cfg.dist := rfl
      rw [h2, this]; exact hreq _ _
  | setNode n dist delay =>
    refine ⟨?_, hc⟩
    intro y hy
    rcases mem_modify hy with hy | ⟨x, hx, rfl⟩
    · exact hn y hy
    · rw [set_delay_effective_node D dist delay x (hn x hx)]; exact hset _ _ _ (hn x hx)
  | setConn k dist delay =>
    refine ⟨hn, ?_⟩
    intro y hy
    rcases mem_modify hy with hy | ⟨x, hx, rfl⟩
    · exact hc y hy
    · have := (set_delay_effective_conn D dist delay x (hc x hx)).1
      have h2 : (connSetDelay D dist delay x).dist = (connSetDelay D dist delay x).cfg.dist := rfl
      rw [h2, this]; exact hset _ _ _ (hc x hx)

theorem getElemOpt_snoc {β : Type} (l : List β) (x : β) (n : Nat) :
    (l ++ [x])[n]? = if l.length = n then some x else l[n]? := by
  rw [List.getElem?_append]
  by_cases h1 : n < l.length
  · have : l.length ≠ n := by omega
    simp [h1, this]
  · by_cases h2 : l.length = n
    · subst h2; simp
    · have h3 : l.length ≤ n := by omega
      have : l[n]? = none := List.getElem?_eq_none h3
      simp [h1, h2]
      omega

/-- **set_delay_effective (histories, nodes).** After *any* sequence of constructor / `connect` / `set_delay` calls,
the (distribution, expected delay) stored in node `n` is what the history requested last for it. -/
theorem history_node (D : DistOps α δ) (hw : ∀ x, D.isD (D.wrap x) = false)
    (ops : List (Op α δ)) : ∀ (s : St α δ) (n : Nat), StOK D s →
      (St.run D s ops).nodes[n]? = cfgNode D ops s.nodes.length n s.nodes[n]? := by
  induction ops with
  | nil => intro s n _; rfl
  | cons op ops ih =>
    intro s n hok
    have hok' := stored_normalized D hw s op hok
    have hrun : St.run D s (op :: ops) = St.run D (s.apply D op) ops := rfl
    rw [hrun, ih (s.apply D op) n hok']
    cases op with
    | newNode dist delay =>
      simp only [St.apply, cfgNode, List.length_append, List.length_singleton, getElemOpt_snoc, init_effective_node]
    | connect src dst dist delay skip blocking => simp only [St.apply, cfgNode]
    | setNode m dist delay =>
      simp only [St.apply, cfgNode, List.length_modify, List.getElem?_modify]
      congr 1
      by_cases hm : m = n
      · cases hx : s.nodes[n]? with
        | none => simp [hm]
        | some x =>
          have hxm : x ∈ s.nodes := List.mem_iff_getElem?.mpr ⟨n, hx⟩
          simp [hm, set_delay_effective_node D dist delay x (hok.1 x hxm)]
      · cases hx : s.nodes[n]? <;> simp [hm]
    | setConn k dist delay => simp only [St.apply, cfgNode]

/-- **set_delay_effective (histories, connections).** Same for the `k`-th connection. -/
theorem history_conn (D : DistOps α δ) (hw : ∀ x, D.isD (D.wrap x) = false)
    (ops : List (Op α δ)) : ∀ (s : St α δ) (k : Nat), StOK D s →
      ((St.run D s ops).conns[k]?).map ConnSt.cfg = cfgConn D ops s.conns.length k ((s.conns[k]?).map ConnSt.cfg) := by
  induction ops with
  | nil => intro s k _; rfl
  | cons op ops ih =>
    intro s k hok
    have hok' := stored_normalized D hw s op hok
    have hrun : St.run D s (op :: ops) = St.run D (s.apply D op) ops := rfl
    rw [hrun, ih (s.apply D op) k hok']
    cases op with
    | newNode dist delay => simp only [St.apply, cfgConn]
    | connect src dst dist delay skip blocking =>
      simp only [St.apply, cfgConn, List.length_append, List.length_singleton, getElemOpt_snoc]
      congr 1
      by_cases hk : s.conns.length = k
      · simp [hk, (init_effective_conn D src dst dist delay skip blocking).1]
      · simp [hk]
    | setNode m dist delay => simp only [St.apply, cfgConn]
    | setConn m dist delay =>
      simp only [St.apply, cfgConn, List.length_modify, List.getElem?_modify]
      congr 1
      by_cases hm : m = k
      · cases hx : s.conns[k]? with
        | none => simp [hm]
        | some x =>
          have hxm : x ∈ s.conns := List.mem_iff_getElem?.mpr ⟨k, hx⟩
          simp [hm, (set_delay_effective_conn D dist delay x (hok.2 x hxm)).1]
      · cases hx : s.conns[k]? <;> simp [hm]

end Setters

/-! ## infos and the `from_info` + `connect_from_info` round trip -/
section Infos
variable {α δ : Type} [Semiring α] [LinearOrder α] [IsOrderedRing α]

theorem graph_inputs (s : St α δ) (n : Nat) :
    s.graph.inputs n = (s.inputsOf n).map fun c => { src := c.src, dst := c.dst, delay := c.delay, skip := c.skip } := by
  simp only [Graph.inputs, St.graph, St.inputsOf, List.filter_map]
  rfl

/-- phases depend on the configuration only through the expected node delays and each node's input list -/
theorem phaseF_congr (G₁ G₂ : Graph α) (hd : G₁.nodeDelay = G₂.nodeDelay) (hi : ∀ n, G₁.inputs n = G₂.inputs n) :
    ∀ fuel n, phaseF G₁ fuel n = phaseF G₂ fuel n := by
  intro fuel
  induction fuel with
  | zero => intro n; rfl
  | succ f ih =>
    intro n
    rw [phaseF, phaseF, hi n, hd]
    congr 1
    funext c
    rw [ih]

theorem graph_congr (s₁ s₂ : St α δ) (hn : s₁.nodes = s₂.nodes) (hi : ∀ n, s₁.inputsOf n = s₂.inputsOf n) :
    s₁.graph.nodeDelay = s₂.graph.nodeDelay ∧ ∀ n, s₁.graph.inputs n = s₂.graph.inputs n := by
  constructor
  · simp only [St.graph, hn]
  · intro n; rw [graph_inputs, graph_inputs, hi n]

theorem infos_congr (s₁ s₂ : St α δ) (hn : s₁.nodes = s₂.nodes) (hi : ∀ n, s₁.inputsOf n = s₂.inputsOf n) (fuel : Nat) :
    s₁.infos fuel = s₂.infos fuel := by
  obtain ⟨hd, hg⟩ := graph_congr s₁ s₂ hn hi
  have hp := phaseF_congr s₁.graph s₂.graph hd hg
  have hc : connInfo s₁ fuel = connInfo s₂ fuel := by
    funext c
    simp only [connInfo, connPhaseF, phaseOutF, hp, hd]
  have hni : ∀ k x, nodeInfo s₁ fuel k x = nodeInfo s₂ fuel k x := by
    intro k x
    simp only [nodeInfo, hp, hi, hc]
  have : ∀ xs k, infosFrom s₁ fuel k xs = infosFrom s₂ fuel k xs := by
    intro xs
    induction xs with
    | nil => intro k; rfl
    | cons x xs ih => intro k; simp only [infosFrom, hni, ih]
  simp only [St.infos, hn, this]

theorem rebuild_node_id (D : DistOps α δ) (x : NodeSt α δ) (hx : D.isD x.dist = false) :
    mkNode D (some (from_info_dist none (node_info_dist x.dist))) (some (from_info_delay none (node_info_delay x.delay))) = x := by
  rw [init_effective_node]
  cases x with
  | mk delay dist =>
    simp only at hx
    simp [reqInit, DistOps.norm, from_info_dist, from_info_delay, node_info_dist, node_info_delay, hx]

theorem rebuild_conn_id (D : DistOps α δ) (s : St α δ) (fuel n : Nat) (c : ConnSt α δ)
    (hc : D.isD c.dist = false) (hd : c.dst = n) :
    mkConn D (connInfo s fuel c).output n (some (cfi_dist (connInfo s fuel c).dist)) (some (cfi_delay (connInfo s fuel c).delay))
      (cfi_skip (connInfo s fuel c).skip) (cfi_blocking (connInfo s fuel c).blocking) = c := by
  cases c with
  | mk src dst delay dist skip blocking =>
    simp only at hc hd
    subst hd
    simp [mkConn, connInfo, conn_init_dist, conn_init_wrap, conn_init_delay, cfi_dist, cfi_delay, cfi_skip, cfi_blocking,
      conn_info_dist, conn_info_delay, conn_info_skip, conn_info_blocking, hc]

theorem rebuild_nodes_aux (D : DistOps α δ) (s : St α δ) (fuel : Nat) :
    ∀ (xs : List (NodeSt α δ)) (k : Nat), (∀ x ∈ xs, D.isD x.dist = false) →
      (infosFrom s fuel k xs).map (fun i => mkNode D (some (from_info_dist none i.dist)) (some (from_info_delay none i.delay))) = xs := by
  intro xs
  induction xs with
  | nil => intro k _; rfl
  | cons x xs ih =>
    intro k h
    simp only [infosFrom, List.map_cons]
    rw [ih (k + 1) (fun y hy => h y (List.mem_cons_of_mem _ hy))]
    congr 1
    exact rebuild_node_id D x (h x List.mem_cons_self)

theorem mem_inputsOf {s : St α δ} {n : Nat} {c : ConnSt α δ} : c ∈ s.inputsOf n ↔ c ∈ s.conns ∧ c.dst = n := by
  simp [St.inputsOf, List.mem_filter]

theorem rebuild_inputs_aux (D : DistOps α δ) (s : St α δ) (fuel n : Nat) (hok : ∀ c ∈ s.conns, D.isD c.dist = false) :
    ∀ (xs : List (NodeSt α δ)) (k : Nat),
      List.filter (fun c : ConnSt α δ => c.dst == n)
        ((infosFrom s fuel k xs).flatMap fun i => i.inputs.map fun ii =>
          mkConn D ii.output i.name (some (cfi_dist ii.dist)) (some (cfi_delay ii.delay)) (cfi_skip ii.skip) (cfi_blocking ii.blocking))
        = if k ≤ n ∧ n < k + xs.length then s.inputsOf n else [] := by
  intro xs
  induction xs with
  | nil => intro k; simp [infosFrom]
  | cons x xs ih =>
    intro k
    have hblock : (nodeInfo s fuel k x).inputs.map (fun ii =>
          mkConn D ii.output (nodeInfo s fuel k x).name (some (cfi_dist ii.dist)) (some (cfi_delay ii.delay)) (cfi_skip ii.skip) (cfi_blocking ii.blocking))
        = s.inputsOf k := by
      simp only [nodeInfo, List.map_map]
      refine (List.map_congr_left (g := id) ?_).trans (List.map_id _)
      intro c hc
      exact rebuild_conn_id D s fuel k c (hok c (mem_inputsOf.mp hc).1) (mem_inputsOf.mp hc).2
    simp only [infosFrom, List.flatMap_cons, List.filter_append, ih (k + 1), List.length_cons, hblock]
    by_cases hk : k = n
    · subst hk
      have h1 : List.filter (fun c : ConnSt α δ => c.dst == k) (s.inputsOf k) = s.inputsOf k := by
        apply List.filter_eq_self.mpr
        intro c hc
        simp [(mem_inputsOf.mp hc).2]
      have h2 : ¬ (k + 1 ≤ k ∧ k < k + 1 + xs.length) := by omega
      have h3 : k ≤ k ∧ k < k + (xs.length + 1) := by omega
      rw [h1, if_neg h2, if_pos h3, List.append_nil]
    · have h1 : List.filter (fun c : ConnSt α δ => c.dst == n) (s.inputsOf k) = [] := by
        apply List.filter_eq_nil_iff.mpr
        intro c hc
        simp [(mem_inputsOf.mp hc).2, hk]
      rw [h1, List.nil_append]
      by_cases h2 : k + 1 ≤ n ∧ n < k + 1 + xs.length
      · have h3 : k ≤ n ∧ n < k + (xs.length + 1) := by omega
        rw [if_pos h2, if_pos h3]
      · have h3 : ¬ (k ≤ n ∧ n < k + (xs.length + 1)) := by omega
        rw [if_neg h2, if_neg h3]

/-- **info_roundtrip.** Rebuilding all nodes from their infos (`from_info`, then `connect_from_info` for every node)
yields a configuration with the same stored node settings, the same input connections for every node (source,
expected delay, distribution, skip, blocking — in the same order), hence equal infos and equal phases for every
amount of stack. (`hdst`: every connection's receiving node is one of the nodes.) -/
theorem info_roundtrip (D : DistOps α δ) (s : St α δ) (fuel : Nat) (hok : StOK D s)
    (hdst : ∀ c ∈ s.conns, c.dst < s.nodes.length) :
    (rebuild D (s.infos fuel)).nodes = s.nodes ∧
    (∀ n, (rebuild D (s.infos fuel)).inputsOf n = s.inputsOf n) ∧
    (∀ f, (rebuild D (s.infos fuel)).infos f = s.infos f) ∧
    (∀ f n, phaseF (rebuild D (s.infos fuel)).graph f n = phaseF s.graph f n) := by
  have hn : (rebuild D (s.infos fuel)).nodes = s.nodes := rebuild_nodes_aux D s fuel s.nodes 0 hok.1
  have hi : ∀ n, (rebuild D (s.infos fuel)).inputsOf n = s.inputsOf n := by
    intro n
    have := rebuild_inputs_aux D s fuel n hok.2 s.nodes 0
    simp only [St.inputsOf, rebuild, St.infos] at this ⊢
    rw [this]
    by_cases hlt : n < s.nodes.length
    · simp [hlt]
    · have : List.filter (fun c : ConnSt α δ => c.dst == n) s.conns = [] := by
        apply List.filter_eq_nil_iff.mpr
        intro c hc
        have := hdst c hc
        simp; omega
      simp [hlt, this]
  refine ⟨hn, hi, fun f => infos_congr _ _ hn hi f, fun f n => ?_⟩
  obtain ⟨hd, hg⟩ := graph_congr _ _ hn hi
  exact phaseF_congr _ _ hd hg f n

end Infos

/-! ## concrete witnesses (ℕ-valued delays, closed by evaluation) -/
section Witnesses

/-- diamond `0 → 1 → 3`, `0 → 2 → 3` with a skipped feedback connection `3 → 0` -/
def diamond (skipFeedback : Bool) : Graph Nat :=
  { nodeDelay := fun n => [10, 4, 20, 3].getD n 0
    conns := [⟨0, 1, 2, false⟩, ⟨0, 2, 1, false⟩, ⟨1, 3, 15, false⟩, ⟨2, 3, 2, false⟩, ⟨3, 0, 7, skipFeedback⟩] }

/-- hypotheses of the theorems are satisfiable and the recursion computes the longest path: `0 → 2 → 3` = 10+1+20+2 -/
example : phaseF (diamond true) 5 3 = Res.ok 33 ∧ phaseF (diamond true) 5 0 = Res.ok 0 ∧
    phaseF (diamond true) 5 1 = Res.ok 12 ∧ phaseF (diamond true) 5 2 = Res.ok 11 := by decide

example : ∀ c ∈ (diamond true).conns, c.src < 4 ∧ c.dst < 4 := by decide

/-- with the feedback connection un-skipped every node lies behind a cycle: algebraic loop for any tested fuel -/
example : phaseF (diamond false) 5 3 = Res.loop ∧ phaseF (diamond false) 9 0 = Res.loop := by decide

/-- so, by `phase_none_iff_cycle`, the skipped diamond has no un-skipped cycle reaching node 3 … -/
theorem diamond_not_onLoop : ¬ OnLoop (diamond true) 3 := by
  intro h
  have := (phase_none_iff_cycle (diamond true) 4 5 3 (by decide) (by decide)).mpr h
  revert this; decide

/-- … and the fuel hypothesis of `phase_none_iff_cycle` cannot be dropped: with too little stack the evaluation fails
although no cycle exists. (The implementation's stack is the interpreter's recursion limit.) -/
theorem fuel_bound_needed : phaseF (diamond true) 2 3 = Res.loop ∧ ¬ OnLoop (diamond true) 3 :=
  ⟨by decide, diamond_not_onLoop⟩

/-- the `hcur` hypothesis of `set_delay_effective_node` is needed (and is what `stored_normalized` provides): a node
holding a raw distribution would have it re-wrapped by `set_delay(None, None)`. -/
theorem hcur_needed : ∃ (D : DistOps Nat Nat) (s : NodeSt Nat Nat), nodeSetDelay D none none s ≠ reqSet D none none s :=
  ⟨⟨fun _ => true, fun x => x + 1, fun _ => 0, 0⟩, ⟨0, 0⟩, fun h => by
    have := congrArg NodeSt.dist h
    revert this; decide⟩

/-- an explicit zero expected delay is stored (regression witness for `delay or self.delay`-style edits) -/
example : (connSetDelay (⟨fun _ => false, id, fun _ => 0, 0⟩ : DistOps Nat Nat) none (some 0) ⟨0, 1, 30, 5, false, false⟩).delay = 0 := by
  decide

end Witnesses

/-! ## histories from the empty configuration (no side conditions left) -/
section FromEmpty
variable {α δ : Type}

/-- the configuration before any node exists -/
def emptySt : St α δ := { nodes := [], conns := [] }

/-- After any history of constructor / connect / set_delay calls starting from nothing, node `n` stores exactly what
was requested last. `hw` says `StaticDist.create` returns a `DelayDistribution`, not a distrax distribution. -/
theorem set_delay_effective (D : DistOps α δ) (hw : ∀ x, D.isD (D.wrap x) = false) (ops : List (Op α δ)) (n k : Nat) :
    (St.run D emptySt ops).nodes[n]? = cfgNode D ops 0 n none ∧
    ((St.run D emptySt ops).conns[k]?).map ConnSt.cfg = cfgConn D ops 0 k none := by
  have hok : StOK D (emptySt : St α δ) := ⟨by simp [emptySt], by simp [emptySt]⟩
  exact ⟨history_node D hw ops emptySt n hok, history_conn D hw ops emptySt k hok⟩

end FromEmpty

end Rex.C16
