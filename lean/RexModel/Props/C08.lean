import RexModel.Compiled.Schedule
import RexModel.Compiled.Ring
import RexModel.Compiled.BufSize
import RexModel.Compiled.Trace
import RexModel.Gen.Compiled

/-! # C08 — input windows read exactly the scheduled messages from the output buffers

Ring-buffer safety for the index kernels `seq % size` of `partition_runner.py` (regenerated): two sequence numbers
that share a slot are at least `size` apart, so as long as no more than `size` messages are live (written, and
still to be read) every read returns the payload written with exactly that sequence number; entries with sequence
number -1 read the last slot, which holds the default output until `size - 1` real messages were written.
The sizing itself (`get_buffer_sizes`, user sizes, padding) is validated per compiled instance by the replay
`Rex.Sched.replayOk` (executed by the driver on the real timings and sizes), which is *by definition* the statement
"every scheduled read returns the scheduled payload". -/

namespace Rex.C08

open Rex.Gen.Compiled Rex.Sched

/-- write and read use the same slot function -/
theorem read_write_same_slot (seq size : Int) : buf_read_idx seq size = buf_write_idx seq size := rfl

theorem noop_read_same_slot (seq size : Int) : noop_read_idx seq size = buf_write_idx seq size := rfl

/-- slots are inside the buffer -/
theorem slot_in_range (seq size : Int) (h : 0 < size) : 0 ≤ buf_write_idx seq size ∧ buf_write_idx seq size < size := by
  simp only [buf_write_idx]
  exact ⟨Int.emod_nonneg _ (by omega), Int.emod_lt_of_pos _ h⟩

/-- two different sequence numbers that share a slot are at least `size` apart -/
theorem slot_clash_far (B q w : Int) (hB : 0 < B) (hlt : q < w) (hmod : buf_write_idx w B = buf_read_idx q B) : q + B ≤ w := by
  simp only [buf_write_idx, buf_read_idx] at hmod
  have h1 : (w - q) % B = 0 := by
    rw [Int.sub_emod, hmod]; simp
  have h2 : B ∣ (w - q) := Int.dvd_of_emod_eq_zero h1
  have h3 : 0 < w - q := by omega
  have := Int.le_of_dvd h3 h2
  omega

/-- **Ring safety.** Reading sequence number `q ≥ 0` when writes `0..W` have happened (in order), `q ≤ W`, and at most
`B` messages are live (`W - q + 1 ≤ B`): the last write into `q`'s slot is `q` itself. -/
theorem ring_read_ok (B q W w : Int) (hB : 0 < B) (hq0 : 0 ≤ q) (hq : q ≤ W) (hbound : W - q + 1 ≤ B)
    (hw : q ≤ w ∧ w ≤ W) (hslot : buf_write_idx w B = buf_read_idx q B) : w = q := by
  by_cases hne : w = q
  · exact hne
  · exfalso
    have hlt : q < w := by omega
    have := slot_clash_far B q w hB hlt hslot
    omega

/-- an entry with sequence number -1 is read from the last slot … -/
theorem default_slot (B : Int) (hB : 0 < B) : buf_read_idx (-1) B = B - 1 := by
  simp only [buf_read_idx]
  have h1 : (-1 : Int) % B = (B - 1) % B := by
    rw [show (B - 1 : Int) = -1 + B * 1 by omega, Int.add_mul_emod_self_left]
  rw [h1]
  exact Int.emod_eq_of_lt (by omega) (by omega)

/-- … which no real message `w` with `w < B - 1` has touched: it still holds the default output -/
theorem default_slot_untouched (B w : Int) (hB : 0 < B) (hw0 : 0 ≤ w) (hw : w < B - 1) : buf_write_idx w B ≠ buf_read_idx (-1) B := by
  rw [default_slot B hB]
  simp only [buf_write_idx]
  rw [Int.emod_eq_of_lt hw0 (by omega)]
  omega

/-- the replay model writes only for cells whose `run` mask is set: a masked slot never overwrites a buffer -/
theorem masked_write_noop (i : Inst) (p g : Nat) (c : Cell) (hc : c ∈ cellsAt i p g) : c.run = true := by
  simp only [cellsAt, Inst.sched, List.mem_filter] at hc
  exact hc.1.2

/-- the ring of the replay uses the extracted slot function -/
theorem slotOf_eq_kernel (seq : Int) (size : Nat) : slotOf seq size = (buf_write_idx seq size).toNat := rfl

/-! ## Refinement of the ring to "the message with that sequence number", for every history of writes

`Rex.Sched.Ring` is the buffer the replay executes. `Ring.SlotInv` (each slot holds the *latest* written sequence
number of its residue class, or still the default) is preserved by every write (`Ring.slotInv_writes`, induction over
the number of writes, any buffer size, any first sequence number). -/

/-- after any number `k` of consecutive writes `a … a+k-1` into a ring of any size `B`, a read of a written sequence
number among the last `B` returns exactly that message -/
theorem C08_ring_reads_live_message (B : Nat) (hB : 0 < B) (a : Int) (k : Nat) (q : Int) (strict : Bool)
    (h0 : 0 ≤ q) (hq : a ≤ q) (hlt : q < a + k) (hlive : a + k ≤ q + B) :
    ((Ring.init B).writes a k).readOk strict q = true := Ring.read_live B hB a k q strict h0 hq hlt hlive

/-- the bound is exact: one message older and the slot holds a newer message (so an undersized buffer is reported) -/
theorem C08_ring_stale_not_read (B : Nat) (hB : 0 < B) (a : Int) (k : Nat) (q : Int) (strict : Bool)
    (hq : a ≤ q) (hstale : q + B < a + k) :
    ((Ring.init B).writes a k).readOk strict q = false := Ring.read_stale B hB a k q strict hq hstale

/-- a window entry without a message (sequence number -1) reads the default output exactly while fewer than `B`
messages were written -/
theorem C08_default_until_full (B : Nat) (hB : 0 < B) (k : Nat) (strict : Bool) :
    ((Ring.init B).writes 0 k).readOk strict (-1) = decide (k < B) := Ring.read_default B hB k strict

/-- the same on the replay's own state: `writeAll` moves the ring of a kind by that kind's writes only
(`writeAll_kind`), so a kind that wrote consecutive sequence numbers serves every live read -/
theorem C08_replay_read_live (sizes : List Nat) (cs : List Cell) (κ B : Nat) (hB : 0 < B) (hsz : sizes[κ]? = some B)
    (a : Int) (k : Nat) (hcons : seqsOf κ cs = consec a k) (q : Int) (strict : Bool)
    (h0 : 0 ≤ q) (hq : a ≤ q) (hlt : q < a + k) (hlive : a + k ≤ q + B) :
    ∃ r, (writeAll (sizes.map Ring.init) cs)[κ]? = some r ∧ r.readOk strict q = true :=
  replay_read_live sizes cs κ B hB hsz a k hcons q strict h0 hq hlt hlive

/-! ## The computed size is enough (model of `Timings.get_buffer_sizes`, `Compiled/BufSize.lean`)

`bufSize minIn maxOut` is rex's computation on the flattened (partition, generation) grid for one consumer input: suffix
minimum of the sequence numbers read, prefix maximum of the sequence numbers written rolled by one position, largest
difference plus one. The driver runs it on the grid of every compiled instance and the harness compares the result with
`Timings.get_buffer_sizes` (correspondence `sched.bufsize`). -/

/-- at most `bufSize` messages are ever live: a message written strictly before a grid position and a sequence number
read at that position or later are less than `bufSize` apart -/
theorem C08_computed_size_bounds_live (minIn maxOut : List Int) (hlen : minIn.length = maxOut.length) (u t v : Nat)
    (hut : u < t) (htv : t ≤ v) (hv : v < minIn.length) (q W : Int)
    (hq : minIn[v] ≤ q) (hW : W ≤ maxOut[u]'(by omega)) :
    W - q + 1 ≤ bufSize minIn maxOut := bufSize_live minIn maxOut hlen u t v hut htv hv q W hq hW

/-- **Sizing ⇒ scheduled payload.** The producer has written messages `0 … k-1` (the last one at grid position `u`),
the consumer reads `q` (a real message, already written) at a later position `v`; with a ring of the computed size plus
any padding the read returns message `q`. -/
theorem C08_sized_ring_reads_scheduled (minIn maxOut : List Int) (hlen : minIn.length = maxOut.length) (u v : Nat)
    (huv : u < v) (hv : v < minIn.length) (k : Nat) (q : Int) (pad : Nat) (strict : Bool)
    (hlast : ((k : Int) - 1) ≤ maxOut[u]'(by omega)) (hq : minIn[v] ≤ q) (h0 : 0 ≤ q) (hlt : q < k) :
    ((Ring.init ((bufSize minIn maxOut).toNat + pad)).writes 0 k).readOk strict q = true := by
  have hb := bufSize_live minIn maxOut hlen u v v huv (Nat.le_refl _) hv q ((k : Int) - 1) hq hlast
  have hpos : 0 < bufSize minIn maxOut := by omega
  apply Ring.read_live _ (by omega) 0 k q strict h0 h0 (by omega)
  have : ((bufSize minIn maxOut).toNat : Int) = bufSize minIn maxOut := Int.toNat_of_nonneg (by omega)
  push_cast
  omega

/-- … and an entry without a message (-1) read at `v` still finds the default output: fewer than `size` messages were
written before it -/
theorem C08_sized_ring_keeps_default (minIn maxOut : List Int) (hlen : minIn.length = maxOut.length) (u v : Nat)
    (huv : u < v) (hv : v < minIn.length) (k : Nat) (pad : Nat) (strict : Bool)
    (hlast : ((k : Int) - 1) ≤ maxOut[u]'(by omega)) (hq : minIn[v] ≤ -1) :
    ((Ring.init ((bufSize minIn maxOut).toNat + pad)).writes 0 k).readOk strict (-1) = true := by
  have hb := bufSize_live minIn maxOut hlen u v v huv (Nat.le_refl _) hv (-1) ((k : Int) - 1) hq hlast
  have hpos : 0 < bufSize minIn maxOut := by omega
  rw [Ring.read_default _ (by omega)]
  have : ((bufSize minIn maxOut).toNat : Int) = bufSize minIn maxOut := Int.toNat_of_nonneg (by omega)
  simp only [decide_eq_true_eq]
  omega

/-! ## End to end: consecutive writes + producers earlier + computed sizes ⇒ the replay succeeds (`Compiled/Trace.lean`)

The replay of `Schedule.lean` is a fold over the (partition, generation) grid; `replayOk_eq_traceOk` rewrites it as the
replay of a trace of generations (`Gen`: reads as they see the buffers when the generation starts, then writes).
`traceOk_of_sized` proves, by induction over the generations with the ring invariant of `Ring.lean` for every kind, that
*every* trace meeting four hypotheses replays without a bad read; `sizedOk` decides the hypotheses and the driver runs
it on every compiled instance (`sized` in the answer of `sched.replay`). -/

/-- every trace (any number of generations, kinds, window entries) in which each kind writes consecutive sequence numbers
from 0, every real message read was written in a strictly earlier generation, empty window entries carry -1, and each
buffer is at least the size the model of `get_buffer_sizes` computes for each of its consumers, replays correctly -/
theorem C08_trace_end_to_end (T : List Gen) (B : List Nat)
    (hcons : ∀ κ, ∃ n, wseqs κ (allWrites T) = consec 0 n)
    (hge : ∀ g ∈ T, ∀ r ∈ g.reads, -1 ≤ r.2.2)
    (hdep : ∀ pre g post, T = pre ++ g :: post → ∀ r ∈ g.reads, 0 ≤ r.2.2 → r.2.2 ∈ wseqs r.2.1 (allWrites pre))
    (hsize : ∀ g ∈ T, ∀ r ∈ g.reads, ∃ b, B[r.2.1]? = some b ∧ 0 < b ∧
      bufSize (minInOf r.1 r.2.1 T) (maxOutOf r.2.1 T) ≤ b) :
    traceOk true (B.map Ring.init) T = true := traceOk_of_sized T B hcons hge hdep hsize

/-- the same for a compiled instance: what the decision procedure accepts, the executable replay accepts -/
theorem C08_accepted_instance_replays (i : Inst) (sizes : List Nat)
    (hk : kindsOk i sizes.length = true) (h : sizedOk (traceOf i 0) sizes.length sizes = true) :
    replayOk i sizes 0 = true := by
  apply replayOk_of_sizedOk i sizes _ h
  simp only [kindsOk, List.all_eq_true, decide_eq_true_eq] at hk
  exact hk

/-- … and from any starting partition (`init(starting_step=k)`): a read returns the scheduled message if its producer ran
since the start and otherwise the default output the buffer was initialised with, never another message. The hypotheses
are decided once, on the trace from partition 0. -/
theorem C08_accepted_instance_replays_from_any_start (i : Inst) (sizes : List Nat) (startPart : Nat)
    (hk : kindsOk i sizes.length = true) (h : sizedOk (traceOf i 0) sizes.length sizes = true) :
    replayOk i sizes startPart = true := by
  apply replayOk_of_sizedOk_from i sizes startPart _ h
  simp only [kindsOk, List.all_eq_true, decide_eq_true_eq] at hk
  exact hk

/-- the trace form of the same statement: the hypotheses speak about the whole trace, the execution starts after `pre0` -/
theorem C08_trace_end_to_end_from (T : List Gen) (B : List Nat) (strict : Bool)
    (hcons : ∀ κ, ∃ n, wseqs κ (allWrites T) = consec 0 n)
    (hge : ∀ g ∈ T, ∀ r ∈ g.reads, -1 ≤ r.2.2)
    (hdep : ∀ pre g post, T = pre ++ g :: post → ∀ r ∈ g.reads, 0 ≤ r.2.2 → r.2.2 ∈ wseqs r.2.1 (allWrites pre))
    (hsize : ∀ g ∈ T, ∀ r ∈ g.reads, ∃ b, B[r.2.1]? = some b ∧ 0 < b ∧
      bufSize (minInOf r.1 r.2.1 T) (maxOutOf r.2.1 T) ≤ b)
    (pre0 rest0 : List Gen) (hT0 : T = pre0 ++ rest0) (hstrict : strict = true → pre0 = []) :
    traceOk strict (B.map Ring.init) rest0 = true :=
  traceOk_of_sized_from T B strict hcons hge hdep hsize pre0 rest0 hT0 hstrict

/-- non-vacuity: the demo instance of C07 (producer 1 → supervisor 0) with buffers of size 2 is accepted -/
example : sizedOk (traceOf ⟨0, 1, 2, true, [], [⟨0, 1, 0, 0, true, 0, 0, 5, []⟩, ⟨1, 0, 1, 0, true, 0, 7, 9, [(1, [0], [5], [6])]⟩]⟩ 0) 2 [1, 1] = true := by
  decide
/-- … and rejected when the consumer is scheduled in the producer's own generation (it would read the default output) -/
example : sizedOk (traceOf ⟨0, 1, 2, true, [], [⟨0, 1, 1, 0, true, 0, 0, 5, []⟩, ⟨1, 0, 1, 0, true, 0, 7, 9, [(1, [0], [5], [6])]⟩]⟩ 0) 2 [1, 1] = false := by
  decide

/-- the ring really is tight: with one slot less than the number of live messages a read returns a *newer* message -/
example : ((((Ring.init 2).write 0).write 1).write 2).readOk true 0 = false := by decide
example : ((((Ring.init 3).write 0).write 1).write 2).readOk true 0 = true := by decide
example : (((Ring.init 3).write 0).write 1).readOk true (-1) = true := by decide
example : ((((Ring.init 3).write 0).write 1).write 2).readOk true (-1) = false := by decide

end Rex.C08
