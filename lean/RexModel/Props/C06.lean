import RexModel.Gen.Calls
import RexModel.Gen.Compiled
import RexModel.Async.Calls
import RexModel.Props.C03

/-! # C06 — every scheduled step executes the user's step function exactly once

Static call-site kernels (regenerated from the source): how many call sites of the step function each handler
contains; plus the executor model of one compiled partition: a slot calls the step function iff its `run` mask is set
(`lax.cond`), the supervisor iff the step counter is non-zero and the user did not override. -/

namespace Rex.C06

open Rex.Gen.Calls Rex.Gen.Compiled

/-- threaded runtime: one execution of `push_step` reaches the user's `step` through exactly one chain of single calls -/
theorem async_one_call_per_push_step :
    push_step_calls_async_step * async_wrapper_calls_async_step * async_step_calls_node_step = 1 := by decide

/-- `run()` / default `step()` make exactly one call for the supervisor (from the user thread) -/
theorem async_supervisor_one_call : run_supervisor_async_calls * async_step_calls_node_step = 1 := by decide

/-- compiled runtime: `_run_node` contains one call site, `_run_supervisor_step` one -/
theorem compiled_one_call_site : run_node_calls_step = 1 ∧ run_supervisor_calls_step = 1 := by decide

structure Slot where
  kind : Nat
  run : Bool
  seq : Int
deriving DecidableEq

/-- call log of one partition: `lax.cond(pred, _run_node, no_op)` per slot -/
def runSlots (slots : List Slot) : List (Nat × Int) :=
  slots.flatMap fun s => if s.run then List.replicate run_node_calls_step (s.kind, s.seq) else []

/-- **Compiled calls**: a partition executes the step function exactly once for every slot whose mask is set, with that
slot's sequence number, and zero times for masked slots. -/
theorem compiled_calls (slots : List Slot) :
    runSlots slots = (slots.filter (·.run)).map fun s => (s.kind, s.seq) := by
  induction slots with
  | nil => rfl
  | cons s slots ih =>
    simp only [runSlots, List.flatMap_cons] at ih ⊢
    rw [ih]
    cases h : s.run <;> simp [h, run_node_calls_step]

theorem masked_slot_zero_calls (s : Slot) (h : s.run = false) : runSlots [s] = [] := by
  simp [runSlots, h]

/-- if the schedule names every vertex at most once (C07), no step function execution is duplicated -/
theorem compiled_calls_nodup (slots : List Slot)
    (h : ((slots.filter (·.run)).map fun s => (s.kind, s.seq)).Nodup) : (runSlots slots).Nodup := by
  rw [compiled_calls]; exact h

/-- supervisor: skipped at step 0, not executed when the user overrides, once otherwise -/
def supCalls (step : Int) (override : Bool) : Nat :=
  if sup_skip_pred step then 0 else if override then 0 else run_supervisor_calls_step

theorem supervisor_calls (step : Int) (override : Bool) :
    supCalls step override = if step = 0 ∨ override = true then 0 else 1 := by
  unfold supCalls sup_skip_pred run_supervisor_calls_step
  by_cases h : step = 0 <;> cases override <;> simp [h]

/-- after a step the node's sequence number is the tick's number plus one (both update sites) -/
theorem seq_after_step (seq : Int) : seq_increment seq = seq + 1 ∧ run_node_seq_increment seq = seq + 1 := ⟨rfl, rfl⟩

/-- **Threaded runtime, every schedule**: in every state the asynchronous machine can reach — for any graph, delay streams,
step functions and any interleaving of the node and connection threads — every non-supervisor node has evaluated its step
function exactly as many times as it has recorded ticks (the counter is bumped exactly where `cfg.f` is applied, in
`finishStep`), and never waits for an action. -/
theorem async_calls_once {T : Type} [Rex.Async.TimeLike T] (cfg : Rex.Async.Cfg T) {σ : List Rex.Async.Rule} {s : Rex.Async.MSt T}
    (h : Rex.Conf.Run (Rex.Async.machine cfg).toNet.sys (Rex.Async.initState cfg) σ s) (n : Nat) (hn : n ≠ cfg.sup) :
    (s.q (.node n .record)).length = (s.priv (.step n)).calls ∧ (s.priv (.step n)).pending = none :=
  Rex.Async.callsInv_run cfg h (Rex.Async.callsInv_init cfg) n hn

/-- … and the k-th execution is the one with sequence number k: recorded ticks are numbered 0, 1, 2, … (from C03) -/
theorem async_ticks_numbered {T : Type} [Rex.Async.TimeLike T] (cfg : Rex.Async.Cfg T) (n : Nat) {σ : List Rex.Async.Rule} {s : Rex.Async.MSt T}
    (h : Rex.Conf.Run (Rex.Async.machine cfg).toNet.sys (Rex.Async.initState cfg) σ s) :
    Rex.Async.recTicks (s.q (.node n .record)) = Rex.Async.upTo (Rex.Async.recTicks (s.q (.node n .record))).length :=
  Rex.C03.C03_node_seq_gapfree cfg n h

example : runSlots [⟨0, true, 3⟩, ⟨1, false, 5⟩, ⟨0, true, 4⟩] = [(0, 3), (0, 4)] := by decide

end Rex.C06
