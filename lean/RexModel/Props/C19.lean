import RexModel.Lib.Rl
import Mathlib.Algebra.Order.Field.Basic
import Mathlib.Algebra.BigOperators.Group.List.Basic
import Mathlib.Analysis.SpecialFunctions.Log.Basic
import Mathlib.Analysis.Complex.Trigonometric
import Mathlib.Analysis.Real.Sqrt
import Mathlib.Tactic.Ring
import Mathlib.Tactic.FieldSimp
import Mathlib.Tactic.Linarith

/-! # C19 — RL environment wrappers account episodes, actions and statistics correctly

All statements are about the definitions in `RexModel/Gen/Rl.lean` (regenerated from `rex/rl.py` on every run) and the
plumbing in `RexModel/Lib/Rl.lean`. -/

namespace Rex.C19

open Rex.Gen.Rl Rex.Rl

/-! ## Environment.step -/

section Env
variable {G A Out SS R B I O : Type}

/-- `Environment.step` *is* the graph's step with the supervisor's output computed from the action: the returned graph state
is `post (graph.step (pre gs a) (step_state (pre gs a)) (get_output gs a))`, reward and flags are read off the stepped graph
state, observation and info off the post-processed one. -/
theorem env_step_is_graph_step (get_output : G → A → Out) (pre_step : G → A → G) (get_step_state : G → SS)
    (graph_step : G → SS → Out → G × SS) (get_reward : G → A → R) (get_truncated get_terminated : G → B)
    (post_step : G → A → G) (get_info : G → A → I) (get_observation : G → O) (gs : G) (a : A) :
    env_step get_output pre_step get_step_state graph_step get_reward get_truncated get_terminated post_step get_info
        get_observation gs a =
      (let gsStep := (graph_step (pre_step gs a) (get_step_state (pre_step gs a)) (get_output gs a)).1
       (post_step gsStep a, get_observation (post_step gsStep a), get_reward gsStep a, get_terminated gsStep,
        get_truncated gsStep, get_info (post_step gsStep a) a)) := rfl

/-- with the default (identity) hooks the returned graph state is exactly the graph's step. -/
theorem env_step_default_hooks (get_output : G → A → Out) (get_step_state : G → SS)
    (graph_step : G → SS → Out → G × SS) (get_reward : G → A → R) (get_truncated get_terminated : G → B)
    (get_info : G → A → I) (get_observation : G → O) (gs : G) (a : A) :
    (env_step get_output (fun g _ => g) get_step_state graph_step get_reward get_truncated get_terminated (fun g _ => g)
        get_info get_observation gs a).1 = (graph_step gs (get_step_state gs) (get_output gs a)).1 := rfl

end Env

/-! ## AutoResetWrapper -/

section AutoReset
variable {G O R I A : Type}

/-- One step of the auto-reset wrapper: if the wrapped step ended the episode (terminated or truncated) the returned graph
state, observation and info are the initial ones while reward and both flags are those of the finished episode's last step;
otherwise everything passes through unchanged. -/
theorem autoreset_step (gs g0 : G) (obs o0 : O) (r : R) (te tr : Bool) (info i0 : I) :
    arStep (gs, obs, r, te, tr, info) g0 o0 i0 =
      if te || tr then (g0, o0, r, te, tr, i0) else (gs, obs, r, te, tr, info) := by
  cases te <;> cases tr <;> rfl

theorem autoreset_done (gs g0 : G) (obs o0 : O) (r : R) (te tr : Bool) (info i0 : I) (h : (te || tr) = true) :
    arStep (gs, obs, r, te, tr, info) g0 o0 i0 = (g0, o0, r, te, tr, i0) := by
  rw [autoreset_step, if_pos h]

theorem autoreset_pass_through (gs g0 : G) (obs o0 : O) (r : R) (info i0 : I) :
    arStep (gs, obs, r, false, false, info) g0 o0 i0 = (gs, obs, r, false, false, info) := rfl

/-- Histories: after a step that ended an episode the wrapped environment continues from the selected initial state, after
any other step from the state the inner environment returned. -/
theorem autoreset_run_cons (f : G → A → StepRet G O R I) (mkInit : G → G × O × I) (gs : G) (a : A) (as : List A) :
    arRun f mkInit gs (a :: as) =
      arEnvStep f mkInit gs a ::
        arRun f mkInit (if (f gs a).2.2.2.1 || (f gs a).2.2.2.2.1 then (mkInit (f gs a).1).1 else (f gs a).1) as := by
  rcases hf : f gs a with ⟨g', o', r', te, tr, i'⟩
  have : (arEnvStep f mkInit gs a).1 = if te || tr then (mkInit g').1 else g' := by
    simp only [arEnvStep, hf, autoreset_step]
    cases te <;> cases tr <;> rfl
  simp only [arRun, this]

/-- the reward and flags handed out are always those of the inner step (never reset). -/
theorem autoreset_keeps_reward_flags (f : G → A → StepRet G O R I) (mkInit : G → G × O × I) (gs : G) (a : A) :
    (arEnvStep f mkInit gs a).2.2.1 = (f gs a).2.2.1 ∧
    (arEnvStep f mkInit gs a).2.2.2.1 = (f gs a).2.2.2.1 ∧
    (arEnvStep f mkInit gs a).2.2.2.2.1 = (f gs a).2.2.2.2.1 := by
  rcases hf : f gs a with ⟨g', o', r', te, tr, i'⟩
  simp only [arEnvStep, hf, autoreset_step]
  cases te <;> cases tr <;> simp

example : arStep ((5 : Nat), "obs", (1 : Int), true, false, "info") 0 "obs0" "info0" = (0, "obs0", 1, true, false, "info0") := rfl
example : arStep ((5 : Nat), "obs", (1 : Int), false, false, "info") 0 "obs0" "info0" = (5, "obs", 1, false, false, "info") := rfl

end AutoReset

/-! ## LogWrapper -/

section Log
variable {α : Type} [CommRing α]

/-- a step ends an episode when it is terminated or truncated -/
def isEnd (x : Step α) : Bool := x.terminated || x.truncated

/-- the steps since the previous episode end: the longest suffix of the history that contains no episode end -/
def sinceLastEnd (h : List (Step α)) : List (Step α) := (h.reverse.takeWhile (fun x => !isEnd x)).reverse

omit [CommRing α] in
theorem sinceLastEnd_snoc (h : List (Step α)) (x : Step α) :
    sinceLastEnd (h ++ [x]) = if isEnd x then [] else sinceLastEnd h ++ [x] := by
  unfold sinceLastEnd
  rw [List.reverse_append, List.reverse_singleton, List.singleton_append, List.takeWhile_cons]
  cases isEnd x <;> simp

omit [CommRing α] in
/-- `sinceLastEnd h` really is "everything after the previous episode end": the history splits into a part that is empty or
ends with an episode end, followed by `sinceLastEnd h`, which contains no episode end. -/
theorem sinceLastEnd_spec (h : List (Step α)) :
    ∃ pre, h = pre ++ sinceLastEnd h ∧ (pre = [] ∨ ∃ p y, pre = p ++ [y] ∧ isEnd y = true) ∧
      ∀ y ∈ sinceLastEnd h, isEnd y = false := by
  induction h using List.reverseRecOn with
  | nil => exact ⟨[], by simp [sinceLastEnd]⟩
  | append_singleton h x ih =>
    obtain ⟨pre, h1, h2, h3⟩ := ih
    rw [sinceLastEnd_snoc]
    cases hx : isEnd x with
    | true => exact ⟨h ++ [x], by simp, Or.inr ⟨h, x, rfl, hx⟩, by simp⟩
    | false =>
      refine ⟨pre, ?_, h2, ?_⟩
      · simp only [Bool.false_eq_true, if_false]
        rw [← List.append_assoc, ← h1]
      · intro y hy
        simp only [Bool.false_eq_true, if_false, List.mem_append, List.mem_singleton] at hy
        rcases hy with hy | rfl
        · exact h3 y hy
        · exact hx

/-- one step of the log wrapper, episode end: the finished episode's return and length are reported, the running sums restart -/
theorem log_step_end (s : LogState α) (x : Step α) (hx : isEnd x = true) :
    logStep s x = { ret := 0, len := 0, rret := s.ret + x.reward, rlen := s.len + 1, t := s.t + 1 } := by
  have hx' : (x.terminated || x.truncated) = true := hx
  simp only [logStep, log_done, hx', b2n, if_true, log_ret, log_len, log_rret, log_rlen, log_timestep, log_new_return,
    log_new_length, Nat.cast_one]
  congr 1 <;> ring

/-- one step of the log wrapper inside an episode: the running sums grow, the reported values are kept -/
theorem log_step_inside (s : LogState α) (x : Step α) (hx : isEnd x = false) :
    logStep s x = { ret := s.ret + x.reward, len := s.len + 1, rret := s.rret, rlen := s.rlen, t := s.t + 1 } := by
  have hx' : (x.terminated || x.truncated) = false := hx
  simp only [logStep, log_done, hx', b2n, Bool.false_eq_true, if_false, log_ret, log_len, log_rret, log_rlen, log_timestep,
    log_new_return, log_new_length, Nat.cast_one, Nat.cast_zero]
  congr 1 <;> ring

theorem logRun_snoc (s : LogState α) (h : List (Step α)) (x : Step α) : logRun s (h ++ [x]) = logStep (logRun s h) x := by
  simp [logRun, List.foldl_append]

/-- the running accumulators are the sum of rewards / number of steps since the previous episode end; `timestep` counts all steps -/
theorem log_running (h : List (Step α)) :
    (logRun logInit h).ret = ((sinceLastEnd h).map (·.reward)).sum ∧
    (logRun logInit h).len = ((sinceLastEnd h).length : α) ∧
    (logRun logInit h).t = (h.length : α) := by
  induction h using List.reverseRecOn with
  | nil => simp [logRun, logInit, sinceLastEnd, log_init_ret, log_init_len, log_init_t]
  | append_singleton h x ih =>
    obtain ⟨h1, h2, h3⟩ := ih
    rw [logRun_snoc, sinceLastEnd_snoc]
    cases hx : isEnd x with
    | true => rw [log_step_end _ _ hx]; simp [h3]
    | false => rw [log_step_inside _ _ hx]; simp [h1, h2, h3]

/-- **Log accounting.** For every history `h` and every step `x` that ends an episode, the `info` written at `x` reports
exactly the sum of the rewards and the number of steps since the previous episode end (including `x`), flags the episode as
returned, and the running accumulators restart from zero. -/
theorem log_fold (h : List (Step α)) (x : Step α) (hx : isEnd x = true) :
    (logInfo (logRun logInit h) x).returns = ((sinceLastEnd h).map (·.reward)).sum + x.reward ∧
    (logInfo (logRun logInit h) x).lengths = ((sinceLastEnd h).length : α) + 1 ∧
    (logInfo (logRun logInit h) x).returned = 1 ∧
    (logInfo (logRun logInit h) x).timestep = (h.length : α) + 1 ∧
    (logRun logInit (h ++ [x])).ret = 0 ∧ (logRun logInit (h ++ [x])).len = 0 := by
  obtain ⟨h1, h2, h3⟩ := log_running h
  have hx' : (x.terminated || x.truncated) = true := hx
  rw [logRun_snoc]
  simp only [logInfo, log_step_end _ _ hx, log_info_returns, log_info_lengths, log_info_timestep, log_info_done, log_done, hx',
    b2n, if_true, Nat.cast_one, h1, h2, h3, and_self]

/-- between episode ends the reported values do not change (they still describe the last finished episode) and the step is
not flagged as a returned episode. -/
theorem log_between_ends (h : List (Step α)) (x : Step α) (hx : isEnd x = false) :
    (logInfo (logRun logInit h) x).returns = (logRun logInit h).rret ∧
    (logInfo (logRun logInit h) x).lengths = (logRun logInit h).rlen ∧
    (logInfo (logRun logInit h) x).returned = 0 ∧
    (logInfo (logRun logInit h) x).timestep = (h.length : α) + 1 := by
  obtain ⟨_, _, h3⟩ := log_running h
  have hx' : (x.terminated || x.truncated) = false := hx
  simp only [logInfo, log_step_inside _ _ hx, log_info_returns, log_info_lengths, log_info_timestep, log_info_done, log_done,
    hx', b2n, Bool.false_eq_true, if_false, Nat.cast_zero, h3, and_self]

end Log

/-- non-vacuity / concrete instance on `Int`: rewards 2, 3 (end), 5, 7 (end): the second end reports 12 and 2 steps. -/
example :
    (logInfo (logRun (logInit : LogState Int) [⟨2, false, false⟩, ⟨3, true, false⟩, ⟨5, false, false⟩]) ⟨7, false, true⟩).returns = 12 ∧
    (logInfo (logRun (logInit : LogState Int) [⟨2, false, false⟩, ⟨3, true, false⟩, ⟨5, false, false⟩]) ⟨7, false, true⟩).lengths = 2 := by
  decide

/-! ## SquashState / SquashActionWrapper / ClipActionWrapper -/

/-- `arctanh` on ℝ (this Mathlib has no `Real.artanh`): `artanh x = log ((1 + x) / (1 - x)) / 2`, meaningful for `-1 < x < 1`. -/
noncomputable def artanh (x : ℝ) : ℝ := Real.log ((1 + x) / (1 - x)) / 2

theorem tanh_artanh (u : ℝ) (h1 : -1 < u) (h2 : u < 1) : Real.tanh (artanh u) = u := by
  have hw : 0 < (1 + u) / (1 - u) := div_pos (by linarith) (by linarith)
  have hy : Real.exp (artanh u) * Real.exp (artanh u) = (1 + u) / (1 - u) := by
    rw [← Real.exp_add]
    have : artanh u + artanh u = Real.log ((1 + u) / (1 - u)) := by unfold artanh; ring
    rw [this, Real.exp_log hw]
  have he : 0 < Real.exp (artanh u) := Real.exp_pos _
  have h1u : (1 - u) ≠ 0 := by linarith
  rw [Real.tanh_eq, Real.exp_neg]
  have key : Real.exp (artanh u) * Real.exp (artanh u) * (1 - u) = 1 + u := by rw [hy]; field_simp
  field_simp
  nlinarith [key]

theorem artanh_tanh (z : ℝ) : artanh (Real.tanh z) = z := by
  have he : 0 < Real.exp z := Real.exp_pos _
  have : (1 + Real.tanh z) / (1 - Real.tanh z) = Real.exp (z + z) := by
    rw [Real.tanh_eq, Real.exp_neg, Real.exp_add]
    field_simp
    ring
  unfold artanh
  rw [this, Real.log_exp]
  ring

/-- **Squashed actions always land inside the action bounds**: for every policy output `x` (arbitrarily large), both settings
of `squash`, and all bounds with `low ≤ high`. -/
theorem unsquash_in_bounds (squash : Bool) (x low high : ℝ) (h : low ≤ high) :
    low ≤ sq_unsquash Real.tanh squash x low high ∧ sq_unsquash Real.tanh squash x low high ≤ high := by
  cases squash with
  | false =>
    simp only [sq_unsquash, Bool.false_eq_true, if_false, Rex.clip]
    exact ⟨le_min (le_max_right _ _) h, min_le_right _ _⟩
  | true =>
    simp only [sq_unsquash, if_true, Nat.cast_one, Nat.cast_ofNat]
    have h1 := Real.neg_one_lt_tanh x
    have h2 := Real.tanh_lt_one x
    have hd : 0 ≤ high - low := sub_nonneg.2 h
    constructor
    · nlinarith [mul_nonneg (by linarith : (0 : ℝ) ≤ Real.tanh x + 1) hd]
    · nlinarith [mul_nonneg (by linarith : (0 : ℝ) ≤ 1 - Real.tanh x) hd]

/-- with proper bounds (`low < high`) a squashed action is strictly inside (so `scale` can be applied to it again). -/
theorem unsquash_strictly_inside (x low high : ℝ) (h : low < high) :
    low < sq_unsquash Real.tanh true x low high ∧ sq_unsquash Real.tanh true x low high < high := by
  simp only [sq_unsquash, if_true, Nat.cast_one, Nat.cast_ofNat]
  have h1 := Real.neg_one_lt_tanh x
  have h2 := Real.tanh_lt_one x
  have hd : 0 < high - low := sub_pos.2 h
  constructor
  · nlinarith [mul_pos (by linarith : (0 : ℝ) < Real.tanh x + 1) hd]
  · nlinarith [mul_pos (by linarith : (0 : ℝ) < 1 - Real.tanh x) hd]

/-- `scale (unsquash z) = z` for every policy output `z` (squash on, `low < high`). -/
theorem scale_unsquash_inv (z low high : ℝ) (h : low < high) :
    sq_scale artanh true (sq_unsquash Real.tanh true z low high) low high = z := by
  have hd : high - low ≠ 0 := sub_ne_zero.2 (ne_of_gt h)
  simp only [sq_scale, sq_unsquash, if_true, Nat.cast_one, Nat.cast_ofNat]
  have : 2 * (1 / 2 * (Real.tanh z + 1) * (high - low) + low - low) / (high - low) - 1 = Real.tanh z := by
    field_simp
    ring
  rw [this, artanh_tanh]

/-- `unsquash (scale y) = y` for every action strictly inside the bounds (squash on, `low < high`). At the bounds themselves
`scale` is `arctanh (±1)`, which is not a real number (±∞ in IEEE arithmetic), hence the strict inequalities. -/
theorem unsquash_scale_inv (y low high : ℝ) (h : low < high) (hy : low < y ∧ y < high) :
    sq_unsquash Real.tanh true (sq_scale artanh true y low high) low high = y := by
  have hd : 0 < high - low := sub_pos.2 h
  have hd' : high - low ≠ 0 := ne_of_gt hd
  simp only [sq_scale, sq_unsquash, if_true, Nat.cast_one, Nat.cast_ofNat]
  have hu1 : -1 < 2 * (y - low) / (high - low) - 1 := by
    have : 0 < 2 * (y - low) / (high - low) := div_pos (by linarith) hd
    linarith
  have hu2 : 2 * (y - low) / (high - low) - 1 < 1 := by
    have : 2 * (y - low) / (high - low) < 2 := by rw [div_lt_iff₀ hd]; linarith
    linarith
  rw [tanh_artanh _ hu1 hu2]
  field_simp
  ring

/-- squash off: `scale` is the identity and `unsquash` clips, so they are mutual inverses exactly on the bounds … -/
theorem scale_unsquash_inv_nosquash (y low high : ℝ) (hy : low ≤ y ∧ y ≤ high) :
    sq_scale artanh false (sq_unsquash Real.tanh false y low high) low high = y ∧
    sq_unsquash Real.tanh false (sq_scale artanh false y low high) low high = y := by
  simp only [sq_scale, sq_unsquash, Bool.false_eq_true, if_false, Rex.clip]
  rw [max_eq_left hy.1, min_eq_left hy.2]
  exact ⟨rfl, rfl⟩

/-- … and not outside them (the restriction to the bounds is needed): 2 is clipped to 1 in [0, 1]. -/
theorem scale_unsquash_nosquash_outside_witness :
    sq_scale artanh false (sq_unsquash Real.tanh false 2 0 1) 0 1 ≠ 2 := by
  simp only [sq_scale, sq_unsquash, Bool.false_eq_true, if_false, Rex.clip]
  norm_num

section Ordered
variable {α : Type} [LinearOrder α]

/-- `ClipActionWrapper`: the action handed to the wrapped environment lies inside the action space. -/
theorem clip_in_bounds (x low high : α) (h : low ≤ high) :
    low ≤ clip_step_action (clip_action x low high) ∧ clip_step_action (clip_action x low high) ≤ high := by
  simp only [clip_step_action, clip_action, Rex.clip]
  exact ⟨le_min (le_max_right _ _) h, min_le_right _ _⟩

/-- … and an action that already is inside is not changed. -/
theorem clip_id_inside (x low high : α) (hx : low ≤ x ∧ x ≤ high) : clip_step_action (clip_action x low high) = x := by
  simp only [clip_step_action, clip_action, Rex.clip]
  rw [max_eq_left hx.1, min_eq_left hx.2]

end Ordered

example : (0 : ℝ) ≤ 1 ∧ (0 : ℝ) < 1 ∧ (0 : ℝ) < 1 / 2 ∧ (1 / 2 : ℝ) < 1 := by norm_num  -- the hypotheses are satisfiable

/-- whole action vectors: every coordinate of the unsquashed action is inside its bounds. -/
theorem unsquashVec_in_bounds (squash : Bool) (xs lows highs : List ℝ)
    (h : ∀ i (h1 : i < lows.length) (h2 : i < highs.length), lows[i] ≤ highs[i])
    (i : Nat) (hi : i < (unsquashVec Real.tanh squash xs lows highs).length) :
    ∃ (h1 : i < lows.length) (h2 : i < highs.length),
      lows[i] ≤ (unsquashVec Real.tanh squash xs lows highs)[i] ∧ (unsquashVec Real.tanh squash xs lows highs)[i] ≤ highs[i] := by
  simp only [unsquashVec, List.length_zipWith, List.length_zip] at hi
  refine ⟨by omega, by omega, ?_⟩
  simp only [unsquashVec, List.getElem_zipWith, List.getElem_zip]
  exact unsquash_in_bounds squash _ _ _ (h i (by omega) (by omega))

/-- `SquashActionWrapper.step` hands exactly `unsquash(action)` (built from the wrapped action space's `low`/`high` and the
wrapper's `squash` flag) to the wrapped environment, `ClipActionWrapper.step` the clipped action. -/
theorem squash_wrapper_step {G Ret : Type} (squash : Bool) (lows highs : List ℝ) (envStep : G → List ℝ → Ret) (gs : G)
    (action : List ℝ) :
    squashWrapperStep Real.tanh squash lows highs envStep gs action = envStep gs (unsquashVec Real.tanh squash action lows highs) := by
  have h1 : List.map sqw_low lows = lows := by simp [show (sqw_low : ℝ → ℝ) = id from rfl]
  have h2 : List.map sqw_high highs = highs := by simp [show (sqw_high : ℝ → ℝ) = id from rfl]
  simp [squashWrapperStep, sqw_step, sqw_squash, h1, h2]

/-! ## NormalizeVec.normalize / denormalize -/

theorem sqrt_eps_pos (var : ℝ) (hv : 0 ≤ var) : 0 < Real.sqrt (var + 1 / 100000000) :=
  Real.sqrt_pos.2 (by positivity)

/-- a clipped normalised value lies in `[-clip, clip]`. -/
theorem normalize_clipped (sm : Bool) (x mean var c : ℝ) (hc : 0 ≤ c) :
    -c ≤ nv_normalize Real.sqrt true sm x mean var c ∧ nv_normalize Real.sqrt true sm x mean var c ≤ c := by
  simp only [nv_normalize, if_true, Rex.clip]
  exact ⟨le_min (le_max_right _ _) (by linarith), min_le_right _ _⟩

/-- the value before clipping is `(x - mean) / sqrt (var + 1e-8)` (resp. `x / sqrt (var + 1e-8)`). -/
theorem normalize_unclipped (x mean var c : ℝ) :
    nv_normalize Real.sqrt false true x mean var c = (x - mean) / Real.sqrt (var + 1 / 100000000) ∧
    nv_normalize Real.sqrt false false x mean var c = x / Real.sqrt (var + 1 / 100000000) := by
  simp [nv_normalize]

/-- `denormalize` inverts the unclipped `normalize` (same `mean` flag), for every variance `≥ 0`. -/
theorem denormalize_normalize (sm : Bool) (x mean var c : ℝ) (hv : 0 ≤ var) :
    nv_denormalize Real.sqrt sm (nv_normalize Real.sqrt false sm x mean var c) mean var = x := by
  have hs : Real.sqrt (var + 1 / 100000000) ≠ 0 := ne_of_gt (sqrt_eps_pos var hv)
  cases sm <;> simp only [nv_denormalize, nv_normalize, Bool.false_eq_true, if_false, if_true, Nat.cast_one, Nat.cast_ofNat] <;>
    field_simp
  ring

/-! ## Running moments (Chan's parallel update) -/

section Chan
variable {α : Type} [Field α] [LinearOrder α] [IsStrictOrderedRing α]

/-- the exact pooled statistics of two weighted populations (weights `na`, `nb`; means `ma`, `mb`; population variances
`va`, `vb`): total weight, mean, and variance = pooled second moment − mean². -/
def Pooled (m : Moments α) (bm bv bc : α) (m' : Moments α) : Prop :=
  m'.count = m.count + bc ∧
  m'.mean = (m.count * m.mean + bc * bm) / (m.count + bc) ∧
  m'.var = (m.count * (m.var + m.mean ^ 2) + bc * (bv + bm ^ 2)) / (m.count + bc) - m'.mean ^ 2

omit [LinearOrder α] [IsStrictOrderedRing α] in
/-- **One update is exact**: each of the three copies of the update (observation `reset`, observation `step`, reward `step`)
returns the exact mean and population variance of prior ⊎ batch, as an algebraic identity (any weights with non-zero sum). -/
theorem chan_update_exact (m : Moments α) (bm bv bc : α) (h : m.count + bc ≠ 0) :
    Pooled m bm bv bc (chanObs0 m bm bv bc) ∧ Pooled m bm bv bc (chanObs m bm bv bc) ∧ Pooled m bm bv bc (chanRew m bm bv bc) := by
  refine ⟨⟨rfl, ?_, ?_⟩, ⟨rfl, ?_, ?_⟩, ⟨rfl, ?_, ?_⟩⟩
  all_goals
    simp only [chanObs0, obs0_delta, obs0_tot_count, obs0_new_mean, obs0_m_a, obs0_m_b, obs0_M2, obs0_new_var, obs0_new_count,
      obs0_out_mean, obs0_out_var, obs0_out_count, chanObs, obs_delta, obs_tot_count, obs_new_mean, obs_m_a, obs_m_b, obs_M2,
      obs_new_var, obs_new_count, obs_out_mean, obs_out_var, obs_out_count, chanRew, rew_delta, rew_tot_count, rew_new_mean,
      rew_m_a, rew_m_b, rew_M2, rew_new_var, rew_new_count, rew_out_mean, rew_out_var, rew_out_count]
    field_simp
    ring

omit [LinearOrder α] [IsStrictOrderedRing α] in
theorem sumL_eq_sum (xs : List α) : sumL xs = xs.sum := by
  induction xs with
  | nil => simp [sumL]
  | cons x xs ih => simp only [sumL, List.foldr_cons, List.sum_cons] at *; rw [ih]

omit [LinearOrder α] [IsStrictOrderedRing α] in
theorem sum_sq_dev (xs : List α) (c : α) :
    (xs.map fun x => (x - c) * (x - c)).sum = (xs.map (· ^ 2)).sum - 2 * c * xs.sum + xs.length * c ^ 2 := by
  induction xs with
  | nil => simp
  | cons x xs ih => simp only [List.map_cons, List.sum_cons, List.length_cons, Nat.cast_add, Nat.cast_one, ih]; ring

/-- `jnp.mean` / `jnp.var` of a non-empty batch carry exactly its first and second moments. -/
theorem batch_moments (xs : List α) (hne : xs ≠ []) :
    (xs.length : α) * batchMean xs = xs.sum ∧
    (xs.length : α) * (batchVar xs + batchMean xs ^ 2) = (xs.map (· ^ 2)).sum := by
  have hn : (xs.length : α) ≠ 0 := by
    have : 0 < xs.length := List.length_pos_iff.2 hne
    exact_mod_cast this.ne'
  have h1 : (xs.length : α) * batchMean xs = xs.sum := by
    simp only [batchMean, sumL_eq_sum]; field_simp
  refine ⟨h1, ?_⟩
  simp only [batchVar, sumL_eq_sum, sum_sq_dev]
  rw [← h1]
  field_simp
  ring

/-- invariant: `m` holds the exact moments of the prior pseudo-sample (weight `c0`, mean `0`, variance `1`) ⊎ `data`. -/
def Exact (c0 : α) (m : Moments α) (data : List α) : Prop :=
  m.count = c0 + data.length ∧ m.count * m.mean = data.sum ∧ m.count * (m.var + m.mean ^ 2) = c0 + (data.map (· ^ 2)).sum

theorem exact_step (c0 : α) (hc : 0 < c0) (m m' : Moments α) (data b : List α) (hb : b ≠ [])
    (hm : Exact c0 m data) (hp : Pooled m (batchMean b) (batchVar b) (b.length : α) m') : Exact c0 m' (data ++ b) := by
  obtain ⟨i1, i2, i3⟩ := hm
  obtain ⟨p1, p2, p3⟩ := hp
  obtain ⟨b1, b2⟩ := batch_moments b hb
  have hpos : 0 < m.count + (b.length : α) := by
    rw [i1]; have : (0 : α) ≤ (data.length : α) := Nat.cast_nonneg _
    have : (0 : α) ≤ (b.length : α) := Nat.cast_nonneg _
    linarith
  have hne : m.count + (b.length : α) ≠ 0 := ne_of_gt hpos
  refine ⟨?_, ?_, ?_⟩
  · rw [p1, i1, List.length_append, Nat.cast_add]; ring
  · rw [p1, p2, List.sum_append, ← i2, ← b1]; field_simp
  · rw [p3, p1, List.map_append, List.sum_append, ← b2]
    have : m.count * (m.var + m.mean ^ 2) = c0 + (data.map (· ^ 2)).sum := i3
    rw [show c0 + ((data.map (· ^ 2)).sum + (b.length : α) * (batchVar b + batchMean b ^ 2))
        = m.count * (m.var + m.mean ^ 2) + (b.length : α) * (batchVar b + batchMean b ^ 2) by rw [this]; ring]
    field_simp
    ring

/-- closed form read off the invariant -/
theorem exact_closed (c0 : α) (hc : 0 < c0) (m : Moments α) (data : List α) (hm : Exact c0 m data) :
    m.count = c0 + data.length ∧
    m.mean = (c0 * 0 + data.sum) / (c0 + data.length) ∧
    m.var = (c0 * (1 + 0 ^ 2) + (data.map (· ^ 2)).sum) / (c0 + data.length) - m.mean ^ 2 := by
  obtain ⟨i1, i2, i3⟩ := hm
  have hpos : 0 < m.count := by
    rw [i1]; have : (0 : α) ≤ (data.length : α) := Nat.cast_nonneg _
    linarith
  have hne : m.count ≠ 0 := ne_of_gt hpos
  refine ⟨i1, ?_, ?_⟩
  · rw [← i1, ← i2]; field_simp; ring
  · rw [← i1]
    have : c0 * (1 + 0 ^ 2) + (data.map (· ^ 2)).sum = m.count * (m.var + m.mean ^ 2) := by rw [i3]; ring
    rw [this]; field_simp; ring

/-- the prior the code starts from is weight `1e-4`, mean `0`, variance `1` — stated explicitly. -/
theorem obs_prior_exact : Exact (1 / 10000 : α) (obsPrior : Moments α) [] := by
  simp only [Exact, obsPrior, obs0_prior_mean, obs0_prior_var, obs0_prior_count, Nat.cast_one, Nat.cast_zero, Nat.cast_ofNat,
    List.length_nil, List.sum_nil, List.map_nil]
  refine ⟨by ring, by ring, by ring⟩

theorem obsReset_exact (b0 : List α) (h0 : b0 ≠ []) : Exact (1 / 10000 : α) (obsReset b0) b0 := by
  have hpos : (0 : α) < 1 / 10000 := by norm_num
  have hne : (obsPrior : Moments α).count + (b0.length : α) ≠ 0 := by
    have : (0 : α) ≤ (b0.length : α) := Nat.cast_nonneg _
    have : (obsPrior : Moments α).count = 1 / 10000 := by simp [obsPrior, obs0_prior_count]
    rw [this]; exact ne_of_gt (by linarith)
  have hp := (chan_update_exact (obsPrior : Moments α) (batchMean b0) (batchVar b0) (b0.length : α) hne).1
  have := exact_step (1 / 10000 : α) hpos obsPrior _ [] b0 h0 obs_prior_exact hp
  have e1 : List.map (obs0_mean_of : α → α) b0 = b0 := by simp [show (obs0_mean_of : α → α) = id from rfl]
  have e2 : List.map (obs0_var_of : α → α) b0 = b0 := by simp [show (obs0_var_of : α → α) = id from rfl]
  unfold obsReset
  rw [e1, e2]
  simpa [obs0_count_of] using this

theorem obsStep_exact (m : Moments α) (data b : List α) (hb : b ≠ []) (hm : Exact (1 / 10000 : α) m data) :
    Exact (1 / 10000 : α) (obsStep m b) (data ++ b) := by
  have hpos : (0 : α) < 1 / 10000 := by norm_num
  have hne : m.count + (b.length : α) ≠ 0 := by
    have h1 : (0 : α) ≤ (data.length : α) := Nat.cast_nonneg _
    have h2 : (0 : α) ≤ (b.length : α) := Nat.cast_nonneg _
    rw [hm.1]; exact ne_of_gt (by linarith)
  have hp := (chan_update_exact m (batchMean b) (batchVar b) (b.length : α) hne).2.1
  have := exact_step (1 / 10000 : α) hpos m _ data b hb hm hp
  have e1 : List.map (obs_mean_of : α → α) b = b := by simp [show (obs_mean_of : α → α) = id from rfl]
  have e2 : List.map (obs_var_of : α → α) b = b := by simp [show (obs_var_of : α → α) = id from rfl]
  unfold obsStep
  rw [e1, e2]
  exact this

theorem obsRun_exact (b0 : List α) (bs : List (List α)) (h0 : b0 ≠ []) (hb : ∀ b ∈ bs, b ≠ []) :
    Exact (1 / 10000 : α) (obsRun b0 bs) (b0 ++ bs.flatten) := by
  unfold obsRun
  induction bs using List.reverseRecOn with
  | nil => simpa using obsReset_exact b0 h0
  | append_singleton bs b ih =>
    rw [List.foldl_append, List.foldl_cons, List.foldl_nil, List.flatten_append, List.flatten_singleton, ← List.append_assoc]
    exact obsStep_exact _ _ b (hb b (by simp)) (ih fun b' hb' => hb b' (by simp [hb']))

/-- **Running observation normalisation = exact moments of everything seen so far** (one feature coordinate): after `reset`
on the batch `b0` and any number of `step`s on non-empty batches `bs`, with `data` = all observations seen and the prior the
code starts from (a pseudo-sample of weight `1e-4` with mean `0` and variance `1`):
`count = 1e-4 + |data|`, `mean = (1e-4·0 + Σ data) / count`, `var = (1e-4·(1 + 0²) + Σ data²) / count − mean²`. -/
theorem chan_fold_exact (b0 : List α) (bs : List (List α)) (h0 : b0 ≠ []) (hb : ∀ b ∈ bs, b ≠ []) :
    (obsRun b0 bs).count = 1 / 10000 + ((b0 ++ bs.flatten).length : α) ∧
    (obsRun b0 bs).mean = (1 / 10000 * 0 + (b0 ++ bs.flatten).sum) / (1 / 10000 + ((b0 ++ bs.flatten).length : α)) ∧
    (obsRun b0 bs).var =
      (1 / 10000 * (1 + 0 ^ 2) + ((b0 ++ bs.flatten).map (· ^ 2)).sum) / (1 / 10000 + ((b0 ++ bs.flatten).length : α))
        - (obsRun b0 bs).mean ^ 2 :=
  exact_closed _ (by norm_num) _ _ (obsRun_exact b0 bs h0 hb)

/-- The literal reading "equals the mean of everything seen so far" is false because of the prior: after one observation `1`
the running mean is `1 / 1.0001`, not `1`. -/
theorem chan_prior_visible_witness : (obsRun ([1] : List ℚ) []).mean ≠ 1 := by
  have h := (chan_fold_exact ([1] : List ℚ) [] (by simp) (by simp)).2.1
  rw [h]; norm_num

/-- the observation handed out is normalised with the statistics *after* the update, clipped to `±clip`. -/
theorem obs_out_spec (m' : Moments ℝ) (c x : ℝ) :
    obsOut Real.sqrt m' c x = Rex.clip ((x - m'.mean) / Real.sqrt (m'.var + 1 / 100000000)) (-c) c ∧
    obsOut0 Real.sqrt m' c x = Rex.clip ((x - m'.mean) / Real.sqrt (m'.var + 1 / 100000000)) (-c) c := by
  simp [obsOut, obsOut0, nv_normalize, obs_norm_clip, obs_norm_submean, obs_norm_arg, obs0_norm_clip, obs0_norm_submean, obs0_norm_arg]

/-! ### reward normalisation -/

/-- the discounted-return accumulator: restarted *at* an episode end (the end step's own reward is kept), else discounted. -/
theorem return_val_recurrence (gamma prev : α) (x : Step α) :
    rewAcc gamma prev x = if x.terminated || x.truncated then x.reward else prev * gamma + x.reward := by
  cases h : (x.terminated || x.truncated) <;>
    simp [rewAcc, rew_return_val, rew_done, b2n, h]

/-- the successive accumulator vectors of a history -/
def rvTrace (gamma : α) : List α → List (List (Step α)) → List (List α)
  | _, [] => []
  | rv, xs :: h => List.zipWith (rewAcc gamma) rv xs :: rvTrace gamma (List.zipWith (rewAcc gamma) rv xs) h

theorem rewRun_exact (gamma : α) (n : Nat) (hn : 0 < n) (h : List (List (Step α))) (hlen : ∀ xs ∈ h, xs.length = n) :
    Exact (1 / 10000 : α) (rewRun gamma n h).m (rvTrace gamma (List.replicate n 0) h).flatten ∧
    (rewRun gamma n h).rv.length = n := by
  have hpos : (0 : α) < 1 / 10000 := by norm_num
  suffices H : ∀ (s : RewState α) (data : List α), Exact (1 / 10000 : α) s.m data → s.rv.length = n →
      Exact (1 / 10000 : α) (h.foldl (rewStep gamma) s).m (data ++ (rvTrace gamma s.rv h).flatten) ∧
      (h.foldl (rewStep gamma) s).rv.length = n by
    have h0 : Exact (1 / 10000 : α) (rewPrior n : RewState α).m [] := by
      simp only [Exact, rewPrior, rew_prior_mean, rew_prior_var, rew_prior_count, Nat.cast_one, Nat.cast_zero, Nat.cast_ofNat,
        List.length_nil, List.sum_nil, List.map_nil]
      exact ⟨by ring, by ring, by ring⟩
    have := H (rewPrior n) [] h0 (by simp [rewPrior])
    simpa [rewRun, rewPrior, rew_prior_return_val] using this
  induction h with
  | nil =>
    intro s data hs hl
    simp only [List.foldl_nil, rvTrace, List.flatten_nil, List.append_nil]
    exact ⟨hs, hl⟩
  | cons xs h ih =>
    intro s data hs hl
    have hx : xs.length = n := hlen xs (by simp)
    generalize hrvdef : List.zipWith (rewAcc gamma) s.rv xs = rv' at *
    have hrv : rv'.length = n := by rw [← hrvdef]; simp [hl, hx]
    have hne' : rv' ≠ [] := by
      intro e; rw [e] at hrv; simp at hrv; omega
    have hcnt : ((xs.length : ℕ) : α) = (rv'.length : α) := by rw [hrv, hx]
    have hne : s.m.count + (rv'.length : α) ≠ 0 := by
      have h1 : (0 : α) ≤ (data.length : α) := Nat.cast_nonneg _
      have h2 : (0 : α) ≤ (rv'.length : α) := Nat.cast_nonneg _
      rw [hs.1]; exact ne_of_gt (by linarith)
    have hp := (chan_update_exact s.m (batchMean rv') (batchVar rv') (rv'.length : α) hne).2.2
    have hstep := exact_step (1 / 10000 : α) hpos s.m _ data _ hne' hs hp
    have e1 : List.map (rew_mean_of : α → α) rv' = rv' := by simp [show (rew_mean_of : α → α) = id from rfl]
    have e2 : List.map (rew_var_of : α → α) rv' = rv' := by simp [show (rew_var_of : α → α) = id from rfl]
    have e3 : List.map (rew_out_return_val : α → α) rv' = rv' := by simp [show (rew_out_return_val : α → α) = id from rfl]
    have hrv' : (rewStep gamma s xs).rv = rv' := by
      show List.map rew_out_return_val (List.zipWith (rewAcc gamma) s.rv xs) = rv'
      rw [hrvdef, e3]
    have hs' : Exact (1 / 10000 : α) (rewStep gamma s xs).m (data ++ rv') := by
      show Exact _ (chanRew s.m (batchMean (List.map rew_mean_of (List.zipWith (rewAcc gamma) s.rv xs)))
        (batchVar (List.map rew_var_of (List.zipWith (rewAcc gamma) s.rv xs))) (rew_count_of ((xs.length : ℕ) : α))) _
      rw [hrvdef, e1, e2, show rew_count_of ((xs.length : ℕ) : α) = (rv'.length : α) from hcnt]
      exact hstep
    have hl' : (rewStep gamma s xs).rv.length = n := by rw [hrv', hrv]
    have := ih (fun ys hy => hlen ys (by simp [hy])) (rewStep gamma s xs) _ hs' hl'
    rw [List.foldl_cons]
    simp only [rvTrace, hrvdef, List.flatten_cons]
    rw [hrv', List.append_assoc] at this
    exact this

/-- **Running return normalisation = exact moments of every accumulator value seen so far**, with the same explicit prior
(weight `1e-4`, mean `0`, variance `1`), for `n ≥ 1` parallel environments and any history. -/
theorem rew_fold_exact (gamma : α) (n : Nat) (hn : 0 < n) (h : List (List (Step α))) (hlen : ∀ xs ∈ h, xs.length = n) :
    let data := (rvTrace gamma (List.replicate n 0) h).flatten
    (rewRun gamma n h).m.count = 1 / 10000 + (data.length : α) ∧
    (rewRun gamma n h).m.mean = (1 / 10000 * 0 + data.sum) / (1 / 10000 + (data.length : α)) ∧
    (rewRun gamma n h).m.var =
      (1 / 10000 * (1 + 0 ^ 2) + (data.map (· ^ 2)).sum) / (1 / 10000 + (data.length : α)) - (rewRun gamma n h).m.mean ^ 2 :=
  exact_closed _ (by norm_num) _ _ (rewRun_exact gamma n hn h hlen).1

/-- the reward handed out is the raw reward divided by the updated standard deviation (mean not subtracted), clipped. -/
theorem rew_out_spec (m' : Moments ℝ) (c r : ℝ) :
    rewOut Real.sqrt m' c r = Rex.clip (r / Real.sqrt (m'.var + 1 / 100000000)) (-c) c := by
  simp [rewOut, nv_normalize, rew_norm_clip, rew_norm_submean, rew_norm_arg]

end Chan

/-- non-vacuity: a reset batch and two step batches over ℚ satisfy the hypotheses of `chan_fold_exact`. -/
example : (obsRun ([1, 2] : List ℚ) [[3], [4, 5]]).count = 1 / 10000 + 5 := by
  have := (chan_fold_exact ([1, 2] : List ℚ) [[3], [4, 5]] (by simp) (by simp)).1
  simpa using this

end Rex.C19
