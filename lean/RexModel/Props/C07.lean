import RexModel.Compiled.Schedule
import RexModel.Compiled.Window
import RexModel.Props.C01

/-! # C07 — the compiled schedule runs every graph vertex once, in dependency order

The partitioning is produced by the external `supergraph` library, so the universal claim is decided per compiled
instance by the checker `Rex.Sched.checkSchedule` (executed by the driver on the real `Graph.timings`), and this file
proves **what a `true` answer implies, for every instance**: no vertex twice; every transitive dependency of every
scheduled vertex — in particular of every supervisor step of the horizon — is scheduled, exactly once and strictly
earlier; supervisor step `p` closes partition `p`; cells carry their vertex's own data; with pruning off every vertex
finishing before a supervisor step of the horizon is scheduled. The rex-side construction of the windows
(`apply_window`) is proved in `Props/C01.lean` (`applyWindow_sorted`). -/

namespace Rex.C07

open Rex.Sched

/-- `d` is a (transitive) dependency of `v` in the instance's windowed graph -/
inductive Anc (i : Inst) : Vtx → Vtx → Prop
  | direct {d v r} : i.row? v = some r → d ∈ depsOf r → Anc i d v
  | trans {a b c} : Anc i a b → Anc i b c → Anc i a c

def Scheduled (i : Inst) (v : Vtx) : Prop := ∃ c ∈ i.sched, c.v = v

theorem check_parts (i : Inst) (h : checkSchedule i = true) :
    c0 i = true ∧ c1 i = true ∧ c3 i = true ∧ c4 i = true ∧ c5 i = true ∧ c6 i = true ∧ c7 i = true := by
  simp only [checkSchedule, Bool.and_eq_true] at h
  obtain ⟨⟨⟨⟨⟨⟨h0, h1⟩, h3⟩, h4⟩, h5⟩, h6⟩, h7⟩ := h
  exact ⟨h0, h1, h3, h4, h5, h6, h7⟩

/-- **exactly once**: a valid schedule names no vertex twice -/
theorem valid_no_vertex_twice (i : Inst) (h : checkSchedule i = true) : (i.sched.map Cell.v).Nodup := by
  have := (check_parts i h).2.1
  simpa [c1] using this

/-- one step of dependency: scheduled strictly earlier -/
theorem valid_dep_earlier (i : Inst) (h : checkSchedule i = true) (c : Cell) (hc : c ∈ i.sched)
    (r : VRow) (hr : i.row? c.v = some r) (d : Vtx) (hd : d ∈ depsOf r) :
    ∃ c' ∈ i.sched, c'.v = d ∧ posLt c'.pos c.pos = true := by
  have h3 := (check_parts i h).2.2.1
  simp only [c3, List.all_eq_true] at h3
  have := h3 c hc
  rw [hr] at this
  simp only [List.all_eq_true, List.any_eq_true, Bool.and_eq_true, beq_iff_eq] at this
  obtain ⟨c', hc', hv, hp⟩ := this d hd
  exact ⟨c', hc', hv, hp⟩

theorem posLt_trans (a b c : Nat × Nat) (h1 : posLt a b = true) (h2 : posLt b c = true) : posLt a c = true := by
  simp only [posLt, Bool.or_eq_true, decide_eq_true_eq, Bool.and_eq_true, beq_iff_eq] at *
  omega

/-- **dependency order, transitively**: every ancestor of a scheduled vertex is scheduled strictly earlier -/
theorem valid_ancestors_scheduled_earlier (i : Inst) (h : checkSchedule i = true) (d v : Vtx) (ha : Anc i d v) :
    ∀ c ∈ i.sched, c.v = v → ∃ c' ∈ i.sched, c'.v = d ∧ posLt c'.pos c.pos = true := by
  induction ha with
  | direct hr hd =>
    intro c hc hv
    subst hv
    exact valid_dep_earlier i h c hc _ hr _ hd
  | trans _ _ ih1 ih2 =>
    intro c hc hv
    obtain ⟨cb, hcb, hvb, hpb⟩ := ih2 c hc hv
    obtain ⟨ca, hca, hva, hpa⟩ := ih1 cb hcb hvb
    exact ⟨ca, hca, hva, posLt_trans _ _ _ hpa hpb⟩

/-- **the supervisor's steps and everything they depend on are scheduled**: supervisor step `p` (p in the horizon) is
scheduled in partition `p`, last generation; all its transitive dependencies are scheduled strictly before it -/
theorem valid_supervisor_and_needs (i : Inst) (h : checkSchedule i = true) (p : Nat) (hp : p < i.parts) :
    ∃ c ∈ i.sched, c.v = ⟨i.sup, p⟩ ∧ c.part = p ∧ c.gen + 1 = i.gens ∧
      ∀ d, Anc i d ⟨i.sup, p⟩ → ∃ c' ∈ i.sched, c'.v = d ∧ posLt c'.pos c.pos = true := by
  have h4 := (check_parts i h).2.2.2.1
  simp only [c4, Bool.and_eq_true, List.all_eq_true, List.mem_range, List.any_eq_true, beq_iff_eq] at h4
  obtain ⟨c, hc, ⟨⟨⟨hk, hpart⟩, hseq⟩, hgen⟩⟩ := h4.1 p hp
  refine ⟨c, hc, ?_, hpart, hgen, ?_⟩
  · simp [Cell.v, hk, hseq]
  · intro d hd
    exact valid_ancestors_scheduled_earlier i h d _ hd c hc (by simp [Cell.v, hk, hseq])

/-- the last generation of every partition contains only the supervisor -/
theorem valid_supervisor_alone (i : Inst) (h : checkSchedule i = true) (c : Cell) (hc : c ∈ i.cells)
    (hg : c.gen + 1 = i.gens) : c.kind = i.sup := by
  have h4 := (check_parts i h).2.2.2.1
  simp only [c4, Bool.and_eq_true, List.all_eq_true, beq_iff_eq] at h4
  have := h4.2 c hc
  simp only [decide_eq_true_eq] at this
  exact this hg

/-- each scheduled cell carries its vertex's own times and input windows -/
theorem valid_cell_data (i : Inst) (h : checkSchedule i = true) (c : Cell) (hc : c ∈ i.sched) :
    ∃ r, i.row? c.v = some r ∧ r.tsStart = c.tsStart ∧ r.tsEnd = c.tsEnd ∧ r.wins = c.wins := by
  have h5 := (check_parts i h).2.2.2.2.1
  simp only [c5, List.all_eq_true] at h5
  have := h5 c hc
  cases hr : i.row? c.v with
  | none => rw [hr] at this; cases this
  | some r =>
    rw [hr] at this
    simp only [Bool.and_eq_true, beq_iff_eq] at this
    exact ⟨r, rfl, this.1.1, this.1.2, this.2⟩

/-- with pruning off, every vertex of another node that finishes before a supervisor step of the horizon starts is
scheduled (the supervisor's own steps: `valid_supervisor_and_needs`) -/
theorem valid_noprune_complete (i : Inst) (h : checkSchedule i = true) (hp : i.prune = false) (r : VRow) (hr : r ∈ i.verts)
    (hns : r.v.kind ≠ i.sup)
    (p : Nat) (hpp : p < i.parts) (s : VRow) (hs : i.row? ⟨i.sup, p⟩ = some s) (hle : r.tsEnd ≤ s.tsStart) :
    Scheduled i r.v := by
  have h6 := (check_parts i h).2.2.2.2.2.1
  simp only [c6, hp, Bool.false_or, List.all_eq_true] at h6
  have := h6 r hr
  simp only [Bool.or_eq_true, beq_iff_eq, hns, false_or] at this
  simp only [decide_eq_true_eq, List.any_eq_true, beq_iff_eq] at this
  have hex : ∃ x, x ∈ List.range i.parts ∧ (match i.row? ⟨i.sup, (x : Int)⟩ with | some s => decide (r.tsEnd ≤ s.tsStart) | none => false) = true :=
    ⟨p, List.mem_range.mpr hpp, by rw [hs]; simpa using hle⟩
  obtain ⟨c, hc, hv⟩ := this hex
  exact ⟨c, hc, hv⟩

/-- the list of unscheduled owed vertices the driver reports is empty exactly when `c6` holds -/
theorem c6_iff_missing_nil (i : Inst) : c6 i = true ↔ c6Missing i = [] := by
  unfold c6 c6Missing
  cases hp : i.prune
  · simp only [Bool.false_or, List.all_eq_true, Bool.or_eq_true, beq_iff_eq, decide_eq_true_eq, Bool.false_eq_true, if_false,
      List.map_eq_nil_iff, List.filter_eq_nil_iff, Bool.and_eq_true, Bool.not_eq_true', not_and, Bool.not_eq_false]
    constructor
    · intro h r hr hns
      rcases h r hr with hk | himp
      · simp [hk] at hns
      · exact himp hns.2
    · intro h r hr
      by_cases hk : r.v.kind = i.sup
      · left; exact hk
      · right
        intro hex
        exact h r hr ⟨by simpa using hk, hex⟩
  · simp

/-- no two runnable cells of one kind share a generation (needed by the executor's per-kind overwrite) -/
theorem valid_one_kind_per_generation (i : Inst) (h : checkSchedule i = true) (c c' : Cell) (hc : c ∈ i.sched) (hc' : c' ∈ i.sched)
    (hk : c.kind = c'.kind) (hp : c.part = c'.part) (hg : c.gen = c'.gen) : c.slot = c'.slot := by
  have h7 := (check_parts i h).2.2.2.2.2.2
  simp only [c7, List.all_eq_true] at h7
  have := h7 c hc c' hc'
  simp only [Bool.and_eq_true, beq_iff_eq, decide_eq_true_eq] at this
  exact this ⟨⟨hk, hp⟩, hg⟩

/-- non-vacuity: a two-node instance (producer 1 -> supervisor 0) that passes the checker -/
def demo : Inst :=
  { sup := 0, parts := 1, gens := 2, prune := true
    verts := [⟨⟨1, 0⟩, 0, 5, []⟩, ⟨⟨0, 0⟩, 7, 9, [(1, [0], [5], [6])]⟩]
    cells := [⟨0, 1, 0, 0, true, 0, 0, 5, []⟩, ⟨1, 0, 1, 0, true, 0, 7, 9, [(1, [0], [5], [6])]⟩] }

example : checkSchedule demo = true := by decide
example : Anc demo ⟨1, 0⟩ ⟨0, 0⟩ := .direct (r := ⟨⟨0, 0⟩, 7, 9, [(1, [0], [5], [6])]⟩) (by decide) (by decide)

/-- pruning off: a zero-duration supervisor step beyond the horizon that ends when step 0 starts is not owed a slot … -/
def demoNoPrune : Inst :=
  { demo with prune := false
              verts := [⟨⟨1, 0⟩, 0, 5, []⟩, ⟨⟨0, 0⟩, 7, 7, [(1, [0], [5], [6])]⟩, ⟨⟨0, 1⟩, 7, 7, []⟩]
              cells := [⟨0, 1, 0, 0, true, 0, 0, 5, []⟩, ⟨1, 0, 1, 0, true, 0, 7, 7, [(1, [0], [5], [6])]⟩] }

example : checkSchedule demoNoPrune = true := by decide
/-- … while a step of another node that finishes in time and has no slot is reported -/
example : c6 { demoNoPrune with verts := demoNoPrune.verts ++ [⟨⟨1, 1⟩, 5, 6, []⟩] } = false := by decide

/-! ## Every compiled schedule the checker accepts is a valid order of the dataflow graph -/

section Link
open Rex.Sched

/-- cells ordered by (partition, generation) -/
def cellLe (a b : Cell) : Bool := !posLt b.pos a.pos

theorem posLt_iff (a b : Nat × Nat) : posLt a b = true ↔ (a.1 < b.1 ∨ (a.1 = b.1 ∧ a.2 < b.2)) := by
  simp [posLt]

theorem cellLe_iff (a b : Cell) : cellLe a b = true ↔ ¬ (b.part < a.part ∨ (b.part = a.part ∧ b.gen < a.gen)) := by
  unfold cellLe
  rw [Bool.not_eq_true', ← Bool.not_eq_true, posLt_iff]
  rfl

theorem cellLe_trans (a b c : Cell) (h1 : cellLe a b = true) (h2 : cellLe b c = true) : cellLe a c = true := by
  rw [cellLe_iff] at *
  omega

theorem cellLe_total (a b : Cell) : (cellLe a b || cellLe b a) = true := by
  rw [Bool.or_eq_true, cellLe_iff, cellLe_iff]
  omega

/-- the order in which the compiled runtime executes the scheduled vertices (partition by partition, generation by generation) -/
def execOrder (i : Inst) : List Vtx := (i.sched.mergeSort cellLe).map Cell.v

/-- the dependency graph of the instance as a dataflow graph (any value type, any step functions) -/
def graphOf {Val : Type} (i : Inst) (f : Vtx → List Val → Val) (dflt : Val) : Rex.Dataflow.Graph Vtx Val :=
  { deps := fun v => match i.row? v with | some r => depsOf r | none => [], f := f, dflt := dflt }

/-- **A schedule accepted by the checker is a valid order**: no vertex twice, every dependency (previous step of the node, producer of
every message in the windows) strictly earlier — so by `C01_any_valid_schedule` executing it gives every vertex the same inputs, state
and output as any other valid order, in particular the order in which the asynchronous runtime ran the recorded episode. -/
theorem C07_checked_schedule_is_valid_order {Val : Type} (i : Inst) (h : checkSchedule i = true) (f : Vtx → List Val → Val) (dflt : Val) :
    Rex.Dataflow.Valid (graphOf i f dflt) (execOrder i) := by
  have hperm := List.mergeSort_perm i.sched cellLe
  have hsorted := List.pairwise_mergeSort (le := cellLe) cellLe_trans cellLe_total i.sched
  have hnd : (execOrder i).Nodup := by
    have h1 := valid_no_vertex_twice i h
    exact ((hperm.map Cell.v).nodup_iff).mpr h1
  refine ⟨hnd, ?_⟩
  intro pre v post ho d hd
  -- the cell of `v` in the sorted list
  unfold execOrder at ho
  obtain ⟨l1, l2', hsplit, hm1, hm2⟩ := List.map_eq_append_iff.mp ho
  cases l2' with
  | nil => simp at hm2
  | cons c l2 =>
    simp only [List.map_cons, List.cons.injEq] at hm2
    obtain ⟨hcv, hpost⟩ := hm2
    have hc : c ∈ i.sched := hperm.subset (by rw [hsplit]; simp)
    -- the dependency is scheduled strictly earlier
    simp only [graphOf] at hd
    cases hr : i.row? v with
    | none => rw [hr] at hd; cases hd
    | some r =>
      rw [hr] at hd
      obtain ⟨c', hc', hv', hlt⟩ := valid_dep_earlier i h c hc r (by rw [hcv]; exact hr) d hd
      have hc'm : c' ∈ i.sched.mergeSort cellLe := hperm.symm.subset hc'
      rw [hsplit] at hc'm hsorted
      rw [← hm1]
      rcases List.mem_append.mp hc'm with hin | hin
      · exact List.mem_map.mpr ⟨c', hin, hv'⟩
      · -- c' cannot come at or after c: sortedness gives c ≤ c', i.e. ¬ c' < c
        exfalso
        rcases List.mem_cons.mp hin with heq | hin2
        · subst heq
          rw [posLt_iff] at hlt
          omega
        · have := (List.pairwise_append.mp hsorted).2.1
          have hcc' := (List.pairwise_cons.mp this).1 c' hin2
          rw [cellLe_iff] at hcc'
          rw [posLt_iff] at hlt
          exact hcc' hlt

end Link

end Rex.C07
