import RexModel.Compiled.Schedule
import RexModel.Compiled.Window
import RexModel.Props.C01

/-! # C07 — the compiled schedule runs every graph vertex once, in dependency order

The partitioning is produced by the external `supergraph` library, so the universal claim is decided per compiled
instance by the checker `Rex.Sched.checkSchedule` (executed by the driver on the real `Graph.timings`), and this file
proves **what a `true` answer implies, for every instance**: no vertex twice; every transitive dependency of every
scheduled vertex — in particular of every supervisor step of the horizon — is scheduled, exactly once and strictly
earlier; supervisor step `p` closes partition `p`; cells carry their vertex's own data; with pruning off every vertex
finishing before a supervisor step of the horizon is scheduled. The rex-side construction of the windows
(`apply_window`) is proved in `Props/C01.lean` (`applyWindow_sorted`). -/

namespace Rex.C07

open Rex.Sched

/-- `d` is a (transitive) dependency of `v` in the instance's windowed graph -/
inductive Anc (i : Inst) : Vtx → Vtx → Prop
  | direct {d v r} : i.row? v = some r → d ∈ depsOf r → Anc i d v
  | trans {a b c} : Anc i a b → Anc i b c → Anc i a c

def Scheduled (i : Inst) (v : Vtx) : Prop := ∃ c ∈ i.sched, c.v = v

theorem check_parts (i : Inst) (h : checkSchedule i = true) :
    c0 i = true ∧ c1 i = true ∧ c3 i = true ∧ c4 i = true ∧ c5 i = true ∧ c6 i = true ∧ c7 i = true := by
  simp only [checkSchedule, Bool.and_eq_true] at h
  obtain ⟨⟨⟨⟨⟨⟨h0, h1⟩, h3⟩, h4⟩, h5⟩, h6⟩, h7⟩ := h
  exact ⟨h0, h1, h3, h4, h5, h6, h7⟩

/-- **exactly once**: a valid schedule names no vertex twice -/
theorem valid_no_vertex_twice (i : Inst) (h : checkSchedule i = true) : (i.sched.map Cell.v).Nodup := by
  have := (check_parts i h).2.1
  simpa [c1] using this

/-- one step of dependency: scheduled strictly earlier -/
theorem valid_dep_earlier (i : Inst) (h : checkSchedule i = true) (c : Cell) (hc : c ∈ i.sched)
    (r : VRow) (hr : i.row? c.v = some r) (d : Vtx) (hd : d ∈ depsOf r) :
    ∃ c' ∈ i.sched, c'.v = d ∧ posLt c'.pos c.pos = true := by
  have h3 := (check_parts i h).2.2.1
  simp only [c3, List.all_eq_true] at h3
  have := h3 c hc
  rw [hr] at this
  simp only [List.all_eq_true, List.any_eq_true, Bool.and_eq_true, beq_iff_eq] at this
  obtain ⟨c', hc', hv, hp⟩ := this d hd
  exact ⟨c', hc', hv, hp⟩

theorem posLt_trans (a b c : Nat × Nat) (h1 : posLt a b = true) (h2 : posLt b c = true) : posLt a c = true := by
  simp only [posLt, Bool.or_eq_true, decide_eq_true_eq, Bool.and_eq_true, beq_iff_eq] at *
  omega

/-- **dependency order, transitively**: every ancestor of a scheduled vertex is scheduled strictly earlier -/
theorem valid_ancestors_scheduled_earlier (i : Inst) (h : checkSchedule i = true) (d v : Vtx) (ha : Anc i d v) :
    ∀ c ∈ i.sched, c.v = v → ∃ c' ∈ i.sched, c'.v = d ∧ posLt c'.pos c.pos = true := by
  induction ha with
  | direct hr hd =>
    intro c hc hv
    subst hv
    exact valid_dep_earlier i h c hc _ hr _ hd
  | trans _ _ ih1 ih2 =>
    intro c hc hv
    obtain ⟨cb, hcb, hvb, hpb⟩ := ih2 c hc hv
    obtain ⟨ca, hca, hva, hpa⟩ := ih1 cb hcb hvb
    exact ⟨ca, hca, hva, posLt_trans _ _ _ hpa hpb⟩

/-- **the supervisor's steps and everything they depend on are scheduled**: supervisor step `p` (p in the horizon) is
scheduled in partition `p`, last generation; all its transitive dependencies are scheduled strictly before it -/
theorem valid_supervisor_and_needs (i : Inst) (h : checkSchedule i = true) (p : Nat) (hp : p < i.parts) :
    ∃ c ∈ i.sched, c.v = ⟨i.sup, p⟩ ∧ c.part = p ∧ c.gen + 1 = i.gens ∧
      ∀ d, Anc i d ⟨i.sup, p⟩ → ∃ c' ∈ i.sched, c'.v = d ∧ posLt c'.pos c.pos = true := by
  have h4 := (check_parts i h).2.2.2.1
  simp only [c4, Bool.and_eq_true, List.all_eq_true, List.mem_range, List.any_eq_true, beq_iff_eq] at h4
  obtain ⟨c, hc, ⟨⟨⟨hk, hpart⟩, hseq⟩, hgen⟩⟩ := h4.1 p hp
  refine ⟨c, hc, ?_, hpart, hgen, ?_⟩
  · simp [Cell.v, hk, hseq]
  · intro d hd
    exact valid_ancestors_scheduled_earlier i h d _ hd c hc (by simp [Cell.v, hk, hseq])

/-- the last generation of every partition contains only the supervisor -/
theorem valid_supervisor_alone (i : Inst) (h : checkSchedule i = true) (c : Cell) (hc : c ∈ i.cells)
    (hg : c.gen + 1 = i.gens) : c.kind = i.sup := by
  have h4 := (check_parts i h).2.2.2.1
  simp only [c4, Bool.and_eq_true, List.all_eq_true, beq_iff_eq] at h4
  have := h4.2 c hc
  simp only [decide_eq_true_eq] at this
  exact this hg

/-- each scheduled cell carries its vertex's own times and input windows -/
theorem valid_cell_data (i : Inst) (h : checkSchedule i = true) (c : Cell) (hc : c ∈ i.sched) :
    ∃ r, i.row? c.v = some r ∧ r.tsStart = c.tsStart ∧ r.tsEnd = c.tsEnd ∧ r.wins = c.wins := by
  have h5 := (check_parts i h).2.2.2.2.1
  simp only [c5, List.all_eq_true] at h5
  have := h5 c hc
  cases hr : i.row? c.v with
  | none => rw [hr] at this; cases this
  | some r =>
    rw [hr] at this
    simp only [Bool.and_eq_true, beq_iff_eq] at this
    exact ⟨r, rfl, this.1.1, this.1.2, this.2⟩

/-- with pruning off, every vertex that finishes before a supervisor step of the horizon starts is scheduled -/
theorem valid_noprune_complete (i : Inst) (h : checkSchedule i = true) (hp : i.prune = false) (r : VRow) (hr : r ∈ i.verts)
    (p : Nat) (hpp : p < i.parts) (s : VRow) (hs : i.row? ⟨i.sup, p⟩ = some s) (hle : r.tsEnd ≤ s.tsStart) :
    Scheduled i r.v := by
  have h6 := (check_parts i h).2.2.2.2.2.1
  simp only [c6, hp, Bool.false_or, List.all_eq_true] at h6
  have := h6 r hr
  simp only [decide_eq_true_eq, List.any_eq_true, beq_iff_eq] at this
  have hex : ∃ x, x ∈ List.range i.parts ∧ (match i.row? ⟨i.sup, (x : Int)⟩ with | some s => decide (r.tsEnd ≤ s.tsStart) | none => false) = true :=
    ⟨p, List.mem_range.mpr hpp, by rw [hs]; simpa using hle⟩
  obtain ⟨c, hc, hv⟩ := this hex
  exact ⟨c, hc, hv⟩

/-- no two runnable cells of one kind share a generation (needed by the executor's per-kind overwrite) -/
theorem valid_one_kind_per_generation (i : Inst) (h : checkSchedule i = true) (c c' : Cell) (hc : c ∈ i.sched) (hc' : c' ∈ i.sched)
    (hk : c.kind = c'.kind) (hp : c.part = c'.part) (hg : c.gen = c'.gen) : c.slot = c'.slot := by
  have h7 := (check_parts i h).2.2.2.2.2.2
  simp only [c7, List.all_eq_true] at h7
  have := h7 c hc c' hc'
  simp only [Bool.and_eq_true, beq_iff_eq, decide_eq_true_eq] at this
  exact this ⟨⟨hk, hp⟩, hg⟩

/-- non-vacuity: a two-node instance (producer 1 -> supervisor 0) that passes the checker -/
def demo : Inst :=
  { sup := 0, parts := 1, gens := 2, prune := true
    verts := [⟨⟨1, 0⟩, 0, 5, []⟩, ⟨⟨0, 0⟩, 7, 9, [(1, [0], [5], [6])]⟩]
    cells := [⟨0, 1, 0, 0, true, 0, 0, 5, []⟩, ⟨1, 0, 1, 0, true, 0, 7, 9, [(1, [0], [5], [6])]⟩] }

example : checkSchedule demo = true := by decide
example : Anc demo ⟨1, 0⟩ ⟨0, 0⟩ := .direct (r := ⟨⟨0, 0⟩, 7, 9, [(1, [0], [5], [6])]⟩) (by decide) (by decide)

end Rex.C07
