import RexModel.Lib.Dist
import Mathlib.Algebra.Order.Field.Basic
import Mathlib.Algebra.BigOperators.Group.List.Basic
import Mathlib.Analysis.SpecialFunctions.Log.Basic
import Mathlib.Analysis.SpecialFunctions.Sqrt
import Mathlib.Tactic.Ring
import Mathlib.Tactic.FieldSimp
import Mathlib.Tactic.Linarith
import Mathlib.Tactic.NormNum

/-! # C15 — delay distributions give non-negative, replayable samples and true quantiles

All statements are about the definitions in `RexModel/Gen/Dist.lean` (regenerated from `rex/base.py`, `rex/utils.py`,
`rex/node.py`, `rex/gmm_estimator.py` on every run) and the plumbing in `RexModel/Lib/Dist.lean`.

Modelled abstractly (hypotheses, never axioms): threefry key splitting (`split` with a rank function and distinct
children), the raw distrax sampler (`draw`), `ndtri` (monotone, `ndtri 1/2 = 0`), the normal CDF `ndtr` (inverse of
`ndtri` on (0,1)), the component CDFs of a mixture (values in [0,1], non-decreasing along the grid). -/

namespace Rex.C15

open Rex.Gen.Dist Rex.Dist

/-! ## 1. Sampling: non-negative, key threading, replay -/

section Sampling
variable {α : Type} [Field α] [LinearOrder α] [IsStrictOrderedRing α]

/-- Every sampled delay is non-negative, whatever the raw sample is. -/
theorem sample_nonneg (raw : α) : 0 ≤ delay_clip raw := by
  simp only [delay_clip, Nat.cast_zero]
  exact le_max_right _ _

/-- The clip changes nothing on non-negative raw samples … -/
theorem sample_clip_of_nonneg (raw : α) (h : 0 ≤ raw) : delay_clip raw = raw := by
  simp only [delay_clip, Nat.cast_zero]
  exact max_eq_left h

/-- … and maps negative raw samples to exactly zero. -/
theorem sample_clip_of_nonpos (raw : α) (h : raw ≤ 0) : delay_clip raw = 0 := by
  simp only [delay_clip, Nat.cast_zero]
  exact max_eq_right h

variable {κ : Type}

/-- All elements of the array returned by one `sample(shape)` call are non-negative. -/
theorem sample_all_nonneg (split : κ → Nat → Nat → κ) (draw : κ → Nat → List α) (rng : κ) (n : Nat) :
    ∀ x ∈ (sampleStep split draw rng n).2, 0 ≤ x := by
  intro x hx
  simp only [sampleStep, List.mem_map] at hx
  obtain ⟨r, _, rfl⟩ := hx
  exact sample_nonneg r

/-- … and so is every delay in every later call. -/
theorem sampleSeq_all_nonneg (split : κ → Nat → Nat → κ) (draw : κ → Nat → List α) (rng : κ) (ns : List Nat) :
    ∀ xs ∈ sampleSeq split draw rng ns, ∀ x ∈ xs, 0 ≤ x := by
  induction ns generalizing rng with
  | nil => intro xs h; simp [sampleSeq] at h
  | cons n ns ih =>
    intro xs h
    simp only [sampleSeq, List.mem_cons] at h
    rcases h with rfl | h
    · exact sample_all_nonneg split draw rng n
    · exact ih _ xs h

/-- Key threading. Threefry is modelled by a `split` with a rank function (a child key is one level deeper than its
parent) and pairwise distinct children. Then the rng state returned by `sample` differs from the state it was called
with, the key handed to the sampler differs from both, i.e. no key is ever used twice by one call. -/
theorem sample_threads_key (split : κ → Nat → Nat → κ) (r : κ → Nat)
    (hr : ∀ k n i, r (split k n i) = r k + 1)
    (hinj : ∀ k n i j, i < n → j < n → split k n i = split k n j → i = j) (rng : κ) :
    sample_new_key split rng ≠ rng ∧ sample_seed_key split rng ≠ rng ∧
      sample_new_key split rng ≠ sample_seed_key split rng := by
  simp only [sample_new_key, sample_seed_key]
  refine ⟨?_, ?_, ?_⟩
  · intro h; have := congrArg r h; rw [hr] at this; omega
  · intro h; have := congrArg r h; rw [hr] at this; omega
  · intro h; have := hinj rng 2 _ _ (by omega) (by omega) h; omega

/-- The returned state is exactly one split deeper (used for the distinctness of later seeds). -/
theorem rank_keyAfter (split : κ → Nat → Nat → κ) (r : κ → Nat) (hr : ∀ k n i, r (split k n i) = r k + 1)
    (k : κ) (m : Nat) : r (keyAfter split k m) = r k + m := by
  induction m generalizing k with
  | zero => rfl
  | succ m ih =>
    simp only [keyAfter]
    rw [ih]
    simp only [sample_new_key, hr]
    omega

theorem rank_seedsUsed (split : κ → Nat → Nat → κ) (r : κ → Nat) (hr : ∀ k n i, r (split k n i) = r k + 1)
    (k : κ) (m : Nat) : ∀ s ∈ seedsUsed split k m, r k + 1 ≤ r s := by
  induction m generalizing k with
  | zero => intro s h; simp [seedsUsed] at h
  | succ m ih =>
    intro s h
    simp only [seedsUsed, List.mem_cons] at h
    rcases h with rfl | h
    · simp only [sample_seed_key, hr]; omega
    · have := ih _ s h
      simp only [sample_new_key, hr] at this
      omega

/-- The seeds handed to the sampler in any number of successive `sample` calls are pairwise distinct
(the rng really advances: no delay stream is drawn twice from the same key). -/
theorem seeds_pairwise_distinct (split : κ → Nat → Nat → κ) (r : κ → Nat)
    (hr : ∀ k n i, r (split k n i) = r k + 1) (k : κ) (m : Nat) : (seedsUsed split k m).Nodup := by
  induction m generalizing k with
  | zero => simp [seedsUsed]
  | succ m ih =>
    simp only [seedsUsed, List.nodup_cons]
    refine ⟨?_, ih _⟩
    intro h
    have h1 := rank_seedsUsed split r hr _ m _ h
    simp only [sample_seed_key, sample_new_key, hr] at h1
    omega

/-- `sampleSeq` draws its `i`-th array from the `i`-th seed and returns nothing else: the delays are a pure function
of (initial rng state, shapes). -/
theorem sampleSeq_spec (split : κ → Nat → Nat → κ) (draw : κ → Nat → List α) (k : κ) (ns : List Nat) :
    sampleSeq split draw k ns =
      List.zipWith (fun s n => (draw s n).map delay_clip) (seedsUsed split k ns.length) ns := by
  induction ns generalizing k with
  | nil => rfl
  | cons n ns ih =>
    simp only [sampleSeq, List.length_cons, seedsUsed, List.zipWith_cons_cons, sampleStep]
    rw [← ih]

/-- Replay: after `reset(rng)` the delays do not depend on the rng state the distribution had before the reset. -/
theorem reset_replays (split : κ → Nat → Nat → κ) (draw : κ → Nat → List α) (old old' rng : κ) (ns : List Nat) :
    sampleSeq split draw (resetFrom old rng) ns = sampleSeq split draw (resetFrom old' rng) ns := rfl

/-- `reset(rng)` installs exactly `rng`. -/
theorem reset_installs (old rng : κ) : resetFrom old rng = rng := rfl

/-- Non-vacuity of the `split` hypotheses: keys = paths in the binary split tree. -/
example : ∃ (split : List Nat → Nat → Nat → List Nat) (r : List Nat → Nat),
    (∀ k n i, r (split k n i) = r k + 1) ∧ (∀ k n i j, i < n → j < n → split k n i = split k n j → i = j) :=
  ⟨fun k _ i => i :: k, List.length, fun _ _ _ => rfl, fun _ _ _ _ _ _ h => by simpa using h⟩

end Sampling

/-! ## 2. Quantiles -/

section Quantile
variable {α : Type} [Field α] [LinearOrder α] [IsStrictOrderedRing α]

/-- Deterministic: every quantile is the location (independent of `q`, hence monotone, and exactly the CDF's jump). -/
theorem quantile_det_const (loc : α) : quantile_det loc = loc := by
  simp [quantile_det]

/-- Normal: non-decreasing in `q` for every non-negative scale, for a monotone `ndtri`. -/
theorem quantile_normal_mono (ndtri : α → α) (hm : Monotone ndtri) (scale loc q q' : α) (hs : 0 ≤ scale)
    (hq : q ≤ q') : quantile_normal ndtri q scale loc ≤ quantile_normal ndtri q' scale loc := by
  simp only [quantile_normal]
  have := mul_le_mul_of_nonneg_right (hm hq) hs
  linarith

/-- Normal: strictly increasing for a positive scale and a strictly monotone `ndtri`. -/
theorem quantile_normal_strict_mono (ndtri : α → α) (hm : StrictMono ndtri) (scale loc q q' : α) (hs : 0 < scale)
    (hq : q < q') : quantile_normal ndtri q scale loc < quantile_normal ndtri q' scale loc := by
  simp only [quantile_normal]
  have := mul_lt_mul_of_pos_right (hm hq) hs
  linarith

/-- Normal: exact agreement with the CDF `x ↦ ndtr ((x - loc) / scale)`: `F (quantile q) = q` on (0,1). -/
theorem quantile_normal_cdf (ndtri ndtr : α → α) (hinv : ∀ q, 0 < q → q < 1 → ndtr (ndtri q) = q)
    (scale loc q : α) (hs : 0 < scale) (h0 : 0 < q) (h1 : q < 1) :
    ndtr ((quantile_normal ndtri q scale loc - loc) / scale) = q := by
  simp only [quantile_normal]
  have : (ndtri q * scale + loc - loc) / scale = ndtri q := by
    rw [add_sub_cancel_right, mul_div_assoc, div_self (ne_of_gt hs), mul_one]
  rw [this]
  exact hinv q h0 h1

/-- … and `quantile (F x) = x`. -/
theorem quantile_normal_of_cdf (ndtri ndtr : α → α) (hinv : ∀ z, ndtri (ndtr z) = z) (scale loc x : α)
    (hs : 0 < scale) : quantile_normal ndtri (ndtr ((x - loc) / scale)) scale loc = x := by
  simp only [quantile_normal, hinv]
  field_simp
  ring

/-- Normal with zero scale (rex's default delay distribution) behaves like Deterministic. -/
theorem quantile_normal_zero_scale (ndtri : α → α) (loc q : α) : quantile_normal ndtri q 0 loc = loc := by
  simp [quantile_normal]

example : StrictMono (fun x : ℚ => x - 1/2) ∧ (fun x : ℚ => x - 1/2) (1/2) = 0 :=
  ⟨fun a b h => by simpa using h, by norm_num⟩

/-! ### the grid quantile of `mixture_distribution_quantiles` -/

theorem firstTrue_none (bs : List Bool) : firstTrue bs = none ↔ ∀ b ∈ bs, b = false := by
  induction bs with
  | nil => simp [firstTrue]
  | cons b bs ih =>
    cases b <;> simp [firstTrue, ih]

theorem firstTrue_some (bs : List Bool) (i : Nat) :
    firstTrue bs = some i ↔ bs[i]? = some true ∧ ∀ j, j < i → bs[j]? = some false := by
  induction bs generalizing i with
  | nil => simp [firstTrue]
  | cons b bs ih =>
    cases b
    · simp only [firstTrue, Bool.false_eq_true, if_false, Option.map_eq_some_iff]
      constructor
      · rintro ⟨a, ha, rfl⟩
        obtain ⟨h1, h2⟩ := (ih a).mp ha
        refine ⟨by simpa using h1, ?_⟩
        intro j hj
        cases j with
        | zero => rfl
        | succ j => simpa using h2 j (by omega)
      · rintro ⟨h1, h2⟩
        cases i with
        | zero => simp at h1
        | succ i =>
          refine ⟨i, (ih i).mpr ⟨by simpa using h1, ?_⟩, rfl⟩
          intro j hj
          simpa using h2 (j + 1) (by omega)
    · simp only [firstTrue, if_true, Option.some.injEq]
      constructor
      · rintro rfl
        exact ⟨rfl, fun j hj => by omega⟩
      · rintro ⟨h1, h2⟩
        cases i with
        | zero => rfl
        | succ i => simpa using h2 0 (by omega)

/-- `grid_gt` is the strict comparison `cdf > p` (this is what the source says *now*). -/
theorem grid_gt_iff (c p : α) : grid_gt c p = true ↔ p < c := by
  simp [grid_gt]

/-- Bracketing ("within grid resolution"): if some grid point has `cdf > p`, the returned index is the FIRST such
point (`_partial`: the hypothesis "some grid point exceeds `p`" is NOT implied by the source's own `grid_check`, which
only gives `p ≤ max cdf`; see `grid_index_no_exceed` and `grid_check_admits_no_exceed_witness` for the missing case): `cdf[i] > p` and `cdf[j] ≤ p` for every earlier grid point. No monotonicity of the CDF is needed. -/
theorem grid_quantile_brackets_partial (cdf : List α) (p : α) (h : ∃ c ∈ cdf, p < c) :
    ∃ hi : gridIndex cdf p < cdf.length, p < cdf[gridIndex cdf p] ∧
      ∀ j (hj : j < gridIndex cdf p), cdf[j]'(by omega) ≤ p := by
  obtain ⟨c, hc, hpc⟩ := h
  cases hft : firstTrue (cdf.map fun c => grid_gt c p) with
  | none =>
    exfalso
    have := (firstTrue_none _).mp hft (grid_gt c p) (List.mem_map.mpr ⟨c, hc, rfl⟩)
    rw [(grid_gt_iff c p).mpr hpc] at this
    cases this
  | some i =>
    have hidx : gridIndex cdf p = i := by simp [gridIndex, argmaxBool, hft]
    obtain ⟨h1, h2⟩ := (firstTrue_some _ i).mp hft
    have hi : i < cdf.length := by
      by_contra hcon
      simp only [List.getElem?_map] at h1
      rw [List.getElem?_eq_none (by omega)] at h1
      simp at h1
    subst hidx
    refine ⟨hi, ?_, ?_⟩
    · simp only [List.getElem?_map, List.getElem?_eq_getElem hi, Option.map_some, Option.some.injEq] at h1
      exact (grid_gt_iff _ _).mp h1
    · intro j hj
      have hjl : j < cdf.length := by omega
      have := h2 j hj
      simp only [List.getElem?_map, List.getElem?_eq_getElem hjl, Option.map_some, Option.some.injEq] at this
      by_contra hcon
      rw [(grid_gt_iff _ _).mpr (not_le.mp hcon)] at this
      cases this

/-- For a non-decreasing CDF grid the returned index separates the grid exactly:
`cdf[j] > p ↔ i ≤ j` — the quantile is the grid point right after the last one with `cdf ≤ p`. -/
theorem grid_quantile_separates_partial (cdf : List α) (p : α) (h : ∃ c ∈ cdf, p < c)
    (hmono : ∀ i j (hi : i < cdf.length) (hj : j < cdf.length), i ≤ j → cdf[i] ≤ cdf[j])
    (j : Nat) (hj : j < cdf.length) : p < cdf[j] ↔ gridIndex cdf p ≤ j := by
  obtain ⟨hi, h1, h2⟩ := grid_quantile_brackets_partial cdf p h
  constructor
  · intro hp
    by_contra hcon
    exact absurd (h2 j (by omega)) (not_le.mpr hp)
  · intro hle
    exact lt_of_lt_of_le h1 (hmono _ _ hi hj hle)

/-- The grid index (hence the grid quantile) is non-decreasing in the probability level. -/
theorem grid_index_mono_partial (cdf : List α) (p p' : α) (hpp : p ≤ p') (h' : ∃ c ∈ cdf, p' < c) :
    gridIndex cdf p ≤ gridIndex cdf p' := by
  have h : ∃ c ∈ cdf, p < c := by
    obtain ⟨c, hc, hpc⟩ := h'
    exact ⟨c, hc, lt_of_le_of_lt hpp hpc⟩
  obtain ⟨_, _, h2⟩ := grid_quantile_brackets_partial cdf p h
  obtain ⟨_, h1', _⟩ := grid_quantile_brackets_partial cdf p' h'
  by_contra hcon
  have := h2 (gridIndex cdf p') (by omega)
  exact absurd (lt_of_le_of_lt hpp h1') (not_lt.mpr this)

/-- Monotone quantile on an increasing grid. -/
theorem grid_quantile_mono_partial (grid cdf : List α) (p p' : α) (hlen : grid.length = cdf.length)
    (hgrid : ∀ i j (hi : i < grid.length) (hj : j < grid.length), i ≤ j → grid[i] ≤ grid[j])
    (hpp : p ≤ p') (h' : ∃ c ∈ cdf, p' < c) :
    ∃ x x', gridQuantile grid cdf p = some x ∧ gridQuantile grid cdf p' = some x' ∧ x ≤ x' := by
  have h : ∃ c ∈ cdf, p < c := by
    obtain ⟨c, hc, hpc⟩ := h'
    exact ⟨c, hc, lt_of_le_of_lt hpp hpc⟩
  obtain ⟨hi, _, _⟩ := grid_quantile_brackets_partial cdf p h
  obtain ⟨hi', _, _⟩ := grid_quantile_brackets_partial cdf p' h'
  have hle := grid_index_mono_partial cdf p p' hpp h'
  refine ⟨grid[gridIndex cdf p]'(by omega), grid[gridIndex cdf p']'(by omega), ?_, ?_, ?_⟩
  · simp [gridQuantile, List.getElem?_eq_getElem (show gridIndex cdf p < grid.length by omega)]
  · simp [gridQuantile, List.getElem?_eq_getElem (show gridIndex cdf p' < grid.length by omega)]
  · exact hgrid _ _ _ _ hle

/-- The hypothesis "some grid point has `cdf > p`" is needed: when no grid point exceeds `p`, numpy's `argmax` of an
all-`False` vector is `0` and the function returns the FIRST grid point (the smallest delay on the grid). -/
theorem grid_index_no_exceed (cdf : List α) (p : α) (h : ∀ c ∈ cdf, c ≤ p) : gridIndex cdf p = 0 := by
  have : firstTrue (cdf.map fun c => grid_gt c p) = none := by
    rw [firstTrue_none]
    intro b hb
    obtain ⟨c, hc, rfl⟩ := List.mem_map.mp hb
    cases hg : grid_gt c p with
    | false => rfl
    | true => exact absurd ((grid_gt_iff c p).mp hg) (not_lt.mpr (h c hc))
  simp [gridIndex, argmaxBool, this]

/-- … and the source's own `grid_check` does not exclude that case: it admits `max(probs) = max(cdf)`.
Witness: CDF grid `[0, 1/2, 1]`, level `p = 1`: the check passes and the "quantile" is the first grid point. -/
theorem grid_check_admits_no_exceed_witness :
    grid_check (0 : ℚ) 1 1 1 = true ∧ gridIndex [(0 : ℚ), 1/2, 1] 1 = 0 ∧
      gridQuantile [(10 : ℚ), 20, 30] [(0 : ℚ), 1/2, 1] 1 = some 10 := by
  refine ⟨by simp [grid_check], ?_, ?_⟩
  · exact grid_index_no_exceed _ _ (by intro c hc; simp at hc; rcases hc with rfl | rfl | rfl <;> norm_num)
  · have : gridIndex [(0 : ℚ), 1/2, 1] 1 = 0 :=
      grid_index_no_exceed _ _ (by intro c hc; simp at hc; rcases hc with rfl | rfl | rfl <;> norm_num)
    rw [gridQuantile, this]
    rfl

/-- With the strict form of the check (`p_max < cdf_hi`) a grid point exceeding `p` exists. -/
theorem grid_check_strict_suffices (cdf : List α) (p cdf_hi : α) (hhi : cdf_hi ∈ cdf) (h : p < cdf_hi) :
    ∃ c ∈ cdf, p < c := ⟨cdf_hi, hhi, h⟩

theorem grid_check_iff (cdf_lo cdf_hi p_min p_max : α) :
    grid_check cdf_lo cdf_hi p_min p_max = true ↔ cdf_lo ≤ p_min ∧ p_max ≤ cdf_hi := by
  simp [grid_check]

example : ∃ c ∈ [(0 : ℚ), 1/2, 1], (1/4 : ℚ) < c := ⟨1/2, by simp, by norm_num⟩

/-! ### the mixture CDF and the grid bounds -/

theorem foldl_add_eq (a : α) (xs : List α) : xs.foldl (fun x y => x + y) a = a + xs.sum := by
  induction xs generalizing a with
  | nil => simp
  | cons x xs ih => simp [List.foldl_cons, ih, add_assoc]

theorem sumL_eq (xs : List α) : sumL xs = xs.sum := by
  simp [sumL, foldl_add_eq]

/-- The mixture CDF at a grid point is the weight-weighted sum of the component CDFs. -/
theorem mix_cdf_weighted (cdfs ws : List α) : mix_cdf cdfs ws = (List.zipWith (fun c w => c * w) cdfs ws).sum := by
  simp [mix_cdf, foldl_add_eq]

theorem mix_cdf_cons (c w : α) (cdfs ws : List α) : mix_cdf (c :: cdfs) (w :: ws) = c * w + mix_cdf cdfs ws := by
  simp [mix_cdf_weighted]

/-- … which is non-decreasing along the grid when every component CDF is (weights non-negative). -/
theorem mix_cdf_mono (cdfs cdfs' ws : List α) (hle : List.Forall₂ (fun a b => a ≤ b) cdfs cdfs')
    (hw : ∀ w ∈ ws, 0 ≤ w) : mix_cdf cdfs ws ≤ mix_cdf cdfs' ws := by
  induction hle generalizing ws with
  | nil => simp [mix_cdf_weighted]
  | cons hab _ ih =>
    cases ws with
    | nil => simp [mix_cdf_weighted]
    | cons w ws =>
      rw [mix_cdf_cons, mix_cdf_cons]
      have h1 := mul_le_mul_of_nonneg_right hab (hw w List.mem_cons_self)
      have h2 := ih ws (fun w' hw' => hw w' (List.mem_cons_of_mem _ hw'))
      linarith

/-- … and takes values in `[0, Σ w] = [0, 1]` when the component CDFs do. -/
theorem mix_cdf_bounds (cdfs ws : List α) (hc : ∀ c ∈ cdfs, 0 ≤ c ∧ c ≤ 1) (hw : ∀ w ∈ ws, 0 ≤ w) :
    0 ≤ mix_cdf cdfs ws ∧ mix_cdf cdfs ws ≤ ws.sum := by
  induction cdfs generalizing ws with
  | nil =>
    simp only [mix_cdf_weighted, List.zipWith_nil_left, List.sum_nil, le_refl, true_and]
    exact List.sum_nonneg hw
  | cons c cdfs ih =>
    cases ws with
    | nil => simp [mix_cdf_weighted]
    | cons w ws =>
      rw [mix_cdf_cons, List.sum_cons]
      obtain ⟨hc0, hc1⟩ := hc c List.mem_cons_self
      have hw0 := hw w List.mem_cons_self
      obtain ⟨i1, i2⟩ := ih ws (fun c' h' => hc c' (List.mem_cons_of_mem _ h')) (fun w' h' => hw w' (List.mem_cons_of_mem _ h'))
      have := mul_le_mul_of_nonneg_right hc1 hw0
      have := mul_nonneg hc0 hw0
      constructor <;> linarith

/-- Far right of every component (all component CDFs = 1) the mixture CDF is the total weight. -/
theorem mix_cdf_ones (ws : List α) : mix_cdf (ws.map fun _ => (1 : α)) ws = ws.sum := by
  induction ws with
  | nil => simp [mix_cdf_weighted]
  | cons w ws ih => rw [List.map_cons, mix_cdf_cons, ih]; simp

/-- The per-component bracket used to size the grid is ordered. -/
theorem mix_qs_ordered (ndtri : α → α) (hm : Monotone ndtri) (scale loc : α) (hs : 0 ≤ scale) :
    mix_qs_min ndtri scale loc ≤ mix_qs_max ndtri scale loc := by
  simp only [mix_qs_min, mix_qs_max]
  have h : ((1 : ℕ) : α) / ((1000 : ℕ) : α) ≤ ((999 : ℕ) : α) / ((1000 : ℕ) : α) := by
    simp only [Nat.cast_ofNat, Nat.cast_one]
    apply div_le_div_of_nonneg_right _ (by norm_num)
    norm_num
  have := mul_le_mul_of_nonneg_right (hm h) hs
  linarith

/-- The grid `[0.9·qmin, 1.1·qmax]` contains `[qmin, qmax]` **when the bracket is non-negative**. -/
theorem grid_covers_partial (qmin qmax : α) (h0 : 0 ≤ qmin) (h1 : 0 ≤ qmax) :
    mix_grid_min qmin ≤ qmin ∧ qmax ≤ mix_grid_max qmax := by
  simp only [mix_grid_min, mix_grid_max, Nat.cast_ofNat]
  constructor <;> nlinarith

/-- The hypothesis is needed: for a negative lower bracket (a component with `loc < 3.09·scale`) the grid starts
ABOVE the bracket, so low probability levels are not covered (the source then raises "Grid does not span…"). -/
theorem grid_min_above_negative_witness : (-1 : ℚ) < mix_grid_min (-1 : ℚ) := by
  simp only [mix_grid_min, Nat.cast_ofNat]
  norm_num

example : (0 : ℚ) ≤ 1/100 ∧ (0 : ℚ) ≤ 3/100 := by norm_num

/-! ### TrainableDist -/

/-- A trainable delay is a constant in `[min, max]`, hence non-negative when `0 ≤ min` (`create` asserts that). -/
theorem trainable_quantile_bounds (lo hi alpha : α) (h : lo ≤ hi) (ha0 : 0 ≤ alpha) (ha1 : alpha ≤ 1) :
    lo ≤ td_quantile lo hi alpha ∧ td_quantile lo hi alpha ≤ hi := by
  simp only [td_quantile]
  have hd : 0 ≤ hi - lo := sub_nonneg.mpr h
  constructor
  · nlinarith [mul_nonneg ha0 hd]
  · nlinarith [mul_le_mul_of_nonneg_right ha1 hd]

theorem trainable_quantile_nonneg (lo hi alpha : α) (h0 : 0 ≤ lo) (h : lo ≤ hi) (ha0 : 0 ≤ alpha) (ha1 : alpha ≤ 1) :
    0 ≤ td_quantile lo hi alpha :=
  le_trans h0 (trainable_quantile_bounds lo hi alpha h ha0 ha1).1

/-- Every sample, every quantile and the mean coincide (the distribution is a point mass), independent of `q`/rng. -/
theorem trainable_sample_eq_quantile (lo hi alpha : α) :
    td_sample lo hi alpha = td_quantile lo hi alpha ∧ td_mean lo hi alpha = td_quantile lo hi alpha := by
  simp [td_sample, td_quantile, td_mean]

theorem trainable_sample_nonneg (lo hi alpha : α) (h0 : 0 ≤ lo) (h : lo ≤ hi) (ha0 : 0 ≤ alpha) (ha1 : alpha ≤ 1) :
    0 ≤ td_sample lo hi alpha := by
  rw [(trainable_sample_eq_quantile lo hi alpha).1]
  exact trainable_quantile_nonneg lo hi alpha h0 h ha0 ha1

/-- `create(delay, min, max)` stores `alpha` such that the delay is reproduced exactly. -/
theorem trainable_alpha_roundtrip (delay lo hi : α) (h : lo < hi) :
    td_quantile lo hi (td_alpha_raw delay lo hi) = delay := by
  simp only [td_quantile, td_alpha_raw]
  have : hi - lo ≠ 0 := sub_ne_zero.mpr (ne_of_gt h)
  field_simp
  ring

/-- `get_alpha` clips into `[0,1]` and is the exact `alpha` for delays inside `[min, max]`. -/
theorem trainable_get_alpha (delay lo hi : α) (h : lo < hi) :
    0 ≤ td_get_alpha td_alpha_raw delay lo hi ∧ td_get_alpha td_alpha_raw delay lo hi ≤ 1 ∧
      (lo ≤ delay → delay ≤ hi → td_get_alpha td_alpha_raw delay lo hi = td_alpha_raw delay lo hi) := by
  simp only [td_get_alpha, Rex.clip, Nat.cast_zero, Nat.cast_one]
  have hd : 0 < hi - lo := sub_pos.mpr h
  refine ⟨le_min (le_max_right _ _) zero_le_one, min_le_right _ _, ?_⟩
  intro h1 h2
  have a0 : 0 ≤ td_alpha_raw delay lo hi := by
    simp only [td_alpha_raw]; exact div_nonneg (sub_nonneg.mpr h1) hd.le
  have a1 : td_alpha_raw delay lo hi ≤ 1 := by
    simp only [td_alpha_raw]; rw [div_le_one hd]; linarith
  rw [max_eq_left a0, min_eq_left a1]

example : (0 : ℚ) ≤ 1/100 ∧ (1/100 : ℚ) < 5/100 ∧ (0 : ℚ) ≤ 1/4 ∧ (1/4 : ℚ) ≤ 1 := by norm_num

/-! ### the node's default expected delay -/

/-- Without an explicit `delay` a node's expected delay is the 99th percentile of its delay distribution … -/
theorem node_default_delay_is_p99 (quantile : α → α) (d : α) :
    node_default_delay quantile false d = quantile (99 / 100) ∧
    conn_default_delay quantile false d = quantile (99 / 100) := by
  simp [node_default_delay, conn_default_delay]

/-- … an explicit `delay` wins … -/
theorem node_default_delay_given (quantile : α → α) (d : α) :
    node_default_delay quantile true d = d ∧ conn_default_delay quantile true d = d := by
  simp [node_default_delay, conn_default_delay]

/-- … the constructor's assertion is exactly non-negativity … -/
theorem node_delay_ok_iff (d : α) : (node_delay_ok d = true ↔ 0 ≤ d) ∧ (conn_delay_ok d = true ↔ 0 ≤ d) := by
  simp [node_delay_ok, conn_delay_ok]

/-- … and it holds for every Normal delay with `loc ≥ 0`, `scale ≥ 0` (`ndtri` monotone with `ndtri 1/2 = 0`). -/
theorem default_delay_normal_nonneg (ndtri : α → α) (hm : Monotone ndtri) (h0 : ndtri (1 / 2) = 0)
    (scale loc d : α) (hs : 0 ≤ scale) (hl : 0 ≤ loc) :
    node_delay_ok (node_default_delay (fun q => quantile_normal ndtri q scale loc) false d) = true ∧
    conn_delay_ok (conn_default_delay (fun q => quantile_normal ndtri q scale loc) false d) = true := by
  have hz : 0 ≤ ndtri (99 / 100) := by
    rw [← h0]; exact hm (by norm_num)
  have : 0 ≤ quantile_normal ndtri (99 / 100) scale loc := by
    simp only [quantile_normal]
    have := mul_nonneg hz hs
    linarith
  rw [(node_delay_ok_iff _).1, (node_delay_ok_iff _).2, (node_default_delay_is_p99 _ d).1,
    (node_default_delay_is_p99 _ d).2]
  exact ⟨this, this⟩

/-- The default delay distribution `Normal(0, 0)` gives the default expected delay `0`. -/
theorem default_delay_default_dist (ndtri : α → α) (d : α) :
    node_default_delay (fun q => quantile_normal ndtri q node_default_scale node_default_loc) false d = 0 ∧
    conn_default_delay (fun q => quantile_normal ndtri q conn_default_scale conn_default_loc) false d = 0 := by
  simp [node_default_delay, conn_default_delay, quantile_normal, node_default_scale, node_default_loc,
    conn_default_scale, conn_default_loc]

/-- A deterministic / trainable delay distribution gives its constant as default delay. -/
theorem default_delay_det (loc d : α) : node_default_delay (fun _ => quantile_det loc) false d = loc := by
  simp [node_default_delay, quantile_det]

end Quantile

/-! ## 3. The delay estimator returns a proper distribution -/

section Estimator
variable {α : Type} [Field α] [LinearOrder α] [IsStrictOrderedRing α]

theorem normalize_eq (ws : List α) : gmm_normalize_weights ws = ws.map fun w => w / ws.sum := by
  simp [gmm_normalize_weights, foldl_add_eq]

theorem sum_map_div (ws : List α) (s : α) : (ws.map fun w => w / s).sum = ws.sum / s := by
  induction ws with
  | nil => simp
  | cons w ws ih => simp [ih, add_div]

/-- `normalize_weights` returns weights that sum to one whenever the input does not sum to zero (`_partial`: see
`normalize_zero_witness`; the estimator only calls it on vectors with positive sum — `estimator_mixture_weights`). -/
theorem normalize_weights_sum_one_partial (ws : List α) (h : ws.sum ≠ 0) : (gmm_normalize_weights ws).sum = 1 := by
  rw [normalize_eq, sum_map_div, div_self h]

/-- … and keeps them non-negative. -/
theorem normalize_weights_nonneg (ws : List α) (hw : ∀ w ∈ ws, 0 ≤ w) : ∀ w ∈ gmm_normalize_weights ws, 0 ≤ w := by
  rw [normalize_eq]
  intro w hmem
  obtain ⟨v, hv, rfl⟩ := List.mem_map.mp hmem
  exact div_nonneg (hw v hv) (List.sum_nonneg hw)

/-- The hypothesis is needed: all-zero weights are returned as `0/0` (= 0 in a field, NaN in floats), not a
probability vector. -/
theorem normalize_zero_witness : (gmm_normalize_weights [(0 : ℚ), 0]).sum = 0 := by
  simp [normalize_eq]

theorem sum_pos_of_pos (ws : List α) (hne : ws ≠ []) (hw : ∀ w ∈ ws, 0 < w) : 0 < ws.sum := by
  cases ws with
  | nil => exact absurd rfl hne
  | cons w ws =>
    rw [List.sum_cons]
    have h1 := hw w List.mem_cons_self
    have h2 : 0 ≤ ws.sum := List.sum_nonneg fun x hx => (hw x (List.mem_cons_of_mem _ hx)).le
    linarith

/-- `w = normalize_weights(exp(log_w))`: a probability vector for every parameter vector (positive `exp`). -/
theorem init_weights_proper (exp : α → α) (hexp : ∀ x, 0 < exp x) (log_w : List α) (hne : log_w ≠ []) :
    (initWeights exp log_w).sum = 1 ∧ ∀ w ∈ initWeights exp log_w, 0 < w := by
  have hpos : ∀ w ∈ log_w.map exp, 0 < w := by
    intro w hw; obtain ⟨x, _, rfl⟩ := List.mem_map.mp hw; exact hexp x
  have hs : 0 < (log_w.map exp).sum := sum_pos_of_pos _ (by simpa using hne) hpos
  simp only [initWeights, gmm_w_init]
  refine ⟨normalize_weights_sum_one_partial _ (ne_of_gt hs), ?_⟩
  rw [normalize_eq]
  intro w hw
  obtain ⟨v, hv, rfl⟩ := List.mem_map.mp hw
  exact div_pos (hpos v hv) hs

/-- The pruning loop never removes all the mass: if the weights sum to one and `percentile ≥ 0`, what is left after
`w[prune_idx:]` has positive sum (`cum` is the pruned mass so far; it is `0` or `< 1 - percentile`). -/
theorem pruneGo_mass (pct : α) (hp : 0 ≤ pct) (ws : List α) (cum : α) (hsum : cum + ws.sum = 1)
    (hcum : cum = 0 ∨ cum < 1 - pct) : 0 < (pruneGo pct cum ws).sum := by
  induction ws generalizing cum with
  | nil =>
    simp only [List.sum_nil, add_zero] at hsum
    rcases hcum with h | h <;> · exfalso; subst hsum; linarith
  | cons v rest ih =>
    simp only [pruneGo]
    split
    · rename_i ht
      simp only [gmm_prune_test, Nat.cast_one, decide_eq_true_eq] at ht
      apply ih
      · rw [List.sum_cons] at hsum; linarith
      · exact Or.inr ht
    · rcases hcum with h | h
      · subst h; rw [zero_add] at hsum; rw [hsum]; exact one_pos
      · linarith

/-- elements surviving the pruning are elements of the input -/
theorem pruneGo_subset (pct : α) (ws : List α) (cum : α) : ∀ w ∈ pruneGo pct cum ws, w ∈ ws := by
  induction ws generalizing cum with
  | nil => intro w h; simp [pruneGo] at h
  | cons v rest ih =>
    intro w h
    simp only [pruneGo] at h
    split at h
    · exact List.mem_cons_of_mem _ (ih _ w h)
    · exact h

/-- `pruneGo` is `w[prune_idx:]`. -/
theorem pruneGo_eq_drop (pct : α) (ws : List α) (cum : α) : pruneGo pct cum ws = ws.drop (pruneIdx pct cum ws) := by
  induction ws generalizing cum with
  | nil => rfl
  | cons v rest ih =>
    simp only [pruneGo, pruneIdx]
    split
    · simp [ih]
    · rfl

/-- **Weights of the returned mixture sum to one** and are non-negative, for every weight vector that is a
probability vector (which `init_weights_proper` provides, in any order) and every `percentile ≥ 0`. -/
theorem estimator_weights_sum_one (pct : α) (hp : 0 ≤ pct) (ws : List α) (hsum : ws.sum = 1)
    (hw : ∀ w ∈ ws, 0 ≤ w) :
    (finalWeights pct ws).sum = 1 ∧ ∀ w ∈ finalWeights pct ws, 0 ≤ w := by
  have hmass : 0 < (prune pct ws).sum := by
    simp only [prune, Nat.cast_zero]
    exact pruneGo_mass pct hp ws 0 (by rw [zero_add]; exact hsum) (Or.inl rfl)
  have hnn : ∀ w ∈ prune pct ws, 0 ≤ w := fun w h => hw w (pruneGo_subset pct ws _ w h)
  simp only [finalWeights, gmm_w_final]
  exact ⟨normalize_weights_sum_one_partial _ (ne_of_gt hmass), normalize_weights_nonneg _ hnn⟩

/-- **Full statement for the exported mixture**: for every parameter vector `log_w` (non-empty), every positive `exp`,
every ordering `ws` of the initial weights (the `argsort`) and every `percentile ≥ 0`, the weights handed to
`distrax.Categorical` sum to one and are non-negative. -/
theorem estimator_mixture_weights (exp : α → α) (hexp : ∀ x, 0 < exp x) (log_w : List α) (hne : log_w ≠ [])
    (ws : List α) (hperm : ws.Perm (initWeights exp log_w)) (pct : α) (hp : 0 ≤ pct) :
    (finalWeights pct ws).sum = 1 ∧ ∀ w ∈ finalWeights pct ws, 0 ≤ w := by
  obtain ⟨hs, hpos⟩ := init_weights_proper exp hexp log_w hne
  apply estimator_weights_sum_one pct hp ws
  · rw [hperm.sum_eq, hs]
  · intro w hw
    exact (hpos w (hperm.mem_iff.mp hw)).le

/-- At least one component survives. -/
theorem estimator_keeps_a_component (pct : α) (hp : 0 ≤ pct) (ws : List α) (hsum : ws.sum = 1) :
    prune pct ws ≠ [] := by
  intro h
  have hmass : 0 < (prune pct ws).sum := by
    simp only [prune, Nat.cast_zero]
    exact pruneGo_mass pct hp ws 0 (by rw [zero_add]; exact hsum) (Or.inl rfl)
  rw [h] at hmass
  simp at hmass

example : ([(1 : ℚ)/200, 9/100, 181/200]).sum = 1 ∧
    prune (99/100 : ℚ) [(1 : ℚ)/200, 9/100, 181/200] = [9/100, 181/200] := by
  constructor
  · norm_num
  · simp only [prune, pruneGo, gmm_prune_test]; norm_num

/-- Rescaling to the units of the data: a location learnt on normalised data maps back exactly
(`std` at least the `1e-7` floor used in the normalisation). -/
theorem rescale_mu_units (x mean std : α) (hstd : 1 / 10000000 ≤ std) :
    gmm_rescale_mu (gmm_data_norm x mean std false) std mean = x := by
  have hpos : (0 : α) < 1 / 10000000 := by norm_num
  have hne : std ≠ 0 := ne_of_gt (lt_of_lt_of_le hpos hstd)
  simp only [gmm_rescale_mu, gmm_data_norm, Bool.not_false, if_true, Nat.cast_one, Nat.cast_ofNat,
    max_eq_left hstd]
  field_simp
  ring

/-- Deterministic data are passed through unnormalised. -/
theorem data_norm_det (x mean std : α) : gmm_data_norm x mean std true = x := by
  simp [gmm_data_norm]

/-- **Constant data are recognised as deterministic**: a zero spread is below every positive threshold,
whatever the mean of the data is (in particular for all-zero delays). -/
theorem estimator_constant_is_deterministic (threshold mean : α) (hth : 0 < threshold) :
    gmm_is_deterministic 0 threshold mean = true := by
  simp [gmm_is_deterministic, hth]

/-- … and noisy data (spread at least the threshold) are not. -/
theorem estimator_noisy_is_not_deterministic (std threshold mean : α) (h : threshold ≤ std) :
    gmm_is_deterministic std threshold mean = false := by
  simp [gmm_is_deterministic, not_lt.mpr h]

theorem sum_replicate (n : Nat) (c : α) : (List.replicate n c).sum = n * c := by
  induction n with
  | zero => simp
  | succ n ih => simp [List.replicate_succ, ih]; ring

/-- The mean of constant data is the constant and their variance is zero. -/
theorem constant_data_moments (n : Nat) (hn : 0 < n) (c : α) :
    meanL (List.replicate n c) = c ∧ varL (List.replicate n c) = 0 := by
  have hn' : (n : α) ≠ 0 := Nat.cast_ne_zero.mpr (by omega)
  have hm : meanL (List.replicate n c) = c := by
    simp only [meanL, sumL_eq, sum_replicate, List.length_replicate]
    field_simp
  refine ⟨hm, ?_⟩
  simp only [varL, hm, List.map_replicate, sub_self, mul_zero]
  simp only [meanL, sumL_eq, sum_replicate, List.length_replicate, mul_zero, zero_div]

end Estimator

/-- **The estimator returns Deterministic(c) for constant data `c, c, …, c`** (over ℝ, `std = √var`): the determinism
test fires for every positive threshold, `get_dist` takes the deterministic branch and locates it at the data mean `c`. -/
theorem estimator_constant_data (n : Nat) (hn : 0 < n) (c threshold : ℝ) (hth : 0 < threshold) :
    gmm_det_branch (gmm_is_deterministic (Real.sqrt (varL (List.replicate n c))) threshold
        (meanL (List.replicate n c))) = true ∧
      gmm_det_loc (meanL (List.replicate n c)) = c := by
  obtain ⟨hm, hv⟩ := constant_data_moments n hn c
  rw [hv, Real.sqrt_zero, hm]
  exact ⟨by simp [gmm_det_branch, estimator_constant_is_deterministic threshold c hth], rfl⟩

/-- **Positive scales in the units of the data**: `exp(log_s + log std) = exp(log_s) · std > 0` for `std > 0`.
(`Real.log 0 = 0` is a totalisation; the hypothesis `0 < std` keeps the statement honest — in floats `log 0 = -∞`
and the scale collapses to `0`, which is exactly what the determinism test has to prevent.) -/
theorem rescale_scale_pos (ls std : ℝ) (hstd : 0 < std) :
    Real.exp (gmm_rescale_log_scale Real.log ls std) = Real.exp ls * std ∧
      0 < Real.exp (gmm_rescale_log_scale Real.log ls std) := by
  simp only [gmm_rescale_log_scale]
  rw [Real.exp_add, Real.exp_log hstd]
  exact ⟨rfl, mul_pos (Real.exp_pos _) hstd⟩

/-- **Positive scales whenever the mixture branch is taken**: if the determinism test (with a positive threshold) says
"not deterministic", the spread is at least the threshold, hence positive, and every exported scale is
`exp(log_s)·std > 0`. (In the model the spread tested and the spread used for rescaling are the same number; in rex
they are computed twice — numpy float32 `self.data.std()` and `jnp.std(data)` — see notes/C15.md.) -/
theorem estimator_scales_pos_of_not_deterministic (ls std threshold mean : ℝ) (hth : 0 < threshold)
    (hnd : gmm_is_deterministic std threshold mean = false) :
    Real.exp (gmm_rescale_log_scale Real.log ls std) = Real.exp ls * std ∧
      0 < Real.exp (gmm_rescale_log_scale Real.log ls std) := by
  have hstd : 0 < std := by
    by_contra hcon
    have : gmm_is_deterministic std threshold mean = true := by
      simp [gmm_is_deterministic, lt_of_le_of_lt (not_lt.mp hcon) hth]
    rw [this] at hnd
    cases hnd
  exact rescale_scale_pos ls std hstd

/-- Every scale of the exported mixture is positive. -/
theorem estimator_scales_pos (log_s : List ℝ) : ∀ s ∈ gmm_scales Real.exp log_s, 0 < s := by
  intro s hs
  simp only [gmm_scales] at hs
  obtain ⟨x, _, rfl⟩ := List.mem_map.mp hs
  exact Real.exp_pos x

/-- … and equals the learnt scale times the spread of the data. -/
theorem estimator_scales_units (log_s : List ℝ) (std : ℝ) (hstd : 0 < std) :
    gmm_scales Real.exp (log_s.map fun ls => gmm_rescale_log_scale Real.log ls std) =
      log_s.map fun ls => Real.exp ls * std := by
  simp only [gmm_scales, List.map_map]
  apply List.map_congr_left
  intro ls _
  exact (rescale_scale_pos ls std hstd).1

example : (0 : ℝ) < 2 ∧ (0 : ℝ) < 1 / 10000000 := by norm_num

end Rex.C15
