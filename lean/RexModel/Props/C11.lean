import RexModel.Lib.LinearDelay
import Mathlib.Algebra.Order.Field.Basic
import Mathlib.Tactic.Ring
import Mathlib.Tactic.FieldSimp
import Mathlib.Tactic.Linarith
import Mathlib.Algebra.Order.Ring.Cast
import Mathlib.Algebra.Order.Floor.Ring
import Mathlib.Analysis.Calculus.Deriv.Add
import Mathlib.Analysis.Calculus.Deriv.Mul
import Mathlib.Analysis.Calculus.Deriv.Comp
import Mathlib.Topology.MetricSpace.Lipschitz

/-! # C11 — interpolated delays sample the sender's signal at step time minus delay

All statements are about `interp1` (clamped piecewise-linear interpolation, `RexModel/Lib/LinearDelay.lean`) and
about the kernels regenerated from `TrainableDist.apply_delay` (`RexModel/Gen/LinearDelay.lean`). -/

set_option linter.unusedSectionVars false

namespace Rex.C11

open Rex.Gen.LinearDelay Rex.LinearDelay

section Field
variable {α : Type} [Field α] [LinearOrder α] [IsStrictOrderedRing α]

/-! ## A. laws of clamped piecewise-linear interpolation, for every knot list -/

@[simp] theorem interp1_nil (x0 y0 q : α) : interp1 x0 y0 [] q = y0 := rfl

theorem interp1_cons (x0 y0 x1 y1 : α) (rest : List (α × α)) (q : α) :
    interp1 x0 y0 ((x1, y1) :: rest) q =
      if q ≤ x0 then y0 else if q < x1 then seg x0 y0 x1 y1 q else interp1 x1 y1 rest q := rfl

/-- **shift law**: moving every knot by `d` is the same as querying `d` earlier. -/
theorem interp_shift (d x0 y0 : α) (rest : List (α × α)) (q : α) :
    interp1 (x0 + d) y0 (rest.map fun p => (p.1 + d, p.2)) q = interp1 x0 y0 rest (q - d) := by
  induction rest generalizing x0 y0 with
  | nil => simp
  | cons p rest ih =>
    obtain ⟨x1, y1⟩ := p
    simp only [List.map_cons, interp1_cons]
    rw [ih]
    have h1 : q ≤ x0 + d ↔ q - d ≤ x0 := by constructor <;> intro h <;> linarith
    have h2 : q < x1 + d ↔ q - d < x1 := by constructor <;> intro h <;> linarith
    have e1 : q - (x0 + d) = q - d - x0 := by ring
    have e2 : x1 + d - (x0 + d) = x1 - x0 := by ring
    simp only [h1, h2, seg, e1, e2]

/-- at the first knot the value is the first message -/
theorem interp_at_head (x0 y0 : α) (rest : List (α × α)) : interp1 x0 y0 rest x0 = y0 := by
  cases rest with
  | nil => rfl
  | cons p rest => obtain ⟨x1, y1⟩ := p; simp [interp1_cons]

/-- left clamp: at or before the first knot the value is the first message -/
theorem interp_left_clamp (x0 y0 : α) (rest : List (α × α)) (q : α) (h : q ≤ x0) : interp1 x0 y0 rest q = y0 := by
  cases rest with
  | nil => rfl
  | cons p rest => obtain ⟨x1, y1⟩ := p; simp [interp1_cons, h]

/-- right clamp: after all knots the value is the last message -/
theorem interp_right_clamp (x0 y0 : α) (rest : List (α × α)) (q : α) (h : ∀ p ∈ (x0, y0) :: rest, p.1 < q) :
    interp1 x0 y0 rest q = (((x0, y0) :: rest).getLast (by simp)).2 := by
  induction rest generalizing x0 y0 with
  | nil => simp
  | cons p rest ih =>
    obtain ⟨x1, y1⟩ := p
    have h0 : x0 < q := h (x0, y0) (by simp)
    have h1 : x1 < q := h (x1, y1) (by simp)
    rw [interp1_cons, if_neg (not_le.mpr h0), if_neg (not_lt.mpr h1.le)]
    rw [ih x1 y1 (fun p hp => h p (List.mem_cons_of_mem _ hp))]
    simp [List.getLast_cons]

/-- skipping a knot that lies at or before the query -/
theorem interp_skip (x0 y0 x1 y1 : α) (rest : List (α × α)) (q : α) (h0 : x0 < q) (h1 : x1 ≤ q) :
    interp1 x0 y0 ((x1, y1) :: rest) q = interp1 x1 y1 rest q := by
  rw [interp1_cons, if_neg (not_le.mpr h0), if_neg (not_lt.mpr h1)]

/-- non-decreasing abscissae -/
def SortedKnots (l : List (α × α)) : Prop := l.Pairwise (fun p r => p.1 ≤ r.1)
/-- strictly increasing abscissae -/
def StrictKnots (l : List (α × α)) : Prop := l.Pairwise (fun p r => p.1 < r.1)

/-- **segment formula**: for non-decreasing knots and a query in the half-open segment `(a, b]` between two
neighbouring knots the value is the straight line through them. -/
theorem interp_segment (x0 y0 : α) (rest pre post : List (α × α)) (a ya b yb q : α)
    (hs : SortedKnots ((x0, y0) :: rest))
    (hd : (x0, y0) :: rest = pre ++ (a, ya) :: (b, yb) :: post) (haq : a < q) (hqb : q ≤ b) :
    interp1 x0 y0 rest q = seg a ya b yb q := by
  induction pre generalizing x0 y0 rest with
  | nil =>
    simp only [List.nil_append, List.cons.injEq, Prod.mk.injEq] at hd
    obtain ⟨⟨rfl, rfl⟩, rfl⟩ := hd
    rw [interp1_cons, if_neg (not_le.mpr haq)]
    by_cases hq : q < b
    · rw [if_pos hq]
    · have hqb' : q = b := le_antisymm hqb (not_lt.mp hq)
      have hab : b - x0 ≠ 0 := by
        have : x0 < b := lt_of_lt_of_le haq hqb
        exact sub_ne_zero.mpr (ne_of_gt this)
      rw [if_neg hq, hqb', interp_at_head]
      simp only [seg]
      field_simp
      ring
  | cons p pre ih =>
    cases rest with
    | nil =>
      exfalso
      have := congrArg List.length hd
      simp at this
    | cons r rest =>
      obtain ⟨x1, y1⟩ := r
      simp only [List.cons_append, List.cons.injEq] at hd
      obtain ⟨hp, hrest⟩ := hd
      have hs' : SortedKnots ((x1, y1) :: rest) := (List.pairwise_cons.mp hs).2
      -- every knot of the tail up to and including `a` is ≤ a < q, and x0 ≤ a as well
      have ha_mem : (a, ya) ∈ (x1, y1) :: rest := by rw [hrest]; simp
      have hx0a : x0 ≤ a := (List.pairwise_cons.mp hs).1 (a, ya) ha_mem
      have hx1a : x1 ≤ a := by
        rcases List.mem_cons.mp ha_mem with h | h
        · have : a = x1 := (Prod.mk.injEq _ _ _ _ ▸ h).1
          exact this ▸ le_refl _
        · exact (List.pairwise_cons.mp hs').1 (a, ya) h
      rw [interp_skip x0 y0 x1 y1 rest q (lt_of_le_of_lt hx0a haq) (le_of_lt (lt_of_le_of_lt hx1a haq))]
      exact ih x1 y1 rest hs' hrest

/-- **knots**: for strictly increasing knots the value at a knot is that message (this is what zero-order hold
returns when the delayed arrival coincides with a message). -/
theorem interp_knot (x0 y0 : α) (rest : List (α × α)) (a ya : α)
    (hs : StrictKnots ((x0, y0) :: rest)) (hm : (a, ya) ∈ (x0, y0) :: rest) :
    interp1 x0 y0 rest a = ya := by
  induction rest generalizing x0 y0 with
  | nil =>
    simp only [List.mem_singleton, Prod.mk.injEq] at hm
    simp [hm.2]
  | cons r rest ih =>
    obtain ⟨x1, y1⟩ := r
    rcases List.mem_cons.mp hm with h | h
    · simp only [Prod.mk.injEq] at h
      rw [h.1, h.2, interp_at_head]
    · have hx0a : x0 < a := (List.pairwise_cons.mp hs).1 (a, ya) h
      have hs' : StrictKnots ((x1, y1) :: rest) := (List.pairwise_cons.mp hs).2
      have hx1a : x1 ≤ a := by
        rcases List.mem_cons.mp h with h' | h'
        · simp only [Prod.mk.injEq] at h'; exact h'.1 ▸ le_refl _
        · exact le_of_lt ((List.pairwise_cons.mp hs').1 (a, ya) h')
      rw [interp_skip x0 y0 x1 y1 rest a hx0a hx1a]
      exact ih x1 y1 hs' h

/-- a point of a segment lies between its end values -/
theorem seg_between (a ya b yb q : α) (haq : a ≤ q) (hqb : q ≤ b) (hab : a < b) :
    min ya yb ≤ seg a ya b yb q ∧ seg a ya b yb q ≤ max ya yb := by
  have hba : 0 < b - a := sub_pos.mpr hab
  have e : seg a ya b yb q = ya + ((q - a) / (b - a)) * (yb - ya) := by
    simp only [seg]; field_simp
  have ht0 : 0 ≤ (q - a) / (b - a) := div_nonneg (sub_nonneg.mpr haq) hba.le
  have ht1 : (q - a) / (b - a) ≤ 1 := by
    rw [div_le_one hba]; linarith
  rw [e]
  rcases le_total ya yb with h | h
  · rw [min_eq_left h, max_eq_right h]
    have h1 : 0 ≤ (q - a) / (b - a) * (yb - ya) := mul_nonneg ht0 (sub_nonneg.mpr h)
    have h2 : (q - a) / (b - a) * (yb - ya) ≤ 1 * (yb - ya) := mul_le_mul_of_nonneg_right ht1 (sub_nonneg.mpr h)
    constructor <;> linarith
  · rw [min_eq_right h, max_eq_left h]
    have h1 : (q - a) / (b - a) * (yb - ya) ≤ 0 := mul_nonpos_of_nonneg_of_nonpos ht0 (sub_nonpos.mpr h)
    have h2 : 1 * (yb - ya) ≤ (q - a) / (b - a) * (yb - ya) := mul_le_mul_of_nonpos_right ht1 (sub_nonpos.mpr h)
    constructor <;> linarith

/-- **betweenness**: a value seen between two neighbouring messages lies between their payloads. -/
theorem interp_between (x0 y0 : α) (rest pre post : List (α × α)) (a ya b yb q : α)
    (hs : SortedKnots ((x0, y0) :: rest))
    (hd : (x0, y0) :: rest = pre ++ (a, ya) :: (b, yb) :: post) (haq : a < q) (hqb : q ≤ b) :
    min ya yb ≤ interp1 x0 y0 rest q ∧ interp1 x0 y0 rest q ≤ max ya yb := by
  rw [interp_segment x0 y0 rest pre post a ya b yb q hs hd haq hqb]
  exact seg_between a ya b yb q haq.le hqb (lt_of_lt_of_le haq hqb)

/-- **range** (no ordering hypothesis at all): the value never leaves the range of the payloads. -/
theorem interp_in_range (x0 y0 : α) (rest : List (α × α)) (q lo hi : α)
    (h : ∀ p ∈ (x0, y0) :: rest, lo ≤ p.2 ∧ p.2 ≤ hi) :
    lo ≤ interp1 x0 y0 rest q ∧ interp1 x0 y0 rest q ≤ hi := by
  induction rest generalizing x0 y0 with
  | nil => simpa using h (x0, y0) (by simp)
  | cons r rest ih =>
    obtain ⟨x1, y1⟩ := r
    have h0 := h (x0, y0) (by simp)
    have h1 := h (x1, y1) (by simp)
    rw [interp1_cons]
    split_ifs with c1 c2
    · exact h0
    · have hx : x0 < q := not_le.mp c1
      have := seg_between x0 y0 x1 y1 q hx.le c2.le (lt_trans hx c2)
      simp only at h0 h1
      constructor
      · exact le_trans (le_min h0.1 h1.1) this.1
      · exact le_trans this.2 (max_le h0.2 h1.2)
    · exact ih x1 y1 (fun p hp => h p (List.mem_cons_of_mem _ hp))

/-- **slope**: inside one segment the difference quotient is the segment's finite-difference slope. -/
theorem interp_slope (x0 y0 : α) (rest pre post : List (α × α)) (a ya b yb q q' : α)
    (hs : SortedKnots ((x0, y0) :: rest))
    (hd : (x0, y0) :: rest = pre ++ (a, ya) :: (b, yb) :: post)
    (haq : a < q) (hqb : q ≤ b) (haq' : a < q') (hqb' : q' ≤ b) :
    interp1 x0 y0 rest q' - interp1 x0 y0 rest q = (q' - q) * ((yb - ya) / (b - a)) := by
  rw [interp_segment x0 y0 rest pre post a ya b yb q hs hd haq hqb,
    interp_segment x0 y0 rest pre post a ya b yb q' hs hd haq' hqb']
  simp only [seg]; ring

/-! ### Lipschitz continuity (⇒ the seen value changes continuously with the query time, hence with the delay) -/

/-- neighbouring knots are ordered and every finite-difference slope is bounded by `L` -/
def SlopeBound (L : α) : α → α → List (α × α) → Prop
  | _, _, [] => True
  | x0, y0, (x1, y1) :: rest => x0 ≤ x1 ∧ |y1 - y0| ≤ L * (x1 - x0) ∧ SlopeBound L x1 y1 rest

theorem slope_step (L x0 y0 x1 y1 u : α) (hu : 0 ≤ u) (hx : x0 < x1) (hy : |y1 - y0| ≤ L * (x1 - x0)) :
    |u * ((y1 - y0) / (x1 - x0))| ≤ L * u := by
  have hpos : 0 < x1 - x0 := sub_pos.mpr hx
  have hs : |(y1 - y0) / (x1 - x0)| ≤ L := by
    rw [abs_div, abs_of_pos hpos, div_le_iff₀ hpos]; exact hy
  rw [abs_mul, abs_of_nonneg hu]
  calc u * |(y1 - y0) / (x1 - x0)| ≤ u * L := mul_le_mul_of_nonneg_left hs hu
    _ = L * u := mul_comm _ _

theorem interp_lipschitz_le (L : α) (hL : 0 ≤ L) (x0 y0 : α) (rest : List (α × α)) (h : SlopeBound L x0 y0 rest)
    (q q' : α) (hqq : q ≤ q') : |interp1 x0 y0 rest q' - interp1 x0 y0 rest q| ≤ L * (q' - q) := by
  induction rest generalizing x0 y0 q q' with
  | nil => simpa using mul_nonneg hL (sub_nonneg.mpr hqq)
  | cons r rest ih =>
    obtain ⟨x1, y1⟩ := r
    obtain ⟨hx, hy, hrest⟩ := h
    rw [interp1_cons, interp1_cons]
    by_cases c1 : q' ≤ x0
    · rw [if_pos c1, if_pos (le_trans hqq c1)]
      simpa using mul_nonneg hL (sub_nonneg.mpr hqq)
    · have c1' : x0 < q' := not_le.mp c1
      by_cases c2 : q' < x1
      · rw [if_neg c1, if_pos c2]
        have hx01 : x0 < x1 := lt_trans c1' c2
        by_cases d1 : q ≤ x0
        · rw [if_pos d1]
          have e : seg x0 y0 x1 y1 q' - y0 = (q' - x0) * ((y1 - y0) / (x1 - x0)) := by simp only [seg]; ring
          rw [e]
          have k := slope_step L x0 y0 x1 y1 (q' - x0) (by linarith) hx01 hy
          have m : L * (q' - x0) ≤ L * (q' - q) := mul_le_mul_of_nonneg_left (by linarith) hL
          linarith
        · rw [if_neg d1, if_pos (lt_of_le_of_lt hqq c2)]
          have e : seg x0 y0 x1 y1 q' - seg x0 y0 x1 y1 q = (q' - q) * ((y1 - y0) / (x1 - x0)) := by
            simp only [seg]; ring
          rw [e]
          exact slope_step L x0 y0 x1 y1 (q' - q) (sub_nonneg.mpr hqq) hx01 hy
      · rw [if_neg c1, if_neg c2]
        have hq'1 : x1 ≤ q' := not_lt.mp c2
        have g1 : |interp1 x1 y1 rest q' - y1| ≤ L * (q' - x1) := by
          have := ih x1 y1 hrest x1 q' hq'1
          rwa [interp_at_head] at this
        by_cases d1 : q ≤ x0
        · rw [if_pos d1]
          have t := abs_sub_le (interp1 x1 y1 rest q') y1 y0
          have m : L * (q' - x0) ≤ L * (q' - q) := mul_le_mul_of_nonneg_left (by linarith) hL
          have e : L * (q' - x1) + L * (x1 - x0) = L * (q' - x0) := by ring
          linarith
        · by_cases d2 : q < x1
          · rw [if_neg d1, if_pos d2]
            have hx01 : x0 < x1 := lt_trans (not_le.mp d1) d2
            have hne : x1 - x0 ≠ 0 := sub_ne_zero.mpr (ne_of_gt hx01)
            have e : y1 - seg x0 y0 x1 y1 q = (x1 - q) * ((y1 - y0) / (x1 - x0)) := by
              simp only [seg]; field_simp; ring
            have k := slope_step L x0 y0 x1 y1 (x1 - q) (by linarith) hx01 hy
            rw [← e] at k
            have t := abs_sub_le (interp1 x1 y1 rest q') y1 (seg x0 y0 x1 y1 q)
            have e2 : L * (q' - x1) + L * (x1 - q) = L * (q' - q) := by ring
            linarith
          · rw [if_neg d1, if_neg d2]
            exact ih x1 y1 hrest q q' hqq

/-- **Lipschitz**: if every finite-difference slope is at most `L`, the interpolant moves by at most `L·|q' − q|`;
with `q = ts_start − delay` this is continuity of the seen value in the delay. -/
theorem interp_lipschitz (L : α) (hL : 0 ≤ L) (x0 y0 : α) (rest : List (α × α)) (h : SlopeBound L x0 y0 rest)
    (q q' : α) : |interp1 x0 y0 rest q' - interp1 x0 y0 rest q| ≤ L * |q' - q| := by
  rcases le_total q q' with hqq | hqq
  · rw [abs_of_nonneg (sub_nonneg.mpr hqq)]
    exact interp_lipschitz_le L hL x0 y0 rest h q q' hqq
  · rw [abs_sub_comm, abs_sub_comm q' q, abs_of_nonneg (sub_nonneg.mpr hqq)]
    exact interp_lipschitz_le L hL x0 y0 rest h q' q hqq

/-- `SlopeBound` implies the knots are non-decreasing neighbour by neighbour; it is satisfiable
(non-vacuity): three messages 0 ↦ 1, 1 ↦ 3, 2 ↦ 2 with `L = 2`. -/
example : SlopeBound (2 : ℚ) 0 1 [(1, 3), (2, 2)] := by
  simp only [SlopeBound]; norm_num [abs_le]

/-! ### integer leaves: `astype(int)` truncates towards zero and stays between the neighbouring messages -/

section Floor
variable [FloorRing α]

/-- C-style float → int conversion (truncation towards zero) -/
def truncZ (r : α) : Int := if 0 ≤ r then ⌊r⌋ else ⌈r⌉

theorem trunc_between (lo hi : Int) (r : α) (h1 : (lo : α) ≤ r) (h2 : r ≤ (hi : α)) :
    lo ≤ truncZ r ∧ truncZ r ≤ hi := by
  unfold truncZ
  split_ifs
  · exact ⟨Int.le_floor.mpr h1, Int.cast_le.mp (le_trans (Int.floor_le r) h2)⟩
  · exact ⟨Int.cast_le.mp (le_trans h1 (Int.le_ceil r)), Int.ceil_le.mpr h2⟩

/-- a value interpolated between two integer payloads is converted to an integer between them -/
theorem interp_int_between (x0 y0 : α) (rest pre post : List (α × α)) (a b q : α) (za zb : Int)
    (hs : SortedKnots ((x0, y0) :: rest))
    (hd : (x0, y0) :: rest = pre ++ (a, (za : α)) :: (b, (zb : α)) :: post) (haq : a < q) (hqb : q ≤ b) :
    min za zb ≤ truncZ (interp1 x0 y0 rest q) ∧ truncZ (interp1 x0 y0 rest q) ≤ max za zb := by
  have h := interp_between x0 y0 rest pre post a za b zb q hs hd haq hqb
  apply trunc_between
  · have : ((min za zb : Int) : α) = min (za : α) (zb : α) := Int.cast_min
    rw [this]; exact h.1
  · have : ((max za zb : Int) : α) = max (za : α) (zb : α) := Int.cast_max
    rw [this]; exact h.2

end Floor

end Field

/-! ## B. the arithmetic of `apply_delay` (generated kernels) -/

section Kernels
variable {α : Type} [Field α] [LinearOrder α] [IsStrictOrderedRing α]

/-- a real message (`seq ≥ 0`) is received at `ts_sent + d` … -/
theorem recv_real (d : α) (m : Msg α) (h : 0 ≤ m.seq) : recvOf d m = m.sent + d := by
  have : ¬ ((m.seq : α) < 0) := by rw [Int.cast_lt_zero]; omega
  simp [recvOf, c11_recv_where, c11_recv_delayed, this]

/-- … a dummy message (`seq < 0`) keeps its original receive time. -/
theorem recv_dummy (d : α) (m : Msg α) (h : m.seq < 0) : recvOf d m = m.recv := by
  have : (m.seq : α) < 0 := by rw [Int.cast_lt_zero]; exact h
  simp [recvOf, c11_recv_where, this]

/-- variant selection: exactly "linear_real_only" (code 2) is masked, and both codes take the linear branch -/
theorem variant_codes : c11_is_real_only 1 = false ∧ c11_is_real_only 2 = true ∧
    c11_is_linear_branch 1 = true ∧ c11_is_linear_branch 2 = true ∧ c11_is_linear_branch 0 = false := by
  simp [c11_is_real_only, c11_is_linear_branch]

/-- "linear": the knots are the (delayed) receive times of *all* messages, dummies included — no mask. -/
theorem knot_linear (d : α) (m : Msg α) : knotOf 1 d m = recvOf d m := by
  simp [knotOf, c11_is_real_only, c11_mask_linear]

/-- "linear_real_only": real messages keep their delayed receive time … -/
theorem knot_real_only_real (d : α) (m : Msg α) (h : 0 ≤ m.seq) : knotOf 2 d m = m.sent + d := by
  have : ¬ ((m.seq : α) < 0) := by rw [Int.cast_lt_zero]; omega
  simp [knotOf, c11_is_real_only, c11_mask, this, recv_real d m h]

/-- … and dummy messages are moved to `-1e9`. -/
theorem knot_real_only_dummy (d : α) (m : Msg α) (h : m.seq < 0) : knotOf 2 d m = -1000000000 := by
  have : (m.seq : α) < 0 := by rw [Int.cast_lt_zero]; exact h
  simp [knotOf, c11_is_real_only, c11_mask, this]

/-- the delay is affine in the trainable parameter: `d = min + alpha * (max - min)` -/
theorem delay_affine (mn al mx : α) : delayOf mn al mx = mn + al * (mx - mn) := by
  simp [delayOf, c11_sample]

theorem delay_endpoints (mn mx : α) : delayOf mn 0 mx = mn ∧ delayOf mn 1 mx = mx := by
  simp [delayOf, c11_sample]

/-- `window = cum_window - window_delayed`, `idx_min = idx_max - window`, slice `[idx_min, idx_min + window)` -/
theorem window_arith (cum wd idxMax : Int) :
    c11_window cum wd = cum - wd ∧ c11_idx_min idxMax (c11_window cum wd) = idxMax - (cum - wd) ∧
    c11_slice_start (c11_idx_min idxMax (c11_window cum wd)) + c11_slice_size (c11_window cum wd) = idxMax := by
  simp [c11_window, c11_idx_min, c11_slice_start, c11_slice_size]

/-- `idx_max` is the number of leading slots that have arrived by `ts_start`: every slot before it has
`ts_recv ≤ ts_start`, the slot at it (if any) has `ts_recv > ts_start`. -/
theorem idxMax_spec (ts : α) (recvs : List α) :
    0 ≤ idxMax ts recvs ∧ idxMax ts recvs ≤ recvs.length ∧
    (∀ i (h : i < recvs.length), (i : Int) < idxMax ts recvs → recvs[i] ≤ ts) ∧
    (∀ i (h : i < recvs.length), (i : Int) = idxMax ts recvs → ts < recvs[i]) := by
  unfold idxMax
  cases hf : recvs.findIdx? (fun r => c11_not_arrived r ts) with
  | none =>
    dsimp only [c11_idx_fill]
    rw [List.findIdx?_eq_none_iff] at hf
    refine ⟨by omega, le_refl _, ?_, ?_⟩
    · intro i h _
      have := hf recvs[i] (List.getElem_mem h)
      simpa [c11_not_arrived] using this
    · intro i h hi; omega
  | some k =>
    rw [List.findIdx?_eq_some_iff_getElem] at hf
    obtain ⟨hk, hp, hbefore⟩ := hf
    dsimp only
    refine ⟨by omega, by omega, ?_, ?_⟩
    · intro i h hi
      have hik : i < k := by omega
      have := hbefore i hik
      simpa [c11_not_arrived] using this
    · intro i h hi
      have hik : i = k := by omega
      subst hik
      simpa [c11_not_arrived] using hp

/-- `jax.lax.dynamic_slice` returns exactly `n` elements whenever `n` fit … -/
theorem dynSlice_length {β : Type} (xs : List β) (s : Int) (n : Nat) (h : n ≤ xs.length) :
    (dynSlice xs s n).length = n := by
  simp only [dynSlice, List.length_take, List.length_drop]
  split_ifs <;> omega

/-- … and for an in-range start it is the plain slice `xs[s : s + n]`. -/
theorem dynSlice_in_range {β : Type} (xs : List β) (s : Int) (n : Nat) (h0 : 0 ≤ s) (h1 : s + n ≤ xs.length) :
    dynSlice xs s n = (xs.drop s.toNat).take n := by
  simp only [dynSlice]
  have e1 : (if s < 0 then s + (xs.length : Int) else s) = s := by rw [if_neg]; omega
  rw [e1]
  have e2 : (if s < 0 then (0 : Int) else if s > (xs.length : Int) - n then
      (if (xs.length : Int) - n < 0 then 0 else (xs.length : Int) - n) else s) = s := by
    rw [if_neg (by omega), if_neg (by omega)]
  rw [e2]

/-- the shifted query of slot `x` is `ts_start − (last − x)` … -/
theorem shift_eq (x ts last : α) : c11_shift x ts last = ts - (last - x) := by
  simp only [c11_shift]; ring

/-- … in particular the newest slot is queried at exactly `ts_start`. -/
theorem shift_last (ts last : α) : c11_shift last ts last = ts := by
  simp only [c11_shift]; ring

theorem shiftQueries_eq (ts : α) (sl : List α) (last : α) (h : sl.getLast? = some last) :
    shiftQueries ts sl = sl.map (fun x => ts - (last - x)) := by
  simp only [shiftQueries, h]
  exact List.map_congr_left (fun x _ => shift_eq x ts last)

theorem shiftQueries_last (ts : α) (sl : List α) (h : sl ≠ []) : (shiftQueries ts sl).getLast? = some ts := by
  obtain ⟨last, hl⟩ : ∃ last, sl.getLast? = some last := by
    cases hh : sl.getLast? with
    | none => exact absurd (List.getLast?_eq_none_iff.mp hh) h
    | some v => exact ⟨v, rfl⟩
  simp only [shiftQueries, hl, List.getLast?_map, Option.map_some, shift_last]

/-- **window length**: the step sees exactly `window` values (whatever the slice start). -/
theorem linear_len (interp : Nat) (d ts : α) (window : Nat) (buf : List (Msg α)) (ys : List α)
    (hw : window ≤ buf.length) : (applyLinear interp d ts window buf ys).length = window := by
  simp only [applyLinear, queries, List.length_map, c11_slice_size, Int.toNat_natCast]
  have hl : (dynSlice (buf.map fun m => c11_slice_src (knotOf interp d m))
      (c11_slice_start (c11_idx_min (idxMax ts (buf.map (recvOf d))) window)) window).length = window :=
    dynSlice_length _ _ _ (by simpa using hw)
  cases hh : (dynSlice (buf.map fun m => c11_slice_src (knotOf interp d m))
      (c11_slice_start (c11_idx_min (idxMax ts (buf.map (recvOf d))) window)) window).getLast? with
  | none =>
    have := List.getLast?_eq_none_iff.mp hh
    rw [this] at hl
    simp only [shiftQueries, hh]
    simpa using hl
  | some v => simp [shiftQueries, hh, hl]

/-- **newest entry** (`linear_newest`): for either variant, every delay, every buffer and *every* slice start, the
newest window entry is the interpolant through the knots `ts_recv_mask` evaluated at exactly `ts_start`. -/
theorem linear_newest (interp : Nat) (d ts : α) (window : Nat) (m0 : Msg α) (buf : List (Msg α)) (y0 : α) (ys : List α)
    (hw0 : 0 < window) (hw : window ≤ (m0 :: buf).length) :
    (applyLinear interp d ts window (m0 :: buf) (y0 :: ys)).getLast? =
      some (some (interp1 (knotOf interp d m0) y0 (List.zip (buf.map (knotOf interp d)) ys) ts)) := by
  have hne : dynSlice ((m0 :: buf).map fun m => c11_slice_src (knotOf interp d m))
      (c11_slice_start (c11_idx_min (idxMax ts ((m0 :: buf).map (recvOf d))) window)) window ≠ [] := by
    intro h
    have := dynSlice_length ((m0 :: buf).map fun m => c11_slice_src (knotOf interp d m))
      (c11_slice_start (c11_idx_min (idxMax ts ((m0 :: buf).map (recvOf d))) window)) window (by simpa using hw)
    rw [h] at this
    simp at this
    omega
  simp only [applyLinear, queries, List.getLast?_map, c11_slice_size, Int.toNat_natCast]
  rw [shiftQueries_last ts _ hne]
  have e : (c11_interp_vals : α → α) = id := by funext y; rfl
  simp [interpL, c11_interp_query, c11_interp_knots, e]

/-- **older entries** (`linear_older`, partial): when the slice starts in range (`window ≤ idx_max`), entry `j` is the
same interpolant evaluated at `ts_start − (x_last − x_j)` where `x` are the sliced knots `idx_max − window … idx_max − 1`
(for a sender with period `T` and all-real slots that is `ts_start − (window − 1 − j)·T`).
MISSING for full strength: the hypothesis `window ≤ idx_max` (at least `window` slots have arrived under the delay).
It is needed: `linear_older_wrap_witness` below; it holds whenever at most `E = ⌈rate·(max − min)⌉` sender outputs lie
in `(ts_start − d, ts_start − min]` (C10's spacing hypothesis). -/
theorem linear_older_partial (interp : Nat) (d ts : α) (window : Nat) (buf : List (Msg α)) (last : α)
    (hwin : (window : Int) ≤ idxMax ts (buf.map (recvOf d)))
    (hlast : (((buf.map (knotOf interp d)).drop (idxMax ts (buf.map (recvOf d)) - window).toNat).take window).getLast? = some last) :
    queries interp d ts window buf =
      (((buf.map (knotOf interp d)).drop (idxMax ts (buf.map (recvOf d)) - window).toNat).take window).map
        (fun x => ts - (last - x)) := by
  have hsp := idxMax_spec ts (buf.map (recvOf d))
  have hsl : dynSlice (buf.map fun m => c11_slice_src (knotOf interp d m))
      (c11_slice_start (c11_idx_min (idxMax ts (buf.map (recvOf d))) window)) window =
      ((buf.map (knotOf interp d)).drop (idxMax ts (buf.map (recvOf d)) - window).toNat).take window := by
    have e : (buf.map fun m => c11_slice_src (knotOf interp d m)) = buf.map (knotOf interp d) := by
      simp [c11_slice_src]
    rw [e]
    simp only [c11_slice_start, c11_idx_min]
    apply dynSlice_in_range
    · omega
    · have := hsp.2.1
      simp only [List.length_map] at this ⊢
      omega
  simp only [queries, c11_slice_size, Int.toNat_natCast]
  rw [hsl]
  exact shiftQueries_eq ts _ last hlast

/-- **signal at step time minus delay**: when all slots hold real messages the knots are `ts_sent + d`, and by the
shift law the newest entry is the sender's piecewise-linear signal (knots `ts_sent`) at `ts_start − d`.
Holds for both variants. -/
theorem linear_newest_all_real (interp : Nat) (hi : interp = 1 ∨ interp = 2) (d ts : α) (window : Nat)
    (m0 : Msg α) (buf : List (Msg α)) (y0 : α) (ys : List α)
    (hreal : ∀ m ∈ m0 :: buf, 0 ≤ m.seq) (hw0 : 0 < window) (hw : window ≤ (m0 :: buf).length) :
    (applyLinear interp d ts window (m0 :: buf) (y0 :: ys)).getLast? =
      some (some (interp1 m0.sent y0 (List.zip (buf.map (·.sent)) ys) (ts - d))) := by
  rw [linear_newest interp d ts window m0 buf y0 ys hw0 hw]
  have hk : ∀ m ∈ m0 :: buf, knotOf interp d m = m.sent + d := by
    intro m hm
    rcases hi with rfl | rfl
    · rw [knot_linear, recv_real d m (hreal m hm)]
    · exact knot_real_only_real d m (hreal m hm)
  have e0 := hk m0 (by simp)
  have e1 : List.zip (buf.map (knotOf interp d)) ys =
      (List.zip (buf.map (·.sent)) ys).map (fun p => (p.1 + d, p.2)) := by
    have : buf.map (knotOf interp d) = (buf.map (·.sent)).map (· + d) := by
      rw [List.map_map]
      exact List.map_congr_left (fun m hm => hk m (List.mem_cons_of_mem _ hm))
    rw [this, List.zip_map_left]
    rfl
  rw [e0, e1, interp_shift]

/-- **coincides with zero-order hold at a message**: if the delayed arrival of message `k` is exactly `ts_start`
(all-real buffer, strictly increasing send times), the newest entry is exactly that message's payload … -/
theorem linear_newest_at_arrival (interp : Nat) (hi : interp = 1 ∨ interp = 2) (d ts : α) (window : Nat)
    (m0 : Msg α) (buf : List (Msg α)) (y0 : α) (ys : List α) (sk yk : α)
    (hreal : ∀ m ∈ m0 :: buf, 0 ≤ m.seq) (hw0 : 0 < window) (hw : window ≤ (m0 :: buf).length)
    (hs : StrictKnots ((m0.sent, y0) :: List.zip (buf.map (·.sent)) ys))
    (hk : (sk, yk) ∈ (m0.sent, y0) :: List.zip (buf.map (·.sent)) ys) (hts : ts = sk + d) :
    (applyLinear interp d ts window (m0 :: buf) (y0 :: ys)).getLast? = some (some yk) := by
  rw [linear_newest_all_real interp hi d ts window m0 buf y0 ys hreal hw0 hw]
  have : ts - d = sk := by rw [hts]; ring
  rw [this, interp_knot m0.sent y0 _ sk yk hs hk]

/-- … and that message is the one zero-order hold returns: with strictly increasing receive times and
`ts_recv[k] = ts_start`, `idx_max = k + 1`, i.e. slot `k` is the newest arrived slot. -/
theorem idxMax_at_arrival (ts : α) (recvs : List α) (k : Nat) (hk : k < recvs.length)
    (hs : recvs.Pairwise (· < ·)) (hts : recvs[k] = ts) : idxMax ts recvs = k + 1 := by
  obtain ⟨h0, hle, hbefore, hat⟩ := idxMax_spec ts recvs
  rw [List.pairwise_iff_getElem] at hs
  have hlt : (k : Int) < idxMax ts recvs := by
    by_contra hcon
    have hI : (idxMax ts recvs).toNat < recvs.length := by omega
    have h1 := hat (idxMax ts recvs).toNat hI (by omega)
    rcases Nat.lt_or_ge (idxMax ts recvs).toNat k with hlt | hge
    · have := hs _ _ hI hk hlt
      rw [hts] at this
      exact absurd h1 (not_lt.mpr this.le)
    · have e : (idxMax ts recvs).toNat = k := by omega
      simp only [e, hts] at h1
      exact lt_irrefl _ h1
  by_contra hne
  have hk1 : k + 1 < recvs.length := by omega
  have h2 := hbefore (k + 1) hk1 (by omega)
  have h3 := hs k (k + 1) hk hk1 (by omega)
  rw [hts] at h3
  exact absurd h2 (not_le.mpr h3)

/-- **derivative w.r.t. the delay parameter, algebraic form**: for all-real knots, while `ts_start − d` stays inside
one segment `(a, b]` of the sender's signal, the seen value is affine in `alpha` with slope
`−(max − min) · (yb − ya)/(b − a)`: minus the finite-difference slope times `∂d/∂alpha`. -/
theorem linear_alpha_slope (x0 y0 : α) (rest pre post : List (α × α)) (a ya b yb ts mn mx al al' : α)
    (hs : SortedKnots ((x0, y0) :: rest))
    (hd : (x0, y0) :: rest = pre ++ (a, ya) :: (b, yb) :: post)
    (h1 : a < ts - delayOf mn al mx) (h2 : ts - delayOf mn al mx ≤ b)
    (h1' : a < ts - delayOf mn al' mx) (h2' : ts - delayOf mn al' mx ≤ b) :
    interp1 (x0 + delayOf mn al' mx) y0 (rest.map fun p => (p.1 + delayOf mn al' mx, p.2)) ts
      - interp1 (x0 + delayOf mn al mx) y0 (rest.map fun p => (p.1 + delayOf mn al mx, p.2)) ts
      = -((al' - al) * (mx - mn)) * ((yb - ya) / (b - a)) := by
  rw [interp_shift, interp_shift, interp_slope x0 y0 rest pre post a ya b yb _ _ hs hd h1 h2 h1' h2']
  simp only [delay_affine]; ring

/-! ### the `-1e9` mask of "linear_real_only" -/

/-- queries at or after the first real knot do not see the dummies at all: the interpolant over
`dummies at −M ++ real knots` equals the interpolant over the real knots only (any `M`, any dummy payloads). -/
theorem mask_ignores_dummies (M yd x1 y1 : α) (ds : List α) (rest : List (α × α)) (q : α)
    (hM : -M < q) (h1 : x1 ≤ q) :
    interp1 (-M) yd (ds.map (fun y => (-M, y)) ++ (x1, y1) :: rest) q = interp1 x1 y1 rest q := by
  induction ds generalizing yd with
  | nil => exact interp_skip (-M) yd x1 y1 rest q hM h1
  | cons y ds ih =>
    simp only [List.map_cons, List.cons_append]
    rw [interp_skip (-M) yd (-M) y _ q hM hM.le]
    exact ih y

/-- a query strictly between the mask and the first real knot lies on the line from the *last* dummy (at `−M`)
to the first real message: the value differs from that real message by the fraction `(x1 − q)/(x1 + M)` of the
payload difference (about `1e-9·(x1 − q)` of it for `M = 1e9`). -/
theorem mask_dummy_region (M yd x1 y1 : α) (ds : List α) (rest : List (α × α)) (q : α)
    (hM : -M < q) (h1 : q ≤ x1) :
    interp1 (-M) yd (ds.map (fun y => (-M, y)) ++ (x1, y1) :: rest) q
      = seg (-M) ((yd :: ds).getLast (by simp)) x1 y1 q := by
  induction ds generalizing yd with
  | nil =>
    simp only [List.map_nil, List.nil_append, List.getLast_singleton]
    rw [interp1_cons, if_neg (not_le.mpr hM)]
    by_cases hq : q < x1
    · rw [if_pos hq]
    · have e : q = x1 := le_antisymm h1 (not_lt.mp hq)
      have hne : x1 - -M ≠ 0 := sub_ne_zero.mpr (ne_of_gt (lt_of_lt_of_le hM h1))
      rw [if_neg hq, e, interp_at_head]
      simp only [seg]; field_simp; ring
  | cons y ds ih =>
    simp only [List.map_cons, List.cons_append]
    rw [interp_skip (-M) yd (-M) y _ q hM hM.le, ih y]
    simp [List.getLast_cons]

theorem mask_dummy_region_close (M yl x1 y1 q : α) (hM : -M < q) (h1 : q ≤ x1) :
    y1 - seg (-M) yl x1 y1 q = ((x1 - q) / (x1 + M)) * (y1 - yl) := by
  have hne : x1 + M ≠ 0 := by
    have : -M < x1 := lt_of_lt_of_le hM h1
    exact ne_of_gt (by linarith)
  have e : x1 - -M = x1 + M := by ring
  simp only [seg, e]; field_simp; ring

end Kernels

/-! ## C. over ℝ: continuity and the derivative with respect to the delay -/

section Real
open Filter Topology

/-- every strictly increasing knot list has a finite slope bound … -/
theorem slopeBound_mono {α : Type} [Field α] [LinearOrder α] [IsStrictOrderedRing α] (L L' : α) (hLL : L ≤ L')
    (x0 y0 : α) (rest : List (α × α)) (h : SlopeBound L x0 y0 rest) : SlopeBound L' x0 y0 rest := by
  induction rest generalizing x0 y0 with
  | nil => trivial
  | cons r rest ih =>
    obtain ⟨x1, y1⟩ := r
    obtain ⟨hx, hy, hr⟩ := h
    exact ⟨hx, le_trans hy (mul_le_mul_of_nonneg_right hLL (sub_nonneg.mpr hx)), ih x1 y1 hr⟩

theorem exists_slopeBound {α : Type} [Field α] [LinearOrder α] [IsStrictOrderedRing α]
    (x0 y0 : α) (rest : List (α × α)) (hs : StrictKnots ((x0, y0) :: rest)) :
    ∃ L, 0 ≤ L ∧ SlopeBound L x0 y0 rest := by
  induction rest generalizing x0 y0 with
  | nil => exact ⟨0, le_refl _, trivial⟩
  | cons r rest ih =>
    obtain ⟨x1, y1⟩ := r
    have hx : x0 < x1 := (List.pairwise_cons.mp hs).1 (x1, y1) (by simp)
    obtain ⟨L, hL, hb⟩ := ih x1 y1 (List.pairwise_cons.mp hs).2
    have hpos : 0 < x1 - x0 := sub_pos.mpr hx
    refine ⟨max L (|y1 - y0| / (x1 - x0)), le_trans hL (le_max_left _ _), hx.le, ?_,
      slopeBound_mono L _ (le_max_left _ _) x1 y1 rest hb⟩
    calc |y1 - y0| = |y1 - y0| / (x1 - x0) * (x1 - x0) := by field_simp
      _ ≤ max L (|y1 - y0| / (x1 - x0)) * (x1 - x0) := mul_le_mul_of_nonneg_right (le_max_right _ _) hpos.le

/-- **continuity**: the interpolant through strictly increasing knots is a continuous function of the query time … -/
theorem interp_continuous (x0 y0 : ℝ) (rest : List (ℝ × ℝ)) (hs : StrictKnots ((x0, y0) :: rest)) :
    Continuous (fun q => interp1 x0 y0 rest q) := by
  obtain ⟨L, hL, hb⟩ := exists_slopeBound x0 y0 rest hs
  have : LipschitzWith ⟨L, hL⟩ (fun q => interp1 x0 y0 rest q) :=
    LipschitzWith.of_dist_le_mul (fun q q' => by
      rw [Real.dist_eq, Real.dist_eq]
      exact interp_lipschitz L hL x0 y0 rest hb q' q)
  exact this.continuous

/-- … hence the value seen through knots `ts_sent + d` at `ts_start` **changes continuously with the delay** `d`. -/
theorem delay_continuous (x0 y0 : ℝ) (rest : List (ℝ × ℝ)) (hs : StrictKnots ((x0, y0) :: rest)) (ts : ℝ) :
    Continuous (fun d => interp1 (x0 + d) y0 (rest.map fun p => (p.1 + d, p.2)) ts) := by
  have e : (fun d => interp1 (x0 + d) y0 (rest.map fun p => (p.1 + d, p.2)) ts) =
      (fun d => interp1 x0 y0 rest (ts - d)) := by
    funext d; exact interp_shift d x0 y0 rest ts
  rw [e]
  exact (interp_continuous x0 y0 rest hs).comp (continuous_const.sub continuous_id)

/-- strictly inside a segment the interpolant is differentiable with the finite-difference slope as derivative -/
theorem interp_hasDerivAt (x0 y0 : ℝ) (rest pre post : List (ℝ × ℝ)) (a ya b yb q : ℝ)
    (hs : SortedKnots ((x0, y0) :: rest))
    (hd : (x0, y0) :: rest = pre ++ (a, ya) :: (b, yb) :: post) (haq : a < q) (hqb : q < b) :
    HasDerivAt (fun t => interp1 x0 y0 rest t) ((yb - ya) / (b - a)) q := by
  have hev : (fun t => interp1 x0 y0 rest t) =ᶠ[𝓝 q] (fun t => ya + (t - a) * ((yb - ya) / (b - a))) := by
    filter_upwards [Ioo_mem_nhds haq hqb] with t ht
    exact interp_segment x0 y0 rest pre post a ya b yb t hs hd ht.1 ht.2.le
  have hlin : HasDerivAt (fun t => ya + (t - a) * ((yb - ya) / (b - a))) ((yb - ya) / (b - a)) q := by
    have := (((hasDerivAt_id q).sub_const a).mul_const ((yb - ya) / (b - a))).const_add ya
    simpa using this
  exact hlin.congr_of_eventuallyEq hev

/-- **derivative w.r.t. the delay** = minus the finite-difference slope of the segment containing `ts_start − d` -/
theorem delay_hasDerivAt (x0 y0 : ℝ) (rest pre post : List (ℝ × ℝ)) (a ya b yb ts d0 : ℝ)
    (hs : SortedKnots ((x0, y0) :: rest))
    (hd : (x0, y0) :: rest = pre ++ (a, ya) :: (b, yb) :: post) (h1 : a < ts - d0) (h2 : ts - d0 < b) :
    HasDerivAt (fun d => interp1 (x0 + d) y0 (rest.map fun p => (p.1 + d, p.2)) ts) (-((yb - ya) / (b - a))) d0 := by
  have e : (fun d => interp1 (x0 + d) y0 (rest.map fun p => (p.1 + d, p.2)) ts) =
      (fun d => interp1 x0 y0 rest (ts - d)) := by
    funext d; exact interp_shift d x0 y0 rest ts
  rw [e]
  have h := interp_hasDerivAt x0 y0 rest pre post a ya b yb (ts - d0) hs hd h1 h2
  have hin : HasDerivAt (fun d => ts - d) (-1) d0 := by simpa using (hasDerivAt_id d0).const_sub ts
  have hc := HasDerivAt.comp d0 h hin
  simpa [Function.comp_def] using hc

/-- **derivative w.r.t. the trainable parameter `alpha`** (`d = min + alpha·(max − min)`, what `jax.grad` returns):
`−(max − min)` times the finite-difference slope. -/
theorem alpha_hasDerivAt (x0 y0 : ℝ) (rest pre post : List (ℝ × ℝ)) (a ya b yb ts mn mx al0 : ℝ)
    (hs : SortedKnots ((x0, y0) :: rest))
    (hd : (x0, y0) :: rest = pre ++ (a, ya) :: (b, yb) :: post)
    (h1 : a < ts - delayOf mn al0 mx) (h2 : ts - delayOf mn al0 mx < b) :
    HasDerivAt (fun al => interp1 (x0 + delayOf mn al mx) y0 (rest.map fun p => (p.1 + delayOf mn al mx, p.2)) ts)
      (-((yb - ya) / (b - a)) * (mx - mn)) al0 := by
  have h := delay_hasDerivAt x0 y0 rest pre post a ya b yb ts (delayOf mn al0 mx) hs hd h1 h2
  have hin : HasDerivAt (fun al => delayOf mn al mx) (mx - mn) al0 := by
    have e : (fun al => delayOf mn al mx) = (fun al => mn + al * (mx - mn)) := by
      funext al; exact delay_affine mn al mx
    rw [e]
    simpa using ((hasDerivAt_id al0).mul_const (mx - mn)).const_add mn
  have hc := HasDerivAt.comp al0 h hin
  simpa [Function.comp_def] using hc

end Real

/-! ## D. non-vacuity, concrete values and witnesses that the hypotheses are needed -/

/-- three messages 0 ↦ 0, 1/10 ↦ 1, 2/10 ↦ 3; the query 17/100 lies in the second segment -/
example : interp1 (0 : ℚ) 0 [(1/10, 1), (2/10, 3)] (17/100) = 12/5 := by
  norm_num [interp1, seg]

example : SortedKnots [((0 : ℚ), (0 : ℚ)), (1/10, 1), (2/10, 3)] ∧ StrictKnots [((0 : ℚ), (0 : ℚ)), (1/10, 1), (2/10, 3)] := by
  constructor <;> simp [SortedKnots, StrictKnots] <;> norm_num

/-- the hypotheses of `interp_segment` / `interp_between` / `interp_slope` are satisfiable -/
example : ((0 : ℚ), (0 : ℚ)) :: [(1/10, 1), (2/10, 3)] = [(0, 0)] ++ (1/10, 1) :: (2/10, 3) :: [] ∧
    (1/10 : ℚ) < 17/100 ∧ (17/100 : ℚ) ≤ 2/10 := by
  constructor
  · rfl
  · constructor <;> norm_num

/-- `interp_knot` needs *strictly* increasing knots: with a duplicated abscissa carrying two payloads the value at
the knot is the first payload, not the second. (rex's only duplicated knots are dummy messages, which all carry the
same payload.) -/
theorem interp_knot_needs_strict :
    SortedKnots [((0 : ℚ), (1 : ℚ)), (0, 2)] ∧ ((0 : ℚ), (2 : ℚ)) ∈ [((0 : ℚ), (1 : ℚ)), (0, 2)] ∧
    interp1 (0 : ℚ) 1 [(0, 2)] 0 ≠ 2 := by
  refine ⟨by simp [SortedKnots], by simp, ?_⟩
  norm_num [interp1]

/-- `linear_older_partial` needs `window ≤ idx_max`: with fewer arrived messages than `window` the slice start is negative,
`dynamic_slice` wraps/clamps, and the *older* entry is queried with the spacing of messages that have not arrived yet
(times in integer units: 4 real messages sent at 0, 10, 20, 30, delay 25, step at 30, window 2: one message has
arrived, the queries are `[20, 30]`, i.e. the slice taken is the two NEWEST slots). The newest query is still `ts_start`
(`linear_newest`). This is the situation of the C10 finding (more than `E` sender outputs inside the delay range). -/
theorem linear_older_wrap_witness :
    idxMax (30 : Int) ([⟨0, 0, 0⟩, ⟨1, 10, 10⟩, ⟨2, 20, 20⟩, ⟨3, 30, 30⟩].map (recvOf (25 : Int))) = 1 ∧
    queries 1 (25 : Int) 30 2 [⟨0, 0, 0⟩, ⟨1, 10, 10⟩, ⟨2, 20, 20⟩, ⟨3, 30, 30⟩] = [20, 30] := by
  decide

/-- the in-range situation on the same buffer (delay 5: three messages have arrived): queries `ts − T, ts`. -/
example : queries 1 (5 : Int) 30 2 [⟨0, 0, 0⟩, ⟨1, 10, 10⟩, ⟨2, 20, 20⟩, ⟨3, 30, 30⟩] = [20, 30] ∧
    idxMax (30 : Int) ([⟨0, 0, 0⟩, ⟨1, 10, 10⟩, ⟨2, 20, 20⟩, ⟨3, 30, 30⟩].map (recvOf (5 : Int))) = 3 := by
  decide

/-- "linear_real_only" while the newest arrived slot is still a dummy: the shift `ts_start − (−1e9)` cancels the mask
of *every* dummy slot, all queries are `ts_start` (exact arithmetic), and by `mask_dummy_region` every window entry is
(up to `1e-9`) the first real message although its delayed arrival `45` is after `ts_start = 30`. -/
theorem real_only_dummy_newest_witness :
    queries 2 (25 : Int) 30 2 [⟨-1, 0, 0⟩, ⟨-1, 0, 0⟩, ⟨0, 20, 20⟩, ⟨1, 30, 30⟩] = [30, 30] ∧
    queries 2 (5 : Int) 30 2 [⟨-1, 0, 0⟩, ⟨-1, 0, 0⟩, ⟨0, 20, 20⟩, ⟨1, 30, 30⟩] = [-1000000000 + 5, 30] := by
  decide

end Rex.C11
