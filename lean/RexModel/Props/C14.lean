import RexModel.Lib.PadStack

/-! # C14 — records and graphs convert, stack, pad, index, filter and convert to networkx without loss

All statements are about the definitions in `RexModel/Gen/PadStack.lean` (regenerated from `rex/base.py` and `rex/utils.py`
on every run) and the plumbing in `RexModel/Lib/PadStack.lean`. Core Lean only; theorems hold for every carrier `α` of array
entries with a lawful `==` (ints and floats alike), every type of node names `κ` with decidable equality, and all sizes. -/

namespace Rex.C14

open Rex.Gen.PadStack Rex.PadStack

set_option linter.unusedSectionVars false



/-! ## arrays -/

theorem foldl_max_ge_init (l : List Nat) (b : Nat) : b ≤ l.foldl max b := by
  induction l generalizing b with
  | nil => simp
  | cons a l ih => simp only [List.foldl_cons]; exact Nat.le_trans (Nat.le_max_left b a) (ih _)

theorem foldl_max_ge_mem (l : List Nat) (b x : Nat) (h : x ∈ l) : x ≤ l.foldl max b := by
  induction l generalizing b with
  | nil => simp at h
  | cons a l ih =>
    simp only [List.foldl_cons]
    rcases List.mem_cons.mp h with rfl | h'
    · exact Nat.le_trans (Nat.le_max_right b x) (foldl_max_ge_init l _)
    · exact ih _ h'

/-- no array is longer than `_max_len` (so the pad width is never negative) -/
theorem length_le_maxLen {β : Type} (xs : List (List β)) (a : List β) (h : a ∈ xs) : a.length ≤ maxLen xs :=
  foldl_max_ge_mem _ 0 _ (List.mem_map_of_mem h)

theorem maxLen_congr {β γ : Type} (xs : List (List β)) (ys : List (List γ))
    (h : xs.map List.length = ys.map List.length) : maxLen xs = maxLen ys := by
  simp [maxLen, h]

theorem flatMap_congr_mem {β γ : Type} (l : List β) (f g : β → List γ) (h : ∀ x ∈ l, f x = g x) :
    l.flatMap f = l.flatMap g := by
  induction l with
  | nil => rfl
  | cons a l ih =>
    simp only [List.flatMap_cons]
    rw [h a (by simp), ih (fun x hx => h x (by simp [hx]))]

theorem flatMap_append_replicate_nil {β γ : Type} (f : β → List γ) (l : List β) (n : Nat) (p : β) (hp : f p = []) :
    (l ++ List.replicate n p).flatMap f = l.flatMap f := by
  induction n with
  | zero => simp
  | succ n ih =>
    rw [List.replicate_succ', ← List.append_assoc, List.flatMap_append, ih]
    simp [hp]

theorem dropWhile_replicate_append {β : Type} (p : β → Bool) (r : β) (n : Nat) (l : List β) (hr : p r = true) :
    (List.replicate n r ++ l).dropWhile p = l.dropWhile p := by
  induction n with
  | zero => simp
  | succ n ih => simp [List.replicate_succ, hr, ih]

theorem zip3_append_replicate {β : Type} (a b c : List β) (f : β) (n : Nat) (hb : b.length = a.length) (hc : c.length = a.length) :
    List.zip (a ++ List.replicate n f) (List.zip (b ++ List.replicate n f) (c ++ List.replicate n f))
      = List.zip a (List.zip b c) ++ List.replicate n (f, f, f) := by
  rw [List.zip_append (by omega), List.zip_append (by simp; omega)]
  simp

section Stack
variable {κ : Type} {α : Type} [Neg α] [NatCast α]

/-- `_stack` pads at the END with the padding value up to the longest array and keeps the episode order -/
theorem stackLeaf_eq (xs : List (List α)) :
    stackLeaf xs = xs.map fun arr => padCol (maxLen xs - arr.length) arr := by
  simp only [stackLeaf, stackAxis, gstack_axis, padArr, gstack_pad_width, padCol]
  simp

/-- stacked leaves have one row per episode -/
theorem stackLeaf_length (xs : List (List α)) : (stackLeaf xs).length = xs.length := by
  simp [stackLeaf_eq]

/-- every row of a stacked leaf has length `_max_len` (the stacked array is rectangular) -/
theorem stackLeaf_rect (xs : List (List α)) (r : List α) (h : r ∈ stackLeaf xs) : r.length = maxLen xs := by
  rw [stackLeaf_eq] at h
  obtain ⟨a, ha, rfl⟩ := List.mem_map.mp h
  have := length_le_maxLen xs a ha
  simp [padCol]; omega

theorem stackLeaf_row (xs : List (List α)) (i : Nat) (hi : i < xs.length) :
    rowAt i (stackLeaf xs) = padCol (padAmount xs i) xs[i] := by
  simp [rowAt, ggetitem_leaf, stackLeaf_eq, padAmount, List.getD_eq_getElem?_getD, hi]

theorem stackLeaf_row_map {γ : Type} (l : List γ) (f : γ → List α) (i : Nat) (hi : i < l.length) :
    rowAt i (stackLeaf (l.map f)) = padCol (padAmount (l.map f) i) (f l[i]) := by
  rw [stackLeaf_row _ i (by simpa using hi)]
  simp

/-- `_padded_stack._pad` (records) and `_stack` (graphs) produce the same stacked leaf -/
theorem rpadLeaf_eq (xs : List (List α)) : rpadLeaf (rstack_fill : α) xs = stackLeaf xs := by
  rw [stackLeaf_eq]
  unfold rpadLeaf
  split
  · rename_i h
    simp only [allSameLen, List.all_eq_true, beq_iff_eq] at h
    conv => lhs; rw [← List.map_id xs]
    apply List.map_congr_left
    intro a ha
    simp [padCol, h a ha]
  · simp [padArr, rpad_width, rpad_fill, padCol, rstack_fill, gstack_fill]

/-- `Graph.stack` succeeds on a non-empty list -/
theorem stack_isSome (gs : List (Graph κ (List α))) (h : gs ≠ []) : ∃ G, stack gs = some G := by
  cases gs with
  | nil => exact absurd rfl h
  | cons g0 t => exact ⟨_, rfl⟩

/-- **stack, then index** (column form, no alignment needed): episode `i` of the stack has the keys of graph `i` and every
column is the original column followed by padding values only. -/
theorem stack_get_cols (gs : List (Graph κ (List α))) (G : Graph κ (List (List α))) (hG : stack gs = some G)
    (hs : SameKeys gs) (i : Nat) (hi : i < gs.length) (hv : gs[i].vkeys ≠ []) :
    ∃ g, getEp G i = some g ∧ g.vkeys = gs[i].vkeys ∧ g.ekeys = gs[i].ekeys ∧
      (∀ k, (g.v k).seq = padCol (padAmount (gs.map fun h => (h.v k).seq) i) (gs[i].v k).seq ∧
            (g.v k).tsStart = padCol (padAmount (gs.map fun h => (h.v k).tsStart) i) (gs[i].v k).tsStart ∧
            (g.v k).tsEnd = padCol (padAmount (gs.map fun h => (h.v k).tsEnd) i) (gs[i].v k).tsEnd) ∧
      (∀ k, (g.e k).seqOut = padCol (padAmount (gs.map fun h => (h.e k).seqOut) i) (gs[i].e k).seqOut ∧
            (g.e k).seqIn = padCol (padAmount (gs.map fun h => (h.e k).seqIn) i) (gs[i].e k).seqIn ∧
            (g.e k).tsRecv = padCol (padAmount (gs.map fun h => (h.e k).tsRecv) i) (gs[i].e k).tsRecv) := by
  cases gs with
  | nil => simp at hi
  | cons g0 t =>
    simp only [stack, Option.some.injEq] at hG
    subst hG
    have hk := hs g0 (by simp) ((g0 :: t)[i]) (List.getElem_mem hi)
    have hne : g0.vkeys ≠ [] := by rw [hk.1]; exact hv
    refine ⟨(⟨g0.vkeys, fun k => stackV ((g0 :: t).map (·.v k)), g0.ekeys, fun k => stackE ((g0 :: t).map (·.e k))⟩ :
        Graph κ (List (List α))).map (rowAt i), ?_, hk.1, hk.2, ?_, ?_⟩
    · simp only [getEp]
      cases hvk : g0.vkeys with
      | nil => exact absurd hvk hne
      | cons a l => simp [ggetitem_unbatched]
    · intro k
      simp only [Graph.map, Vertex.map, stackV, List.map_map, Function.comp_def]
      exact ⟨stackLeaf_row_map _ _ i hi, stackLeaf_row_map _ _ i hi, stackLeaf_row_map _ _ i hi⟩
    · intro k
      simp only [Graph.map, Edge.map, stackE, List.map_map, Function.comp_def]
      exact ⟨stackLeaf_row_map _ _ i hi, stackLeaf_row_map _ _ i hi, stackLeaf_row_map _ _ i hi⟩

theorem padAmount_congr {γ : Type} (l : List γ) (f f' : γ → List α) (i : Nat)
    (h : ∀ x ∈ l, (f' x).length = (f x).length) : padAmount (l.map f') i = padAmount (l.map f) i := by
  have hm : (l.map f').map List.length = (l.map f).map List.length := by
    simp only [List.map_map]
    exact List.map_congr_left (fun x hx => by simp [h x hx])
  unfold padAmount
  rw [maxLen_congr _ _ hm]
  congr 1
  by_cases hi : i < l.length
  · simp [List.getD_eq_getElem?_getD, hi, h _ (List.getElem_mem hi)]
  · simp [List.getD_eq_getElem?_getD, hi]

/-- **stack, then index**: for aligned graphs, episode `i` of the stack *is* graph `i` with trailing padding rows. -/
theorem stack_get (gs : List (Graph κ (List α))) (G : Graph κ (List (List α))) (hG : stack gs = some G)
    (hs : SameKeys gs) (ha : ∀ g ∈ gs, g.Aligned) (i : Nat) (hi : i < gs.length) (hv : gs[i].vkeys ≠ []) :
    ∃ g, getEp G i = some g ∧ PadOf gs[i] g := by
  obtain ⟨g, hg, hvk, hek, hV, hE⟩ := stack_get_cols gs G hG hs i hi hv
  refine ⟨g, hg, hvk, hek, ?_, ?_⟩
  · intro k hk
    refine ⟨padAmount (gs.map fun h => (h.v k).seq) i, ?_⟩
    obtain ⟨h1, h2, h3⟩ := hV k
    have al : ∀ x ∈ gs, (x.v k).Aligned := fun x hx => (ha x hx).1 k (by rw [(hs x hx _ (List.getElem_mem hi)).1]; exact hk)
    rw [padAmount_congr gs (fun h => (h.v k).seq) (fun h => (h.v k).tsStart) i (fun x hx => (al x hx).1)] at h2
    rw [padAmount_congr gs (fun h => (h.v k).seq) (fun h => (h.v k).tsEnd) i (fun x hx => (al x hx).2)] at h3
    cases hgk : g.v k
    simp_all [Vertex.pad]
  · intro k hk
    refine ⟨padAmount (gs.map fun h => (h.e k).seqOut) i, ?_⟩
    obtain ⟨h1, h2, h3⟩ := hE k
    have al : ∀ x ∈ gs, (x.e k).Aligned := fun x hx => (ha x hx).2 k (by rw [(hs x hx _ (List.getElem_mem hi)).2]; exact hk)
    rw [padAmount_congr gs (fun h => (h.e k).seqOut) (fun h => (h.e k).seqIn) i (fun x hx => (al x hx).1)] at h2
    rw [padAmount_congr gs (fun h => (h.e k).seqOut) (fun h => (h.e k).tsRecv) i (fun x hx => (al x hx).2)] at h3
    cases hgk : g.e k
    simp_all [Edge.pad]

/-- **`len` of a stack** is the number of stacked graphs -/
theorem stack_len (gs : List (Graph κ (List α))) (G : Graph κ (List (List α))) (hG : stack gs = some G)
    (hv : ∀ g ∈ gs, g.vkeys ≠ []) : lenStacked G = some (gs.length : Nat) := by
  cases gs with
  | nil => simp [stack] at hG
  | cons g0 t =>
    simp only [stack, Option.some.injEq] at hG
    subst hG
    have := hv g0 (by simp)
    cases hvk : g0.vkeys with
    | nil => exact absurd hvk this
    | cons a l => simp [lenStacked, glen_batched, glen_then, stackV, stackLeaf_length]

/-- `len` of a single-episode graph is 1 -/
theorem len_single (g : Graph κ (List α)) (hv : g.vkeys ≠ []) : lenSingle g = some 1 := by
  cases hvk : g.vkeys with
  | nil => exact absurd hvk hv
  | cons a l => simp [lenSingle, hvk, glen_batched, glen_else]

end Stack







section Unpad
variable {κ : Type} {α : Type} [Neg α] [NatCast α] [BEq α] [LawfulBEq α]

theorem isPadRow_fill : isPadRow ((gstack_fill : α), (gstack_fill : α), (gstack_fill : α)) = true := by
  simp [isPadRow]

theorem keepLen_pad (a b c : List α) (n : Nat) (hb : b.length = a.length) (hc : c.length = a.length) :
    keepLen (padCol n a) (padCol n b) (padCol n c) = keepLen a b c := by
  simp only [keepLen, padCol]
  rw [zip3_append_replicate a b c _ n hb hc, List.reverse_append, List.reverse_replicate,
    dropWhile_replicate_append _ _ _ _ isPadRow_fill]

theorem keepLen_le (a b c : List α) : keepLen a b c ≤ a.length := by
  unfold keepLen
  refine Nat.le_trans (List.dropWhile_suffix _).length_le ?_
  simp [List.length_zip]; omega

theorem take_padCol (a : List α) (n m : Nat) (h : m ≤ a.length) : (padCol n a).take m = a.take m := by
  simp [padCol, List.take_append_of_le_length h]

/-- dropping the trailing padding rows of a padded vertex gives what dropping them from the original gives -/
theorem Vertex.unpad_pad (v : Vertex (List α)) (hv : v.Aligned) (n : Nat) : (v.pad n).unpad = v.unpad := by
  simp only [Vertex.unpad, Vertex.pad, Vertex.map]
  rw [keepLen_pad _ _ _ _ hv.1 hv.2]
  have h := keepLen_le v.seq v.tsStart v.tsEnd
  rw [take_padCol _ _ _ h, take_padCol _ _ _ (by rw [hv.1]; exact h), take_padCol _ _ _ (by rw [hv.2]; exact h)]

theorem Edge.unpad_pad (e : Edge (List α)) (he : e.Aligned) (n : Nat) : (e.pad n).unpad = e.unpad := by
  simp only [Edge.unpad, Edge.pad, Edge.map]
  rw [keepLen_pad _ _ _ _ he.1 he.2]
  have h := keepLen_le e.seqOut e.seqIn e.tsRecv
  rw [take_padCol _ _ _ h, take_padCol _ _ _ (by rw [he.1]; exact h), take_padCol _ _ _ (by rw [he.2]; exact h)]

/-- a vertex whose last row is a real step is unchanged by `unpad` -/
theorem Vertex.unpad_clean (v : Vertex (List α)) (hv : v.Aligned)
    (hlast : ∀ r, (List.zip v.seq (List.zip v.tsStart v.tsEnd)).getLast? = some r → isPadRow r = false) : v.unpad = v := by
  have hk : keepLen v.seq v.tsStart v.tsEnd = v.seq.length := by
    unfold keepLen
    generalize hz : List.zip v.seq (List.zip v.tsStart v.tsEnd) = z at hlast
    have hzl : z.length = v.seq.length := by rw [← hz]; simp [List.length_zip, hv.1, hv.2]
    rw [← hzl]
    cases hr : z.reverse with
    | nil => simp [List.reverse_eq_nil_iff.mp hr]
    | cons r t =>
      have : z.getLast? = some r := by rw [List.getLast?_eq_head?_reverse, hr]; rfl
      rw [List.dropWhile_cons, hlast r this]
      simp [← hr]
  cases v with
  | mk a b c =>
    simp only [Vertex.unpad, Vertex.map] at *
    rw [hk]
    simp only [Vertex.Aligned] at hv
    rw [List.take_of_length_le (Nat.le_refl _), List.take_of_length_le (by omega), List.take_of_length_le (by omega)]

/-- an edge whose last row is a real message (sent: `seq_out ≠ -1`, even if never received) is unchanged by `unpad` -/
theorem Edge.unpad_clean (e : Edge (List α)) (he : e.Aligned)
    (hlast : ∀ r, (List.zip e.seqOut (List.zip e.seqIn e.tsRecv)).getLast? = some r → isPadRow r = false) : e.unpad = e := by
  have hk : keepLen e.seqOut e.seqIn e.tsRecv = e.seqOut.length := by
    unfold keepLen
    generalize hz : List.zip e.seqOut (List.zip e.seqIn e.tsRecv) = z at hlast
    have hzl : z.length = e.seqOut.length := by rw [← hz]; simp [List.length_zip, he.1, he.2]
    rw [← hzl]
    cases hr : z.reverse with
    | nil => simp [List.reverse_eq_nil_iff.mp hr]
    | cons r t =>
      have : z.getLast? = some r := by rw [List.getLast?_eq_head?_reverse, hr]; rfl
      rw [List.dropWhile_cons, hlast r this]
      simp [← hr]
  cases e with
  | mk a b c =>
    simp only [Edge.unpad, Edge.map] at *
    rw [hk]
    simp only [Edge.Aligned] at he
    rw [List.take_of_length_le (Nat.le_refl _), List.take_of_length_le (by omega), List.take_of_length_le (by omega)]

end Unpad






theorem mem_zip3 {β : Type} (a b c : List β) (r : β × β × β) :
    r ∈ List.zip a (List.zip b c) ↔ ∃ i : Nat, a[i]? = some r.1 ∧ b[i]? = some r.2.1 ∧ c[i]? = some r.2.2 := by
  simp [List.mem_iff_getElem?, List.getElem?_zip_eq_some]

section Nx
variable {κ : Type} {α : Type} [Sub α] [Neg α] [LT α] [DecidableLT α] [BEq α] [NatCast α] [LawfulBEq α]

theorem vertexRowOps_fill (n : κ) : vertexRowOps n ((gstack_fill : α), (gstack_fill : α), (gstack_fill : α)) = [] := by
  simp [vertexRowOps, nx_vertex_skip, gstack_fill]

theorem edgeRowOps_fill (n1 n2 : κ) : edgeRowOps n1 n2 ((gstack_fill : α), (gstack_fill : α), (gstack_fill : α)) = [] := by
  simp [edgeRowOps, nx_edge_skip, gstack_fill]

theorem vertexOps_pad (n : κ) (v : Vertex (List α)) (hv : v.Aligned) (m : Nat) : vertexOps n (v.pad m) = vertexOps n v := by
  simp only [vertexOps, nx_vertex_zip, Vertex.pad, padCol]
  rw [zip3_append_replicate _ _ _ _ _ hv.1 hv.2, flatMap_append_replicate_nil _ _ _ _ (vertexRowOps_fill n)]

theorem edgeOps_pad (n1 n2 : κ) (e : Edge (List α)) (he : e.Aligned) (m : Nat) : edgeOps n1 n2 (e.pad m) = edgeOps n1 n2 e := by
  simp only [edgeOps, nx_edge_zip, Edge.pad, padCol]
  rw [zip3_append_replicate _ _ _ _ _ he.1 he.2, flatMap_append_replicate_nil _ _ _ _ (edgeRowOps_fill n1 n2)]

/-- **padding is invisible to networkx**: appending padding rows to any vertices / edges of an aligned graph does not change
a single `add_node` / `add_edge` call of `to_networkx_graph`. -/
theorem toNx_pad (g g' : Graph κ (List α)) (hg : g.Aligned) (h : PadOf g g') : toNx g' = toNx g := by
  obtain ⟨hv, he, hV, hE⟩ := h
  simp only [toNx, hv, he]
  congr 1
  · apply flatMap_congr_mem
    intro n hn
    obtain ⟨m, hm⟩ := hV n hn
    rw [hm, vertexOps_pad _ _ (hg.1 n hn)]
  · apply flatMap_congr_mem
    intro k hk
    obtain ⟨m, hm⟩ := hE k hk
    rw [hm, edgeOps_pad _ _ _ (hg.2 k hk)]

/-- the special case of `Graph.pad` -/
theorem toNx_pad_graph (g : Graph κ (List α)) (hg : g.Aligned) (nv : κ → Nat) (ne : κ × κ → Nat) :
    toNx (g.pad nv ne) = toNx g :=
  toNx_pad g _ hg ⟨rfl, rfl, fun k _ => ⟨nv k, rfl⟩, fun k _ => ⟨ne k, rfl⟩⟩

theorem mem_vertexRowOps_node (n : κ) (r : α × α × α) (id : κ × α) (s ts te : α) :
    NxOp.node id s ts te ∈ vertexRowOps n r ↔ r.1 ≠ -(Nat.cast 1 : α) ∧ id = (n, r.1) ∧ s = r.1 ∧ ts = r.2.1 ∧ te = r.2.2 := by
  have hne : (r.1 ≠ -(Nat.cast 1 : α)) ↔ nx_vertex_skip r.1 = false := by simp [nx_vertex_skip]
  rw [hne]
  cases hsk : nx_vertex_skip r.1 <;> cases hp : nx_has_pred r.1 <;>
    simp [vertexRowOps, hsk, hp, nx_vname, nx_node_id, nx_node_seq, nx_node_ts_start, nx_node_ts_end]

theorem mem_vertexRowOps_sedge (n : κ) (r : α × α × α) (u w : κ × α) :
    NxOp.sedge u w ∈ vertexRowOps n r ↔
      r.1 ≠ -(Nat.cast 1 : α) ∧ r.1 > (Nat.cast 0 : α) ∧ u = (n, r.1 - (Nat.cast 1 : α)) ∧ w = (n, r.1) := by
  have hne : (r.1 ≠ -(Nat.cast 1 : α)) ↔ nx_vertex_skip r.1 = false := by simp [nx_vertex_skip]
  have hgt : (r.1 > (Nat.cast 0 : α)) ↔ nx_has_pred r.1 = true := by simp [nx_has_pred]
  rw [hne, hgt]
  cases hsk : nx_vertex_skip r.1 <;> cases hp : nx_has_pred r.1 <;>
    simp [vertexRowOps, hsk, hp, nx_vname, nx_uname, nx_sedge_src, nx_sedge_dst]

theorem not_mem_vertexRowOps_medge (n : κ) (r : α × α × α) (u w : κ × α) (t : α) : NxOp.medge u w t ∉ vertexRowOps n r := by
  cases hsk : nx_vertex_skip r.1 <;> cases hp : nx_has_pred r.1 <;> simp [vertexRowOps, hsk, hp]

theorem mem_edgeRowOps_medge (n1 n2 : κ) (r : α × α × α) (u w : κ × α) (t : α) :
    NxOp.medge u w t ∈ edgeRowOps n1 n2 r ↔
      r.1 ≠ -(Nat.cast 1 : α) ∧ r.2.1 ≠ -(Nat.cast 1 : α) ∧ u = (n1, r.1) ∧ w = (n2, r.2.1) ∧ t = r.2.2 := by
  have hne : (r.1 ≠ -(Nat.cast 1 : α) ∧ r.2.1 ≠ -(Nat.cast 1 : α)) ↔ nx_edge_skip r.1 r.2.1 = false := by
    simp [nx_edge_skip]
  rw [← and_assoc, hne]
  cases hsk : nx_edge_skip r.1 r.2.1 <;>
    simp [edgeRowOps, hsk, nx_u, nx_v, nx_medge_src, nx_medge_dst, nx_medge_ts_recv]

theorem not_mem_edgeRowOps_node (n1 n2 : κ) (r : α × α × α) (id : κ × α) (s ts te : α) : NxOp.node id s ts te ∉ edgeRowOps n1 n2 r := by
  cases hsk : nx_edge_skip r.1 r.2.1 <;> simp [edgeRowOps, hsk]

theorem not_mem_edgeRowOps_sedge (n1 n2 : κ) (r : α × α × α) (u w : κ × α) : NxOp.sedge u w ∉ edgeRowOps n1 n2 r := by
  cases hsk : nx_edge_skip r.1 r.2.1 <;> simp [edgeRowOps, hsk]

/-- **vertices are preserved exactly**: `add_node` is called for precisely the rows whose `seq` is not `-1`, with that row's times. -/
theorem toNx_nodes (g : Graph κ (List α)) (id : κ × α) (s ts te : α) :
    NxOp.node id s ts te ∈ toNx g ↔
      ∃ n ∈ g.vkeys, ∃ i : Nat, (g.v n).seq[i]? = some s ∧ (g.v n).tsStart[i]? = some ts ∧ (g.v n).tsEnd[i]? = some te ∧
        s ≠ -(Nat.cast 1 : α) ∧ id = (n, s) := by
  simp only [toNx, List.mem_append, List.mem_flatMap, vertexOps, edgeOps, nx_vertex_zip, nx_edge_zip, mem_zip3,
    mem_vertexRowOps_node, not_mem_edgeRowOps_node]
  constructor
  · rintro (⟨n, hn, r, ⟨i, h1, h2, h3⟩, hs, rfl, rfl, rfl, rfl⟩ | ⟨k, hk, r, _, hr⟩)
    · exact ⟨n, hn, i, h1, h2, h3, hs, rfl⟩
    · exact absurd hr (by simp)
  · rintro ⟨n, hn, i, h1, h2, h3, hs, rfl⟩
    exact Or.inl ⟨n, hn, (s, ts, te), ⟨i, h1, h2, h3⟩, hs, rfl, rfl, rfl, rfl⟩

/-- **stateful edges**: exactly one edge `(kind, seq-1) → (kind, seq)` per executed row with `seq > 0`. -/
theorem toNx_sedges (g : Graph κ (List α)) (u w : κ × α) :
    NxOp.sedge u w ∈ toNx g ↔
      ∃ n ∈ g.vkeys, ∃ (i : Nat) (s : α), (g.v n).seq[i]? = some s ∧ (g.v n).tsStart[i]?.isSome ∧ (g.v n).tsEnd[i]?.isSome ∧
        s ≠ -(Nat.cast 1 : α) ∧ s > (Nat.cast 0 : α) ∧ u = (n, s - (Nat.cast 1 : α)) ∧ w = (n, s) := by
  simp only [toNx, List.mem_append, List.mem_flatMap, vertexOps, edgeOps, nx_vertex_zip, nx_edge_zip, mem_zip3,
    mem_vertexRowOps_sedge, not_mem_edgeRowOps_sedge]
  constructor
  · rintro (⟨n, hn, r, ⟨i, h1, h2, h3⟩, hs, hp, rfl, rfl⟩ | ⟨k, hk, r, _, hr⟩)
    · exact ⟨n, hn, i, r.1, h1, by simp [h2], by simp [h3], hs, hp, rfl, rfl⟩
    · exact absurd hr (by simp)
  · rintro ⟨n, hn, i, s, h1, h2, h3, hs, hp, rfl, rfl⟩
    obtain ⟨ts, h2⟩ := Option.isSome_iff_exists.mp h2
    obtain ⟨te, h3⟩ := Option.isSome_iff_exists.mp h3
    exact Or.inl ⟨n, hn, (s, ts, te), ⟨i, h1, h2, h3⟩, hs, hp, rfl, rfl⟩

/-- **message edges are preserved exactly**: `add_edge(out_seqout, in_seqin, ts_recv)` for precisely the message rows in which
neither sequence number is `-1`, with that row's receive time. -/
theorem toNx_medges (g : Graph κ (List α)) (u w : κ × α) (t : α) :
    NxOp.medge u w t ∈ toNx g ↔
      ∃ k ∈ g.ekeys, ∃ (i : Nat) (so si : α), (g.e k).seqOut[i]? = some so ∧ (g.e k).seqIn[i]? = some si ∧ (g.e k).tsRecv[i]? = some t ∧
        so ≠ -(Nat.cast 1 : α) ∧ si ≠ -(Nat.cast 1 : α) ∧ u = (k.1, so) ∧ w = (k.2, si) := by
  simp only [toNx, List.mem_append, List.mem_flatMap, vertexOps, edgeOps, nx_vertex_zip, nx_edge_zip, mem_zip3,
    mem_edgeRowOps_medge, not_mem_vertexRowOps_medge]
  constructor
  · rintro (⟨n, hn, r, _, hr⟩ | ⟨k, hk, r, ⟨i, h1, h2, h3⟩, hs1, hs2, rfl, rfl, rfl⟩)
    · exact absurd hr (by simp)
    · exact ⟨k, hk, i, r.1, r.2.1, h1, h2, h3, hs1, hs2, rfl, rfl⟩
  · rintro ⟨k, hk, i, so, si, h1, h2, h3, hs1, hs2, rfl, rfl⟩
    exact Or.inr ⟨k, hk, (so, si, t), ⟨i, h1, h2, h3⟩, hs1, hs2, rfl, rfl, rfl⟩

end Nx



section Main
variable {κ : Type} {α : Type} [Sub α] [Neg α] [LT α] [DecidableLT α] [BEq α] [NatCast α] [LawfulBEq α]

/-- **stack, index, convert**: the networkx graph of episode `i` of a stack is the networkx graph of graph `i` — padded entries
never create or alter a vertex or an edge. -/
theorem toNx_stack_get (gs : List (Graph κ (List α))) (G : Graph κ (List (List α))) (hG : stack gs = some G)
    (hs : SameKeys gs) (ha : ∀ g ∈ gs, g.Aligned) (i : Nat) (hi : i < gs.length) (hv : gs[i].vkeys ≠ []) :
    ∃ g, getEp G i = some g ∧ toNx g = toNx gs[i] := by
  obtain ⟨g, hg, hp⟩ := stack_get gs G hG hs ha i hi hv
  exact ⟨g, hg, toNx_pad _ _ (ha _ (List.getElem_mem hi)) hp⟩

/-- **an episode extracted from a stack equals the original episode** once trailing padding rows are dropped on both sides -/
theorem unpad_stack_get (gs : List (Graph κ (List α))) (G : Graph κ (List (List α))) (hG : stack gs = some G)
    (hs : SameKeys gs) (ha : ∀ g ∈ gs, g.Aligned) (i : Nat) (hi : i < gs.length) (hv : gs[i].vkeys ≠ []) :
    ∃ g, getEp G i = some g ∧ g.unpad.vkeys = gs[i].unpad.vkeys ∧ g.unpad.ekeys = gs[i].unpad.ekeys ∧
      (∀ k ∈ gs[i].vkeys, g.unpad.v k = gs[i].unpad.v k) ∧ (∀ k ∈ gs[i].ekeys, g.unpad.e k = gs[i].unpad.e k) := by
  obtain ⟨g, hg, hvk, hek, hV, hE⟩ := stack_get gs G hG hs ha i hi hv
  have hal := ha _ (List.getElem_mem hi)
  refine ⟨g, hg, hvk, hek, fun k hk => ?_, fun k hk => ?_⟩
  · obtain ⟨n, hn⟩ := hV k hk
    simp only [Graph.unpad, hn]
    exact Vertex.unpad_pad _ (hal.1 k hk) n
  · obtain ⟨n, hn⟩ := hE k hk
    simp only [Graph.unpad, hn]
    exact Edge.unpad_pad _ (hal.2 k hk) n

/-- **an episode extracted from a stack equals the original episode**: for every vertex / edge of graph `i` that does not itself
end in an all-`-1` row, dropping the trailing padding rows of the extracted episode gives back exactly the original columns. -/
theorem stack_get_exact (gs : List (Graph κ (List α))) (G : Graph κ (List (List α))) (hG : stack gs = some G)
    (hs : SameKeys gs) (ha : ∀ g ∈ gs, g.Aligned) (i : Nat) (hi : i < gs.length) (hv : gs[i].vkeys ≠ []) :
    ∃ g, getEp G i = some g ∧ g.vkeys = gs[i].vkeys ∧ g.ekeys = gs[i].ekeys ∧
      (∀ k ∈ gs[i].vkeys,
        (∀ r, (List.zip (gs[i].v k).seq (List.zip (gs[i].v k).tsStart (gs[i].v k).tsEnd)).getLast? = some r → isPadRow r = false) →
        (g.v k).unpad = gs[i].v k) ∧
      (∀ k ∈ gs[i].ekeys,
        (∀ r, (List.zip (gs[i].e k).seqOut (List.zip (gs[i].e k).seqIn (gs[i].e k).tsRecv)).getLast? = some r → isPadRow r = false) →
        (g.e k).unpad = gs[i].e k) := by
  obtain ⟨g, hg, hvk, hek, hV, hE⟩ := stack_get gs G hG hs ha i hi hv
  have hal := ha _ (List.getElem_mem hi)
  refine ⟨g, hg, hvk, hek, fun k hk hc => ?_, fun k hk hc => ?_⟩
  · obtain ⟨n, hn⟩ := hV k hk
    rw [hn, Vertex.unpad_pad _ (hal.1 k hk) n]
    exact Vertex.unpad_clean _ (hal.1 k hk) hc
  · obtain ⟨n, hn⟩ := hE k hk
    rw [hn, Edge.unpad_pad _ (hal.2 k hk) n]
    exact Edge.unpad_clean _ (hal.2 k hk) hc

end Main

section Filter
variable {κ : Type} [DecidableEq κ] {C : Type}

theorem mem_gfilterConns_true (g : Graph κ C) (s : Sel κ) (a b : κ) :
    (a, b) ∈ gfilterConns g s true ↔ a ∈ s.names ∧ b ∈ s.names ∧ a ∈ s.inputs b := by
  simp only [gfilterConns, gfilter_flag, gfilter_in_nodes_e, gfilter_add_e, List.mem_flatMap, if_true]
  constructor
  · rintro ⟨n2, h2, n1, h1, h⟩
    by_cases hn : n1 ∈ s.names
    · simp [hn] at h
      obtain ⟨rfl, rfl⟩ := h
      exact ⟨hn, h2, h1⟩
    · simp [hn] at h
  · rintro ⟨ha, hb, hi⟩
    exact ⟨b, hb, a, hi, by simp [ha]⟩

theorem mem_gfilterConns_false (g : Graph κ C) (s : Sel κ) (a b : κ) :
    (a, b) ∈ gfilterConns g s false ↔ a ∈ s.names ∧ b ∈ s.names ∧ b ∈ g.vkeys ∧ (a, b) ∈ g.ekeys := by
  simp only [gfilterConns, gfilter_flag, gfilter_dst_present, gfilter_edge_into, gfilter_in_nodes_v, gfilter_add_v,
    List.mem_flatMap, Bool.false_eq_true, if_false]
  constructor
  · rintro ⟨n2, h2, h⟩
    by_cases hv : n2 ∈ g.vkeys
    · simp only [hv, decide_true, if_true, List.mem_flatMap, List.mem_filter] at h
      obtain ⟨x, ⟨hx, hxb⟩, h⟩ := h
      by_cases hn : x.1 ∈ s.names
      · simp [hn] at h
        obtain ⟨rfl, rfl⟩ := h
        have : x.2 = b := by simpa using hxb
        subst this
        exact ⟨hn, h2, hv, hx⟩
      · simp [hn] at h
    · simp [hv] at h
  · rintro ⟨ha, hb, hv, he⟩
    refine ⟨b, hb, ?_⟩
    simp only [hv, decide_true, if_true, List.mem_flatMap, List.mem_filter]
    exact ⟨(a, b), ⟨he, by simp⟩, by simp [ha]⟩

/-- **filter keeps exactly the selected vertices** (both flag values) -/
theorem gfilter_vertices (g : Graph κ C) (s : Sel κ) (flag : Bool) (k : κ) :
    k ∈ (gfilter g s flag).vkeys ↔ k ∈ g.vkeys ∧ k ∈ s.names := by
  simp [gfilter, gfilter_pop_vertex]

/-- **filter_edges=True** keeps exactly the edges of the graph whose endpoints are both selected and that are listed as an
input (by *input name*) of the selected receiving node object -/
theorem gfilter_edges_true (g : Graph κ C) (s : Sel κ) (a b : κ) :
    (a, b) ∈ (gfilter g s true).ekeys ↔ (a, b) ∈ g.ekeys ∧ a ∈ s.names ∧ b ∈ s.names ∧ a ∈ s.inputs b := by
  simp [gfilter, gfilter_pop_edge, mem_gfilterConns_true]

/-- **filter_edges=False** keeps exactly the edges of the graph between selected vertices (whose receiver is a vertex of the graph) -/
theorem gfilter_edges_false (g : Graph κ C) (s : Sel κ) (a b : κ) :
    (a, b) ∈ (gfilter g s false).ekeys ↔ (a, b) ∈ g.ekeys ∧ a ∈ s.names ∧ b ∈ s.names ∧ b ∈ g.vkeys := by
  simp only [gfilter, gfilter_pop_edge, List.mem_filter, mem_gfilterConns_false]
  simp
  exact fun h _ _ _ => h

/-- on a closed graph `filter_edges=False` keeps precisely the connections among the selected nodes -/
theorem gfilter_edges_false_closed (g : Graph κ C) (hc : g.Closed) (s : Sel κ) (a b : κ) :
    (a, b) ∈ (gfilter g s false).ekeys ↔ (a, b) ∈ g.ekeys ∧ a ∈ s.names ∧ b ∈ s.names := by
  rw [gfilter_edges_false]
  constructor
  · rintro ⟨h1, h2, h3, _⟩; exact ⟨h1, h2, h3⟩
  · rintro ⟨h1, h2, h3⟩; exact ⟨h1, h2, h3, (hc _ h1).2⟩

/-- **no dangling edges**: the filtered graph of a closed graph is closed (every kept edge joins two kept vertices), for both flags -/
theorem gfilter_closed (g : Graph κ C) (hc : g.Closed) (s : Sel κ) (flag : Bool) : (gfilter g s flag).Closed := by
  rintro ⟨a, b⟩ hx
  have hab : (a, b) ∈ g.ekeys ∧ a ∈ s.names ∧ b ∈ s.names := by
    cases flag
    · exact ((gfilter_edges_false_closed g hc s a b).mp hx)
    · have := (gfilter_edges_true g s a b).mp hx; exact ⟨this.1, this.2.1, this.2.2.1⟩
  have := hc _ hab.1
  exact ⟨(gfilter_vertices g s flag a).mpr ⟨this.1, hab.2.1⟩, (gfilter_vertices g s flag b).mpr ⟨this.2, hab.2.2⟩⟩

/-- filtering never touches the data of a kept vertex / edge, and keeps the dict order -/
theorem gfilter_data (g : Graph κ C) (s : Sel κ) (flag : Bool) :
    (gfilter g s flag).v = g.v ∧ (gfilter g s flag).e = g.e ∧
    (gfilter g s flag).vkeys.Sublist g.vkeys ∧ (gfilter g s flag).ekeys.Sublist g.ekeys :=
  ⟨rfl, rfl, List.filter_sublist, List.filter_sublist⟩

/-- filtering looks at keys only, so it commutes with every leafwise map (stacking, indexing an episode, padding) -/
theorem gfilter_map {D : Type} (f : C → D) (g : Graph κ C) (s : Sel κ) (flag : Bool) :
    gfilter (g.map f) s flag = (gfilter g s flag).map f := rfl

/-! filtering is idempotent: filtering a filtered graph again with the same selection changes nothing (keys, order and data) -/

theorem gfilter_idem_vertices (g : Graph κ C) (s : Sel κ) (flag : Bool) :
    (gfilter (gfilter g s flag) s flag).vkeys = (gfilter g s flag).vkeys := by
  simp [gfilter, List.filter_filter]

theorem gfilter_idem_edges (g : Graph κ C) (hc : g.Closed) (s : Sel κ) (flag : Bool) :
    (gfilter (gfilter g s flag) s flag).ekeys = (gfilter g s flag).ekeys := by
  have hcl := gfilter_closed g hc s flag
  show List.filter _ (gfilter g s flag).ekeys = _
  rw [List.filter_eq_self]
  rintro ⟨a, b⟩ hx
  have hmem : (a, b) ∈ (gfilter (gfilter g s flag) s flag).ekeys := by
    cases flag
    · rw [gfilter_edges_false_closed _ hcl]
      have := (gfilter_edges_false_closed g hc s a b).mp hx
      exact ⟨hx, this.2.1, this.2.2⟩
    · rw [gfilter_edges_true]
      have := (gfilter_edges_true g s a b).mp hx
      exact ⟨hx, this.2.1, this.2.2.1, this.2.2.2⟩
  exact (List.mem_filter.mp hmem).2

theorem gfilter_idem (g : Graph κ C) (hc : g.Closed) (s : Sel κ) (flag : Bool) :
    gfilter (gfilter g s flag) s flag = gfilter g s flag := by
  have h1 := gfilter_idem_vertices g s flag
  have h2 := gfilter_idem_edges g hc s flag
  have hv : (gfilter (gfilter g s flag) s flag).v = (gfilter g s flag).v := rfl
  have he : (gfilter (gfilter g s flag) s flag).e = (gfilter g s flag).e := rfl
  cases hA : gfilter (gfilter g s flag) s flag
  cases hB : gfilter g s flag
  simp_all

end Filter



theorem lookupLast_of_functional {K V : Type} [DecidableEq K] (l : List (K × V)) (k : K) (x : V)
    (hex : ∃ p ∈ l, p.1 = k) (hfun : ∀ p ∈ l, p.1 = k → p.2 = x) : lookupLast l k = some x := by
  unfold lookupLast
  cases hf : l.reverse.find? (fun p => p.1 == k) with
  | none =>
    rw [List.find?_eq_none] at hf
    obtain ⟨p, hp, hk⟩ := hex
    exact absurd (by simpa using hk) (hf p (by simpa using hp))
  | some p =>
    have hm := List.mem_of_find?_eq_some hf
    have hk := List.find?_some hf
    simp [hfun p (by simpa using hm) (by simpa using hk)]

section Rec
variable {κ : Type} [DecidableEq κ] {C : Type}


theorem mem_toGraphEdges (r : Record κ C) (k : κ × κ) (e : Edge C) :
    (k, e) ∈ toGraphEdges r ↔ k.2 ∈ r.nkeys ∧ k.1 ∈ r.ikeys k.2 ∧ e = edgeOfMsgs (r.msgs k) := by
  obtain ⟨a, b⟩ := k
  simp only [toGraphEdges, tg_edge_key, tg_seq_in, tg_seq_out, tg_ts_recv, tg_edge_seq_out, tg_edge_seq_in, tg_edge_ts_recv,
    List.mem_flatMap, List.mem_map, Prod.mk.injEq, edgeOfMsgs]
  constructor
  · rintro ⟨n2, h2, n1, h1, ⟨rfl, rfl⟩, rfl⟩
    exact ⟨h2, h1, rfl⟩
  · rintro ⟨h2, h1, rfl⟩
    exact ⟨b, h2, a, h1, ⟨rfl, rfl⟩, rfl⟩

/-- **to_graph, vertices**: one vertex per recorded node, carrying exactly the recorded `seq`, `ts_start`, `ts_end` -/
theorem toGraph_vertices (d : Edge C) (r : Record κ C) :
    (toGraph d r).vkeys = r.nkeys ∧ ∀ n, (toGraph d r).v n = r.steps n := by
  refine ⟨rfl, fun n => ?_⟩
  simp [toGraph, tg_vertex_seq, tg_vertex_ts_start, tg_vertex_ts_end]

/-- **to_graph, edge keys**: one edge `(output, input)` per recorded input connection of a recorded node -/
theorem toGraph_ekeys (d : Edge C) (r : Record κ C) (a b : κ) :
    (a, b) ∈ (toGraph d r).ekeys ↔ b ∈ r.nkeys ∧ a ∈ r.ikeys b := by
  simp only [toGraph, List.mem_map]
  constructor
  · rintro ⟨⟨k, e⟩, h, rfl⟩
    have := (mem_toGraphEdges r _ e).mp h
    exact ⟨this.1, this.2.1⟩
  · rintro ⟨hb, ha⟩
    exact ⟨((a, b), edgeOfMsgs (r.msgs (a, b))), (mem_toGraphEdges r _ _).mpr ⟨hb, ha, rfl⟩, rfl⟩

/-- **to_graph, edge data**: the edge carries exactly the recorded `seq_out`, `seq_in`, `ts_recv` of that connection -/
theorem toGraph_edge (d : Edge C) (r : Record κ C) (a b : κ) (hb : b ∈ r.nkeys) (ha : a ∈ r.ikeys b) :
    (toGraph d r).e (a, b) = edgeOfMsgs (r.msgs (a, b)) := by
  simp only [toGraph]
  rw [lookupLast_of_functional (toGraphEdges r) (a, b) (edgeOfMsgs (r.msgs (a, b)))]
  · rfl
  · exact ⟨((a, b), _), (mem_toGraphEdges r _ _).mpr ⟨hb, ha, rfl⟩, rfl⟩
  · rintro ⟨k, e⟩ hp rfl
    exact ((mem_toGraphEdges r _ _).mp hp).2.2

/-- `to_graph` commutes with every leafwise map (indexing an episode, padding, converting dtypes) on the keys -/
theorem toGraph_map {D : Type} (f : C → D) (d : Edge C) (d' : Edge D) (r : Record κ C) :
    (toGraph d' (r.map f)).vkeys = (toGraph d r).vkeys ∧ (toGraph d' (r.map f)).ekeys = (toGraph d r).ekeys ∧
    (∀ n, (toGraph d' (r.map f)).v n = ((toGraph d r).v n).map f) ∧
    (∀ a b, (a, b) ∈ (toGraph d r).ekeys → (toGraph d' (r.map f)).e (a, b) = ((toGraph d r).e (a, b)).map f) := by
  refine ⟨rfl, ?_, fun n => ?_, fun a b h => ?_⟩
  · simp [toGraph, toGraphEdges, Record.map, tg_edge_key, List.map_flatMap, Function.comp_def]
  · rw [(toGraph_vertices d' _).2, (toGraph_vertices d r).2]; rfl
  · obtain ⟨hb, ha⟩ := (toGraph_ekeys d r a b).mp h
    rw [toGraph_edge d r a b hb ha, toGraph_edge d' (r.map f) a b hb ha]
    rfl

theorem mem_rfilterConns_true (r : Record κ C) (s : Sel κ) (a b : κ) :
    (a, b) ∈ rfilterConns r s true ↔ a ∈ s.names ∧ b ∈ s.names ∧ a ∈ s.inputs b := by
  simp only [rfilterConns, rfilter_flag, rfilter_in_nodes_c, rfilter_add_c, List.mem_flatMap, if_true]
  constructor
  · rintro ⟨n2, h2, n1, h1, h⟩
    by_cases hn : n1 ∈ s.names
    · simp [hn] at h
      obtain ⟨rfl, rfl⟩ := h
      exact ⟨hn, h2, h1⟩
    · simp [hn] at h
  · rintro ⟨ha, hb, hi⟩
    exact ⟨b, hb, a, hi, by simp [ha]⟩

theorem mem_rfilterConns_false (r : Record κ C) (s : Sel κ) (a b : κ) :
    (a, b) ∈ rfilterConns r s false ↔ a ∈ s.names ∧ b ∈ s.names ∧ b ∈ r.nkeys ∧ a ∈ r.ikeys b := by
  simp only [rfilterConns, rfilter_flag, rfilter_dst_present, rfilter_in_nodes_r, rfilter_add_r,
    List.mem_flatMap, Bool.false_eq_true, if_false]
  constructor
  · rintro ⟨n2, h2, h⟩
    by_cases hv : n2 ∈ r.nkeys
    · simp only [hv, decide_true, if_true, List.mem_flatMap] at h
      obtain ⟨n1, h1, h⟩ := h
      by_cases hn : n1 ∈ s.names
      · simp [hn] at h
        obtain ⟨rfl, rfl⟩ := h
        exact ⟨hn, h2, hv, h1⟩
      · simp [hn] at h
    · simp [hv] at h
  · rintro ⟨ha, hb, hv, hi⟩
    refine ⟨b, hb, ?_⟩
    simp only [hv, decide_true, if_true, List.mem_flatMap]
    exact ⟨a, hi, by simp [ha]⟩

/-- `EpisodeRecord.filter` succeeds when every selected name was recorded (and every input has its info) -/
theorem rfilter_isSome (r : Record κ C) (s : Sel κ) (flag : Bool) (hsub : ∀ n ∈ s.names, n ∈ r.nkeys)
    (hinfo : ∀ n, r.infoKeys n = r.ikeys n) : ∃ r', rfilter r s flag = some r' := by
  unfold rfilter
  simp only []
  rw [if_pos]
  · exact ⟨_, rfl⟩
  · simp only [Bool.and_eq_true, List.all_eq_true, decide_eq_true_eq, Bool.or_eq_true, Bool.not_eq_true']
    exact ⟨hsub, fun n2 _ n1 h1 => Or.inr (by rw [hinfo]; exact h1)⟩

/-- **record filter, nodes**: the result has exactly the selected nodes (all of which were recorded) and their untouched data -/
theorem rfilter_nodes (r r' : Record κ C) (s : Sel κ) (flag : Bool) (h : rfilter r s flag = some r') :
    r'.nkeys = s.names ∧ (∀ n ∈ s.names, n ∈ r.nkeys) ∧ r'.steps = r.steps ∧ r'.msgs = r.msgs ∧ r'.infoKeys = r'.ikeys := by
  unfold rfilter at h
  simp only [] at h
  split at h
  · rename_i hc
    simp only [Option.some.injEq] at h
    subst h
    simp only [Bool.and_eq_true, List.all_eq_true, decide_eq_true_eq] at hc
    exact ⟨rfl, hc.1, rfl, rfl, by simp [rfilter_keep_info, rfilter_keep_input]⟩
  · cases h

/-- **filter_connections=True** keeps exactly the recorded connections between selected nodes that are listed as an input
(by *input name*) of the selected receiving node object -/
theorem rfilter_inputs_true (r r' : Record κ C) (s : Sel κ) (h : rfilter r s true = some r') (a b : κ) :
    a ∈ r'.ikeys b ↔ a ∈ r.ikeys b ∧ a ∈ s.names ∧ b ∈ s.names ∧ a ∈ s.inputs b := by
  unfold rfilter at h
  simp only [] at h
  split at h
  · simp only [Option.some.injEq] at h
    subst h
    simp [rfilter_keep_input, mem_rfilterConns_true]
  · cases h

/-- **filter_connections=False** keeps exactly the recorded connections between selected nodes -/
theorem rfilter_inputs_false (r r' : Record κ C) (s : Sel κ) (h : rfilter r s false = some r') (a b : κ) :
    a ∈ r'.ikeys b ↔ a ∈ r.ikeys b ∧ a ∈ s.names ∧ b ∈ s.names := by
  have hn := (rfilter_nodes r r' s false h).2.1
  unfold rfilter at h
  simp only [] at h
  split at h
  · simp only [Option.some.injEq] at h
    subst h
    simp only [rfilter_keep_input, mem_rfilterConns_false, List.mem_filter, decide_eq_true_eq]
    constructor
    · rintro ⟨h1, h2, h3, _, _⟩; exact ⟨h1, h2, h3⟩
    · rintro ⟨h1, h2, h3⟩; exact ⟨h1, h2, h3, hn b h3, h1⟩
  · cases h

/-- **no dangling connections**: the graph of a filtered record only has edges between its own vertices (both flags) -/
theorem rfilter_toGraph_closed (d : Edge C) (r r' : Record κ C) (s : Sel κ) (flag : Bool) (h : rfilter r s flag = some r') :
    (toGraph d r').Closed := by
  rintro ⟨a, b⟩ hx
  obtain ⟨hb, ha⟩ := (toGraph_ekeys d r' a b).mp hx
  have hk := (rfilter_nodes r r' s flag h).1
  have : a ∈ s.names := by
    cases flag
    · exact ((rfilter_inputs_false r r' s h a b).mp ha).2.1
    · exact ((rfilter_inputs_true r r' s h a b).mp ha).2.1
  simp only [toGraph, hk] at *
  exact ⟨this, hb⟩

/-- **filter then convert = convert then filter**: `record.filter(nodes, f).to_graph()` and `record.to_graph().filter(nodes, f)`
have the same vertices, the same edges and the same data -/
theorem rfilter_toGraph_gfilter (d : Edge C) (r r' : Record κ C) (s : Sel κ) (flag : Bool) (h : rfilter r s flag = some r') :
    (∀ k, k ∈ (toGraph d r').vkeys ↔ k ∈ (gfilter (toGraph d r) s flag).vkeys) ∧
    (∀ a b, (a, b) ∈ (toGraph d r').ekeys ↔ (a, b) ∈ (gfilter (toGraph d r) s flag).ekeys) ∧
    (∀ n, (toGraph d r').v n = (gfilter (toGraph d r) s flag).v n) ∧
    (∀ a b, (a, b) ∈ (toGraph d r').ekeys → (toGraph d r').e (a, b) = (gfilter (toGraph d r) s flag).e (a, b)) := by
  obtain ⟨hk, hsub, hst, hms, _⟩ := rfilter_nodes r r' s flag h
  have hin : ∀ a b, a ∈ r'.ikeys b → a ∈ r.ikeys b ∧ a ∈ s.names ∧ b ∈ s.names := by
    intro a b hab
    cases flag
    · exact (rfilter_inputs_false r r' s h a b).mp hab
    · have := (rfilter_inputs_true r r' s h a b).mp hab; exact ⟨this.1, this.2.1, this.2.2.1⟩
  refine ⟨fun k => ?_, fun a b => ?_, fun n => ?_, fun a b hab => ?_⟩
  · rw [gfilter_vertices, (toGraph_vertices d r').1, (toGraph_vertices d r).1, hk]
    exact ⟨fun hn => ⟨hsub k hn, hn⟩, fun hn => hn.2⟩
  · rw [toGraph_ekeys, hk]
    cases flag
    · rw [gfilter_edges_false, toGraph_ekeys, rfilter_inputs_false r r' s h, (toGraph_vertices d r).1]
      constructor
      · rintro ⟨hb, h1, h2, _⟩; exact ⟨⟨hsub b hb, h1⟩, h2, hb, hsub b hb⟩
      · rintro ⟨⟨_, h1⟩, h2, hb, _⟩; exact ⟨hb, h1, h2, hb⟩
    · rw [gfilter_edges_true, toGraph_ekeys, rfilter_inputs_true r r' s h]
      constructor
      · rintro ⟨hb, h1, h2, _, h4⟩; exact ⟨⟨hsub b hb, h1⟩, h2, hb, h4⟩
      · rintro ⟨⟨_, h1⟩, h2, hb, h4⟩; exact ⟨hb, h1, h2, hb, h4⟩
  · rw [(toGraph_vertices d r').2, hst]
    exact ((toGraph_vertices d r).2 n).symm
  · obtain ⟨hb, ha⟩ := (toGraph_ekeys d r' a b).mp hab
    rw [toGraph_edge d r' a b hb ha, hms]
    have hb' : b ∈ r.nkeys := hsub b (by rw [← hk]; exact hb)
    exact (toGraph_edge d r a b hb' (hin a b ha).1).symm

/-- the edge keys of `to_graph` depend only on the node and input keys of the record -/
theorem toGraph_ekeys_eq {D : Type} (d : Edge C) (d' : Edge D) (r : Record κ C) (r' : Record κ D)
    (hn : r'.nkeys = r.nkeys) (hi : r'.ikeys = r.ikeys) : (toGraph d' r').ekeys = (toGraph d r).ekeys := by
  simp [toGraph, toGraphEdges, tg_edge_key, List.map_flatMap, Function.comp_def, hn, hi]

end Rec

section PStack
variable {κ : Type} [DecidableEq κ] {α : Type} [Neg α] [NatCast α]

theorem rpadLeaf_row_map {γ : Type} (l : List γ) (f : γ → List α) (i : Nat) (hi : i < l.length) :
    rgetitem_leaf ((rpadLeaf (rstack_fill : α) (l.map f)).getD i []) = padCol (padAmount (l.map f) i) (f l[i]) := by
  rw [rpadLeaf_eq]
  exact stackLeaf_row_map l f i hi

/-- **padded stack of records, then index**: episode `i` has the keys of record `i` and each of its step / message columns is
the recorded column followed by padding values only -/
theorem paddedStack_get_cols (rs : List (Record κ (List α))) (R : Record κ (List (List α))) (hR : paddedStack rs = some R)
    (hs : SameKeysR rs) (i : Nat) (hi : i < rs.length) :
    (R.getEp i).nkeys = rs[i].nkeys ∧ (R.getEp i).ikeys = rs[i].ikeys ∧
      (∀ k, ((R.getEp i).steps k).seq = padCol (padAmount (rs.map fun r => (r.steps k).seq) i) (rs[i].steps k).seq ∧
            ((R.getEp i).steps k).tsStart = padCol (padAmount (rs.map fun r => (r.steps k).tsStart) i) (rs[i].steps k).tsStart ∧
            ((R.getEp i).steps k).tsEnd = padCol (padAmount (rs.map fun r => (r.steps k).tsEnd) i) (rs[i].steps k).tsEnd) ∧
      (∀ k, ((R.getEp i).msgs k).seqOut = padCol (padAmount (rs.map fun r => (r.msgs k).seqOut) i) (rs[i].msgs k).seqOut ∧
            ((R.getEp i).msgs k).seqIn = padCol (padAmount (rs.map fun r => (r.msgs k).seqIn) i) (rs[i].msgs k).seqIn ∧
            ((R.getEp i).msgs k).tsSent = padCol (padAmount (rs.map fun r => (r.msgs k).tsSent) i) (rs[i].msgs k).tsSent ∧
            ((R.getEp i).msgs k).tsRecv = padCol (padAmount (rs.map fun r => (r.msgs k).tsRecv) i) (rs[i].msgs k).tsRecv ∧
            ((R.getEp i).msgs k).delay = padCol (padAmount (rs.map fun r => (r.msgs k).delay) i) (rs[i].msgs k).delay) := by
  cases rs with
  | nil => simp at hi
  | cons r0 t =>
    simp only [paddedStack, Option.some.injEq] at hR
    subst hR
    have hk := hs r0 (by simp) ((r0 :: t)[i]) (List.getElem_mem hi)
    refine ⟨hk.1, hk.2.1, fun k => ?_, fun k => ?_⟩
    · simp only [Record.getEp, Record.map, Vertex.map, stackRV, List.map_map, Function.comp_def]
      exact ⟨rpadLeaf_row_map _ _ i hi, rpadLeaf_row_map _ _ i hi, rpadLeaf_row_map _ _ i hi⟩
    · simp only [Record.getEp, Record.map, Msgs.map, stackRM, List.map_map, Function.comp_def]
      exact ⟨rpadLeaf_row_map _ _ i hi, rpadLeaf_row_map _ _ i hi, rpadLeaf_row_map _ _ i hi, rpadLeaf_row_map _ _ i hi,
        rpadLeaf_row_map _ _ i hi⟩

/-- **the two routes to a stacked graph agree**: `ExperimentRecord.stack().to_graph()` (pad the records, then convert) equals
`ExperimentRecord.to_graph()` (convert every episode, then `Graph.stack`) on all keys -/
theorem paddedStack_toGraph (d : Edge (List α)) (D : Edge (List (List α))) (rs : List (Record κ (List α)))
    (R : Record κ (List (List α))) (hR : paddedStack rs = some R) (hs : SameKeysR rs) :
    ∃ G, stack (rs.map (toGraph d)) = some G ∧ (toGraph D R).vkeys = G.vkeys ∧ (toGraph D R).ekeys = G.ekeys ∧
      (∀ n, (toGraph D R).v n = G.v n) ∧ (∀ a b, (a, b) ∈ G.ekeys → (toGraph D R).e (a, b) = G.e (a, b)) := by
  cases rs with
  | nil => simp [paddedStack] at hR
  | cons r0 t =>
    simp only [paddedStack, Option.some.injEq] at hR
    subst hR
    refine ⟨_, rfl, rfl, ?_, fun n => ?_, fun a b hab => ?_⟩
    · exact toGraph_ekeys_eq d D r0 _ rfl rfl
    · rw [(toGraph_vertices D _).2]
      simp only [stackRV, stackV, rpadLeaf_eq, List.map_map, Function.comp_def, (toGraph_vertices d _).2]
    · obtain ⟨hb, ha⟩ := (toGraph_ekeys d r0 a b).mp hab
      rw [toGraph_edge D _ a b hb ha]
      have hall : (r0 :: t).map (fun r => (toGraph d r).e (a, b)) = (r0 :: t).map (fun r => edgeOfMsgs (r.msgs (a, b))) := by
        apply List.map_congr_left
        intro r hr
        have hk := hs r hr r0 (by simp)
        exact toGraph_edge d r a b (by rw [hk.1]; exact hb) (by rw [hk.2.1]; exact ha)
      simp only [List.map_map, Function.comp_def, hall]
      simp only [stackRM, stackE, edgeOfMsgs, rpadLeaf_eq, List.map_map, Function.comp_def]

end PStack

/-! ## witnesses and non-vacuity -/

section Witness

/-- the hypotheses of `stack_get` are satisfiable, and the model computes the expected padded episode -/
example : SameKeys [witnessGraph [0, 1] [0, 10] [5, 15], witnessGraph [0, 1, 2] [0, 10, 20] [5, 15, 25]] ∧
    (∀ g ∈ [witnessGraph [0, 1] [0, 10] [5, 15], witnessGraph [0, 1, 2] [0, 10, 20] [5, 15, 25]], g.Aligned) ∧
    (((stack [witnessGraph [0, 1] [0, 10] [5, 15], witnessGraph [0, 1, 2] [0, 10, 20] [5, 15, 25]]).bind (getEp · 0)).map fun g => ((g.v 0).seq, (g.v 0).tsEnd))
      = some ([0, 1, -1], [5, 15, -1]) := by
  refine ⟨?_, ?_, by decide⟩
  · intro g hg g' hg'
    simp only [List.mem_cons, List.mem_nil_iff, or_false] at hg hg'
    rcases hg with rfl | rfl <;> rcases hg' with rfl | rfl <;> exact ⟨rfl, rfl⟩
  · intro g hg
    simp only [List.mem_cons, List.mem_nil_iff, or_false] at hg
    rcases hg with rfl | rfl <;> exact ⟨fun k _ => ⟨rfl, rfl⟩, fun k hk => by simp [witnessGraph] at hk⟩

/-- the alignment hypothesis of `toNx_pad` is needed: padding a vertex whose columns have different lengths creates a vertex -/
theorem toNx_pad_needs_aligned :
    (toNx (witnessGraph [0] [] [])).length = 0 ∧ (toNx ((witnessGraph [0] [] []).pad (fun _ => 1) (fun _ => 0))).length = 1 := by
  decide

/-- a connection `0 -> 1` that node `1` made under a custom input name: `Sel.inputs` lists the *sending node* of every
connection of the provided node object (`i.output_node.name` in `Graph.filter` / `EpisodeRecord.filter`), so the edge
survives both flags. (Before the repair recorded in `known_findings.txt` the code used the input name, here `2`, and
`filter_edges=True` dropped the edge: second part.) -/
theorem gfilter_custom_input_name_kept :
    let g : Graph Nat Unit := ⟨[0, 1], fun _ => ⟨(), (), ()⟩, [(0, 1)], fun _ => ⟨(), (), ()⟩⟩
    let s : Sel Nat := ⟨[0, 1], fun n => if n = 1 then [0] else []⟩
    let sOld : Sel Nat := ⟨[0, 1], fun n => if n = 1 then [2] else []⟩
    ((gfilter g s true).ekeys = [(0, 1)] ∧ (gfilter g s false).ekeys = [(0, 1)]) ∧ (gfilter g sOld true).ekeys = [] := by
  decide

/-- the record filter fails (KeyError) when a selected name was not recorded: `rfilter` is not vacuously total -/
theorem rfilter_unrecorded_name :
    (rfilter (⟨[0], fun _ => ⟨(), (), ()⟩, fun _ => [], fun _ => [], fun _ => ⟨(), (), (), (), ()⟩⟩ : Record Nat Unit)
      ⟨[0, 1], fun _ => []⟩ false).isNone = true := by
  decide

/-- `Graph.Closed` and a successful record filter are satisfiable -/
example : (⟨[0, 1], fun _ => ⟨(), (), ()⟩, [(0, 1)], fun _ => ⟨(), (), ()⟩⟩ : Graph Nat Unit).Closed := by
  intro x hx
  simp only [List.mem_singleton] at hx
  subst hx
  simp

example : (rfilter (⟨[0, 1], fun _ => ⟨(), (), ()⟩, fun n => if n = 1 then [0] else [], fun n => if n = 1 then [0] else [],
      fun _ => ⟨(), (), (), (), ()⟩⟩ : Record Nat Unit) ⟨[1], fun _ => [0]⟩ true).isSome = true := by
  decide

end Witness

end Rex.C14
