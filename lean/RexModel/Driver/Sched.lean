import RexModel.Driver.Basic
import RexModel.Compiled.Schedule
import RexModel.Compiled.Ring
import RexModel.Compiled.BufSize
import RexModel.Compiled.Trace
import RexModel.Compiled.Exec

open Lean Rex.Driver Rex.Sched

namespace Rex.Driver.Sched

def parseWins (j : Json) : Except String (List (Nat × List Int × List Nat × List Nat)) := do
  let a ← j.getArr?
  a.toList.mapM fun w => do
    let parts ← w.getArr?
    match parts.toList with
    | [k, seqs, sent, recv] => pure (← k.getNat?, ← getInts seqs, ← getNats sent, ← getNats recv)
    | _ => throw "bad window"

def parseInst (j : Json) : Except String Inst := do
  let verts ← (← fieldArr j "verts").mapM fun v => do
    pure ({ v := ⟨← fieldNat v "kind", ← fieldInt v "seq"⟩, tsStart := ← fieldNat v "ts_start", tsEnd := ← fieldNat v "ts_end",
            wins := ← parseWins (← field v "wins") } : VRow)
  let cells ← (← fieldArr j "cells").mapM fun c => do
    pure ({ slot := ← fieldNat c "slot", kind := ← fieldNat c "kind", gen := ← fieldNat c "gen", part := ← fieldNat c "part", run := ← fieldBool c "run",
            seq := ← fieldInt c "seq", tsStart := ← fieldNat c "ts_start", tsEnd := ← fieldNat c "ts_end", wins := ← parseWins (← field c "wins") } : Cell)
  pure { sup := ← fieldNat j "sup", parts := ← fieldNat j "parts", gens := ← fieldNat j "gens", prune := ← fieldBool j "prune", verts := verts, cells := cells }

/-- {"cmd":"sched.check", ...instance...} → {"ok": bool, "failing": [...], "scheduled": n} -/
def check : Handler := fun j => do
  let i ← parseInst j
  pure <| Json.mkObj [("ok", Json.bool (checkSchedule i)), ("failing", Json.arr ((failing i).map Json.str).toArray),
                      ("c6_missing", Json.arr ((c6Missing i).map fun v => Json.arr #[putNat v.kind, putInt v.seq]).toArray),
                      ("scheduled", putNat i.sched.length), ("vertices", putNat i.verts.length)]

/-- {"cmd":"sched.replay", ...instance..., "sizes":[per kind], "start": k} → {"ok": bool, "consecutive": bool (hypothesis of `replay_read_live`: every kind writes consecutive sequence numbers)} -/
def replay : Handler := fun j => do
  let i ← parseInst j
  let sizes ← fieldNats j "sizes"
  let start ← fieldNat j "start"
  let sized := kindsOk i sizes.length && sizedOk (traceOf i 0) sizes.length sizes
  pure <| Json.mkObj [("ok", Json.bool (replayOk i sizes start)), ("consecutive", Json.bool (consecOk i sizes.length start)), ("sized", Json.bool sized)]

/-- {"cmd":"sched.bufsize", "pairs":[{"min_in":[..], "max_out":[..]}, ...]} → {"sizes":[..]} (model of `get_buffer_sizes`, one entry per pair) -/
def bufsize : Handler := fun j => do
  let pairs ← fieldArr j "pairs"
  let sizes ← pairs.mapM fun p => do
    let a ← getInts (← field p "min_in")
    let b ← getInts (← field p "max_out")
    pure (putInt (bufSize a b))
  pure <| Json.mkObj [("sizes", Json.arr sizes.toArray)]

def PM : Int := 1000003

/-- the probe node of harness/rt.py as a `Step` of the abstract executor: carried state and payload `(s, y)` -/
def probeStep (i : Inst) (w s0 y0 : Array Int) (draws : Array (Array Int)) : Step (Int × Int) := fun v p ws =>
  let sPrev : Int := match p with | some x => x.1 | none => s0.getD v.kind 0
  let acc : Int := Id.run do
    let mut acc : Int := 0
    let mut idx : Int := 0
    let mut rest := ws
    for win in xWins i v do
      idx := idx + 1
      let mut j : Int := 0
      for q in win.2 do
        j := j + 1
        let wt := j * idx
        let data : Int := match rest.head? with
          | some (some x) => x.2
          | _ => y0.getD win.1 0
        rest := rest.tail
        acc := acc + wt * (data % 1009) + 13 * wt * (max q (-1))
    return acc
  let draw := (draws.getD v.kind #[]).getD v.seq.toNat 0
  let s := (31 * sPrev + (w.getD v.kind 1) * (acc % PM) + draw + v.seq) % PM
  (s, (7 * s + v.seq) % PM)

/-- {"cmd":"sched.exec", ...instance..., "sizes":[..], "w":[..], "s0":[..], "y0":[..], "draws":[[..]..]} →
{"rows":[[kind, seq, state, output]..], "exec_hyp": bool, "sized": bool}: the abstract executor of `Compiled/Exec.lean`
run on the instance with the probe step function, and the hypotheses of `exec_instance_refines` decided -/
def execCmd : Handler := fun j => do
  let i ← parseInst j
  let sizes ← fieldNats j "sizes"
  let w := (← fieldInts j "w").toArray
  let s0 := (← fieldInts j "s0").toArray
  let y0 := (← fieldInts j "y0").toArray
  let draws := ((← fieldArr j "draws").mapM getInts) |>.map (fun l => (l.map List.toArray).toArray)
  let draws ← draws
  let st := exec (xWins i) (probeStep i w s0 y0 draws) (initX sizes) (xTrace i)
  let rows := (xTrace i).flatten.map fun v =>
    match st.env v with
    | some (some x) => Json.arr #[putNat v.kind, putInt v.seq, putInt x.1, putInt x.2]
    | _ => Json.arr #[putNat v.kind, putInt v.seq, Json.null, Json.null]
  pure <| Json.mkObj [("rows", Json.arr rows.toArray), ("exec_hyp", Json.bool (execHypOk i)), ("valid_in", Json.bool (validInOk (xWins i) (xTrace i).flatten)),
                      ("sized", Json.bool (kindsOk i sizes.length && sizedOk (traceOf i 0) sizes.length sizes))]

def handlers : List (String × Handler) := [("sched.check", check), ("sched.replay", replay), ("sched.bufsize", bufsize), ("sched.exec", execCmd)]

end Rex.Driver.Sched
