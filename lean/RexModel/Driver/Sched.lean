import RexModel.Driver.Basic
import RexModel.Compiled.Schedule
import RexModel.Compiled.Ring
import RexModel.Compiled.BufSize
import RexModel.Compiled.Trace

open Lean Rex.Driver Rex.Sched

namespace Rex.Driver.Sched

def parseWins (j : Json) : Except String (List (Nat × List Int × List Nat × List Nat)) := do
  let a ← j.getArr?
  a.toList.mapM fun w => do
    let parts ← w.getArr?
    match parts.toList with
    | [k, seqs, sent, recv] => pure (← k.getNat?, ← getInts seqs, ← getNats sent, ← getNats recv)
    | _ => throw "bad window"

def parseInst (j : Json) : Except String Inst := do
  let verts ← (← fieldArr j "verts").mapM fun v => do
    pure ({ v := ⟨← fieldNat v "kind", ← fieldInt v "seq"⟩, tsStart := ← fieldNat v "ts_start", tsEnd := ← fieldNat v "ts_end",
            wins := ← parseWins (← field v "wins") } : VRow)
  let cells ← (← fieldArr j "cells").mapM fun c => do
    pure ({ slot := ← fieldNat c "slot", kind := ← fieldNat c "kind", gen := ← fieldNat c "gen", part := ← fieldNat c "part", run := ← fieldBool c "run",
            seq := ← fieldInt c "seq", tsStart := ← fieldNat c "ts_start", tsEnd := ← fieldNat c "ts_end", wins := ← parseWins (← field c "wins") } : Cell)
  pure { sup := ← fieldNat j "sup", parts := ← fieldNat j "parts", gens := ← fieldNat j "gens", prune := ← fieldBool j "prune", verts := verts, cells := cells }

/-- {"cmd":"sched.check", ...instance...} → {"ok": bool, "failing": [...], "scheduled": n} -/
def check : Handler := fun j => do
  let i ← parseInst j
  pure <| Json.mkObj [("ok", Json.bool (checkSchedule i)), ("failing", Json.arr ((failing i).map Json.str).toArray),
                      ("scheduled", putNat i.sched.length), ("vertices", putNat i.verts.length)]

/-- {"cmd":"sched.replay", ...instance..., "sizes":[per kind], "start": k} → {"ok": bool, "consecutive": bool (hypothesis of `replay_read_live`: every kind writes consecutive sequence numbers)} -/
def replay : Handler := fun j => do
  let i ← parseInst j
  let sizes ← fieldNats j "sizes"
  let start ← fieldNat j "start"
  let sized := kindsOk i sizes.length && sizedOk (traceOf i 0) sizes.length sizes
  pure <| Json.mkObj [("ok", Json.bool (replayOk i sizes start)), ("consecutive", Json.bool (consecOk i sizes.length start)), ("sized", Json.bool sized)]

/-- {"cmd":"sched.bufsize", "pairs":[{"min_in":[..], "max_out":[..]}, ...]} → {"sizes":[..]} (model of `get_buffer_sizes`, one entry per pair) -/
def bufsize : Handler := fun j => do
  let pairs ← fieldArr j "pairs"
  let sizes ← pairs.mapM fun p => do
    let a ← getInts (← field p "min_in")
    let b ← getInts (← field p "max_out")
    pure (putInt (bufSize a b))
  pure <| Json.mkObj [("sizes", Json.arr sizes.toArray)]

def handlers : List (String × Handler) := [("sched.check", check), ("sched.replay", replay), ("sched.bufsize", bufsize)]

end Rex.Driver.Sched
