import RexModel.Driver.C17
import RexModel.Driver.Async
import RexModel.Driver.Sched
import RexModel.Driver.C18
import RexModel.Driver.C15
import RexModel.Driver.C11
import RexModel.Driver.C19
import RexModel.Driver.C20
import RexModel.Driver.C14
import RexModel.Driver.C16

namespace Rex.Driver
def allHandlers : List (String × Handler) :=
  [("ping", fun _ => pure (Lean.Json.mkObj [("pong", Lean.Json.bool true)]))] ++
  C17.handlers ++ Async.handlers ++ Sched.handlers ++ C18.handlers ++ C15.handlers ++ C11.handlers ++ C19.handlers ++ C20.handlers ++ C14.handlers ++ C16.handlers
end Rex.Driver
