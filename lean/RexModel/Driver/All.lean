import RexModel.Driver.C17
import RexModel.Driver.Async

namespace Rex.Driver
def allHandlers : List (String × Handler) :=
  [("ping", fun _ => pure (Lean.Json.mkObj [("pong", Lean.Json.bool true)]))] ++
  C17.handlers ++ Async.handlers
end Rex.Driver
