import RexModel.Driver.C17

namespace Rex.Driver
def allHandlers : List (String × Handler) :=
  [("ping", fun _ => pure (Lean.Json.mkObj [("pong", Lean.Json.bool true)]))] ++
  C17.handlers
end Rex.Driver
