import RexModel.Driver.Basic
import RexModel.Lib.LinearDelay

open Lean Rex.Driver Rex.LinearDelay

namespace Rex.Driver.C11

/-- {"cmd":"c11.apply","interp":1|2,"d":f,"ts":f,"window":n,"seq":[..],"sent":[..],"recv":[..],"ys":[..]}
    → the window values of the model (binary64), the shifted query times and idx_max. -/
def apply : Handler := fun j => do
  let interp ← fieldNat j "interp"
  let d ← fieldF j "d"
  let ts ← fieldF j "ts"
  let window ← fieldNat j "window"
  let seq ← fieldInts j "seq"
  let sent ← fieldFs j "sent"
  let recv ← fieldFs j "recv"
  let ys ← fieldFs j "ys"
  let buf : List (Msg Float) := (List.zip seq (List.zip sent recv)).map fun (s, a, b) => ⟨s, a, b⟩
  let vals := applyLinear interp d ts window buf ys
  let qs := queries interp d ts window buf
  let im := idxMax ts (buf.map (recvOf d))
  pure <| Json.mkObj [("vals", putFs (vals.map fun o => o.getD (0.0 / 0.0))), ("queries", putFs qs), ("idx_max", putInt im)]

/-- {"cmd":"c11.delay","min":f,"alpha":f,"max":f} → min + alpha*(max-min) -/
def delay : Handler := fun j => do
  let mn ← fieldF j "min"; let al ← fieldF j "alpha"; let mx ← fieldF j "max"
  pure <| Json.mkObj [("d", putF (delayOf mn al mx))]

def handlers : List (String × Handler) := [("c11.apply", apply), ("c11.delay", delay)]

end Rex.Driver.C11
