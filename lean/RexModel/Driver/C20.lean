import RexModel.Driver.Basic
import RexModel.Lib.Policy

/-! Executable instance of the C20 model: `Rex.Policy.getAction` (the definition the theorems are about, with the generated
kernels) run on `Float` with concrete stand-ins for the trusted parts: flax `Dense` = `x·W + b`, the four activation
functions, `sample(loc, scale, eps) = loc + scale * eps`, Python's substring test. -/

open Lean Rex.Driver Rex.Gen.Policy Rex.Policy

namespace Rex.Driver.C20

/-- one flax Dense layer: `kernel[in][out]`, `bias[out]` -/
structure Layer where
  kernel : List (List Float)
  bias : List Float

/-- `x @ kernel + bias` -/
def denseF (l : Layer) (x : List Float) : List Float :=
  let acc := (List.zip x l.kernel).foldl (fun (acc : List Float) (xr : Float × List Float) =>
    List.zipWith (fun a w => a + xr.1 * w) acc xr.2) (l.bias.map fun _ => 0.0)
  List.zipWith (· + ·) acc l.bias

def relu (x : Float) : Float := if x > 0.0 then x else 0.0
/-- flax `nn.gelu` (default `approximate=True`) -/
def gelu (x : Float) : Float :=
  0.5 * x * (1.0 + Float.tanh (Float.sqrt (2.0 / 3.141592653589793) * (x + 0.044715 * x * x * x)))
/-- `jax.nn.softplus x = logaddexp(x, 0)` -/
def softplus (x : Float) : Float := (if x > 0.0 then x else 0.0) + Float.log (1.0 + Float.exp (-(Float.abs x)))

def interpF (fn : String) (x : List Float) : List Float :=
  match fn with
  | "nn.relu" => x.map relu
  | "nn.tanh" => x.map Float.tanh
  | "nn.gelu" => x.map gelu
  | "nn.softplus" => x.map softplus
  | _ => x.map fun _ => 0.0 / 0.0   -- an activation name the driver does not know: NaN, reported by the harness

/-- Python `a in b` on strings -/
def strInF (a b : String) : Bool := (b.splitOn a).length > 1

def envF : Env Float Layer (List Float) where
  strIn := strInF
  dense := denseF
  interp := interpF
  sample := fun g eps => List.zipWith (· + ·) g.loc (List.zipWith (· * ·) g.scale eps)
  exp := Float.exp
  sqrt := Float.sqrt
  tanh := Float.tanh

def getLayer (j : Json) : Except String Layer := do
  let rows ← fieldArr j "kernel"
  let kernel ← rows.mapM getFs
  let bias ← fieldFs j "bias"
  pure ⟨kernel, bias⟩

def optField (j : Json) (k : String) : Option Json :=
  match j.getObjVal? k with
  | .ok .null => none
  | .ok v => some v
  | .error _ => none

def putOptFs (o : Option (List Float)) : Json :=
  match o with
  | none => Json.null
  | some v => putFs v

def maxAbs (xs : List Float) : Float := xs.foldl (fun m x => if Float.abs x > m then Float.abs x else m) 0.0

/-- {"cmd":"c20.policy","layers":[{kernel,bias}..],"log_std":[..],"activation":"tanh","norm":null|{mean,var,clip},
     "act":null|{low,high,squash},"obs":[[..]..],"eps":[null|[..]..]}
  → per observation: get_action(obs) , get_action(obs, rng) with the given noise, the observation the actor sees, and the
    largest magnitude met inside the network (for the float32 tolerance of the comparison) -/
def policy : Handler := fun j => do
  let layers ← (← fieldArr j "layers").mapM getLayer
  let logStd ← fieldFs j "log_std"
  let name ← fieldStr j "activation"
  let ns ← match optField j "norm" with
    | none => pure none
    | some n => do pure (some (⟨← fieldFs n "mean", ← fieldFs n "var", ← fieldF n "clip"⟩ : NormState Float))
  let sq ← match optField j "act" with
    | none => pure none
    | some a => do pure (some (⟨← fieldFs a "low", ← fieldFs a "high", ← fieldBool a "squash"⟩ : SquashState Float))
  let π : Rex.Policy.Policy Float Layer := ⟨sq, ns, some ⟨layers, logStd⟩, name⟩
  let obs ← (← fieldArr j "obs").mapM getFs
  let eps ← (← fieldArr j "eps").mapM fun e => match e with
    | .null => pure none
    | v => do pure (some (← getFs v))
  let zeros := logStd.map fun _ => 0.0
  let out := (List.zip obs eps).map fun (oe : List Float × Option (List Float)) =>
    let o := oe.1
    let seen := match ns with
      | some n => normalize Float.sqrt n o ga_norm_clip ga_norm_submean
      | none => o
    -- magnitude of the hidden activations, for the tolerance only
    let mags := (List.range layers.length).map fun m =>
      match loopOpt (policyHiddenStep denseF interpF name ⟨layers, logStd⟩) m seen with
      | some h => maxAbs h
      | none => 0.0
    let mean := policyMean strInF denseF interpF name ⟨layers, logStd⟩ seen
    Json.mkObj [("action", putOptFs (getAction envF π zeros o none)),
                ("sample", match oe.2 with
                  | none => Json.null
                  | some e => putOptFs (getAction envF π zeros o (some e))),
                ("seen", putFs seen),
                ("mean", putOptFs mean),
                ("mag", putF (maxAbs (mags ++ (mean.getD []).map Float.abs)))]
  pure <| Json.mkObj [("out", Json.arr out.toArray), ("std", putFs (logStd.map fun l => pa_scale Float.exp l)),
    ("num_layers", putInt (numLayers strInF (⟨layers, logStd⟩ : ActorParams Layer (List Float))))]

def handlers : List (String × Handler) := [("c20.policy", policy)]

end Rex.Driver.C20
