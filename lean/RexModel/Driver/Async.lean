import RexModel.Driver.Basic
import RexModel.Async.Machine

open Lean Rex.Driver Rex.Async Rex.Net

namespace Rex.Driver.Async

/-- exact `fmod` via integer arithmetic on the decoded operands -/
def pyFmod (x y : Float) : Float :=
  let (m1, e1) := floatParts x
  let (m2, e2) := floatParts y
  let e := if e1 < e2 then e1 else e2
  let a := m1 * 2 ^ (e1 - e).toNat
  let b := m2 * 2 ^ (e2 - e).toNat
  if b == 0 then 0.0/0.0 else
  let r := Int.tmod a b
  Float.scaleB (Float.ofInt r) e

/-- CPython's `float_floor_div` followed by `int()` -/
def pyFloorDivInt (vx wx : Float) : Int :=
  let mod := pyFmod vx wx
  let div := (vx - mod) / wx
  let div := if mod != 0.0 && ((wx < 0.0) != (mod < 0.0)) then div - 1.0 else div
  let fl :=
    if div != 0.0 then
      let f := Float.floor div
      if div - f > 0.5 then f + 1.0 else f
    else 0.0
  fl.toInt64.toInt

instance : TimeLike Float where
  decLt := inferInstance
  decLe := inferInstance
  rnd := pyRound6
  fdiv := pyFloorDivInt

def M : Int := 1000003

/-- the probe node of harness/rt.py -/
def probe (ws : Array Int) (draws : Array (Array Int)) (sin : StepIn Float) : StepOut :=
  let w := ws.getD sin.node 1
  let draw := (draws.getD sin.node #[]).getD sin.call 0
  let acc : Int := Id.run do
    let mut acc : Int := 0
    let mut idx : Int := 0
    for win in sin.windows do
      idx := idx + 1
      let mut j : Int := 0
      for it in win do
        j := j + 1
        let wt := j * idx
        acc := acc + wt * (it.data % 1009) + 13 * wt * (max it.seq (-1))
    return acc
  let s := (31 * sin.state + w * (acc % M) + draw + sin.seq) % M
  let y := (7 * s + sin.seq) % M
  { state := s, output := y }

def streamOf (xs : Array Float) : Nat → Float := fun i => xs.getD i 0.0

def parseCfg (j : Json) : Except String (Cfg Float × Array Nat) := do
  let nodesJ ← fieldArr j "nodes"
  let connsJ ← fieldArr j "conns"
  let mut ws : Array Int := #[]
  let mut draws : Array (Array Int) := #[]
  let mut nodes : Array (NodeCfg Float) := #[]
  let mut maxTicks : Array Nat := #[]
  for nj in nodesJ do
    let comp := (← fieldFs nj "comp").toArray
    nodes := nodes.push { rate := ← fieldF nj "rate", phase := ← fieldF nj "phase", advance := ← fieldBool nj "advance",
                          scheduling := ← fieldNat nj "scheduling", inputs := ← fieldNats nj "inputs", outputs := ← fieldNats nj "outputs",
                          compDelay := streamOf comp, initState := ← fieldInt nj "init_state" }
    ws := ws.push (← fieldInt nj "w")
    draws := draws.push (← fieldInts nj "draws").toArray
    maxTicks := maxTicks.push (← fieldNat nj "max_ticks")
  let mut conns : Array (ConnCfg Float) := #[]
  for cj in connsJ do
    let comm := (← fieldFs cj "comm").toArray
    conns := conns.push { src := ← fieldNat cj "src", dst := ← fieldNat cj "dst", blocking := ← fieldBool cj "blocking", skip := ← fieldBool cj "skip",
                          jitter := ← fieldNat cj "jitter", window := ← fieldNat cj "window", phase := ← fieldF cj "phase", rateOut := ← fieldF cj "rate_out",
                          commDelay := streamOf comm, initData := ← fieldInt cj "init_data", phaseNode := ← fieldF cj "phase_node", phaseIn := ← fieldF cj "phase_in",
                          rateNode := ← fieldF cj "rate_node", rateIn := ← fieldF cj "rate_in" }
  let cfg : Cfg Float := { nodes := nodes.toList, conns := conns.toList, sup := ← fieldNat j "sup", f := probe ws draws,
                           userSteps := ← fieldNat j "user_steps" }
  pure (cfg, maxTicks)

def recsOfQ (l : List (Val Float)) : List (StepRec Float) := l.filterMap fun v => match v with | .stepRec r => some r | _ => none
def mrecsOfQ (l : List (Val Float)) : List (MsgRec Float) := l.filterMap fun v => match v with | .msgRec r => some r | _ => none

def winJson (w : List (Item Float)) : Json :=
  Json.mkObj [("seq", putInts (w.map (·.seq))), ("ts_sent", putFs (w.map (·.tsSent))), ("ts_recv", putFs (w.map (·.tsRecv))), ("data", putInts (w.map (·.data)))]

def nodeJson (rs : List (StepRec Float)) : Json :=
  Json.mkObj [
    ("seq", putInts (rs.map (·.seq))), ("ts_start", putFs (rs.map (·.tsStart))), ("ts_end", putFs (rs.map (·.tsEnd))),
    ("delay", putFs (rs.map (·.delay))), ("ts_scheduled", putFs (rs.map (·.hdr.tsScheduled))), ("ts_max", putFs (rs.map (·.hdr.tsMax))),
    ("ts_end_prev", putFs (rs.map (·.hdr.tsEndPrev))), ("phase", putFs (rs.map (·.hdr.phase))), ("phase_scheduled", putFs (rs.map (·.hdr.phaseScheduled))),
    ("phase_inputs", putFs (rs.map (·.hdr.phaseInputs))), ("phase_last", putFs (rs.map (·.hdr.phaseLast))),
    ("call", Json.arr (rs.map (fun r => putNat r.call)).toArray), ("state", putInts (rs.map (·.stateBefore))),
    ("output", Json.arr (rs.map (fun r => match r.output with | some o => putInt o | none => Json.null)).toArray),
    ("windows", Json.arr (rs.map (fun r => Json.arr (r.windows.map winJson).toArray)).toArray)]

def connJson (rs : List (MsgRec Float)) : Json :=
  Json.mkObj [("seq_out", putInts (rs.map (·.seqOut))), ("seq_in", putInts (rs.map (·.seqIn))), ("ts_sent", putFs (rs.map (·.tsSent))),
              ("ts_recv", putFs (rs.map (·.tsRecv))), ("delay", putFs (rs.map (·.delay)))]

def recordsJson (cfg : Cfg Float) (s : MSt Float) : Json :=
  Json.mkObj [
    ("nodes", Json.arr ((List.range cfg.nodes.length).map fun n => nodeJson (recsOfQ (s.q (.node n .record)))).toArray),
    ("conns", Json.arr ((List.range cfg.conns.length).map fun c => connJson (mrecsOfQ (s.q (.conn c .record)))).toArray)]

/-- scheduling policies: 0 = first enabled, 1 = last enabled, k ≥ 2 = pseudo-random with seed k -/
def policy (k : Nat) (maxTicks : Array Nat) (s : MSt Float → Rule → Bool) : Nat → List Rule → Option Rule :=
  fun fuel en =>
    match en with
    | [] => none
    | _ =>
      if k == 0 then en.head? else if k == 1 then en.getLast? else
      en[((fuel * 2654435761 + k * 40503) % 1000003) % en.length]?

def qnOf : Nat → Qn | 0 => .tokens | 1 => .sched | 2 => .endPrev | 3 => .start | 4 => .record | 5 => .obs | _ => .act
def qnIdx : Qn → Nat | .tokens => 0 | .sched => 1 | .endPrev => 2 | .start => 3 | .record => 4 | .obs => 5 | .act => 6
def qcOf : Nat → Qc
  | 0 => .inTs | 1 => .inMsg | 2 => .tsInput | 3 => .nextStep | 4 => .expTsMax | 5 => .tsMax | 6 => .expSel
  | 7 => .zipDelay | 8 => .zipMsgs | 9 => .msgs | 10 => .grouped | _ => .record
def qcIdx : Qc → Nat
  | .inTs => 0 | .inMsg => 1 | .tsInput => 2 | .nextStep => 3 | .expTsMax => 4 | .tsMax => 5 | .expSel => 6
  | .zipDelay => 7 | .zipMsgs => 8 | .msgs => 9 | .grouped => 10 | .record => 11

/-- Execution-only: materialise the (extensionally equal) state into arrays so that look-ups do not walk the
chain of closures built by `fire`. -/
def normalize (cfg : Cfg Float) (s : MSt Float) : MSt Float :=
  let nN := cfg.nodes.length
  let nC := cfg.conns.length
  let nodeQ : Array (List (Val Float)) := (Array.range (nN * 7)).map fun i => s.q (.node (i / 7) (qnOf (i % 7)))
  let connQ : Array (List (Val Float)) := (Array.range (nC * 12)).map fun i => s.q (.conn (i / 12) (qcOf (i % 12)))
  let nodeP : Array (Priv Float) := (Array.range (nN * 3)).map fun i =>
    s.priv (match i % 3 with | 0 => Rule.sched (i / 3) | 1 => .shift (i / 3) | _ => .step (i / 3))
  let connP : Array (Priv Float) := (Array.range (nC * 7)).map fun i =>
    s.priv (match i % 7 with | 0 => Rule.tsIn (i / 7) | 1 => .inp (i / 7) | 2 => .zip (i / 7) | 3 => .expNb (i / 7)
                             | 4 => .expBl (i / 7) | 5 => .tsMax (i / 7) | _ => .select (i / 7))
  let userP := s.priv .user
  let dflt : Priv Float := { phaseSched := 0.0, prevRecv := 0.0 }
  { q := fun q => match q with
      | .node n k => nodeQ.getD (n * 7 + qnIdx k) []
      | .conn c k => connQ.getD (c * 12 + qcIdx k) []
    priv := fun r => match r with
      | .sched n => nodeP.getD (n * 3) dflt | .shift n => nodeP.getD (n * 3 + 1) dflt | .step n => nodeP.getD (n * 3 + 2) dflt
      | .user => userP
      | .tsIn c => connP.getD (c * 7) dflt | .inp c => connP.getD (c * 7 + 1) dflt | .zip c => connP.getD (c * 7 + 2) dflt
      | .expNb c => connP.getD (c * 7 + 3) dflt | .expBl c => connP.getD (c * 7 + 4) dflt | .tsMax c => connP.getD (c * 7 + 5) dflt
      | .select c => connP.getD (c * 7 + 6) dflt }

/-- a run that also stops `sched n` once node n has been scheduled `maxTicks n` times (execution bound only) -/
def runBounded (cfg : Cfg Float) (maxTicks : Array Nat) (k : Nat) : Nat → MSt Float → Nat → MSt Float × Nat
  | 0, s, cnt => (s, cnt)
  | fuel + 1, s, cnt =>
    let en := (allRules cfg).filter fun r =>
      enabled cfg s r && (match r with | .sched n => (s.priv r).tick < maxTicks.getD n 0 | _ => true)
    match policy k maxTicks (fun _ _ => true) fuel en with
    | none => (s, cnt)
    | some r => runBounded cfg maxTicks k fuel (normalize cfg ((machine cfg).toNet.fire r s)) (cnt + 1)

def run : Handler := fun j => do
  let (cfg, maxTicks) ← parseCfg j
  let fuel ← fieldNat j "fuel"
  let pols ← fieldNats j "policies"
  let s0 := normalize cfg (initState cfg)
  let results := pols.map fun k =>
    let (s, cnt) := runBounded cfg maxTicks k fuel s0 0
    (recordsJson cfg s, cnt)
  match results with
  | [] => throw "no policy"
  | (r0, c0) :: rest =>
    let same := rest.map fun (r, _) => r.compress == r0.compress
    pure <| Json.mkObj [("records", r0), ("fired", putNat c0), ("same", Json.arr (same.map Json.bool).toArray),
                        ("fired_all", Json.arr ((c0 :: rest.map (·.2)).map putNat).toArray)]

def handlers : List (String × Handler) := [("async.run", run)]

end Rex.Driver.Async
