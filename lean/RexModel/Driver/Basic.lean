import Lean.Data.Json
import RexModel.Prelude

/-! Line-protocol driver basics: Float instances for the generic kernels, JSON helpers.
Core Lean only (no Mathlib), so that the driver runs under `lake env lean --run`. -/

open Lean

namespace Rex.Driver

instance : NatCast Float := ⟨Float.ofNat⟩
instance : IntCast Float := ⟨Float.ofInt⟩

/-- exact decoding of a finite binary64 into `m * 2^e` -/
def floatParts (x : Float) : Int × Int :=
  let b := x.toBits
  let sign : Int := if b >>> 63 == 1 then -1 else 1
  let ex := ((b >>> 52) &&& 0x7FF).toNat
  let frac := (b &&& 0xFFFFFFFFFFFFF).toNat
  if ex == 0 then (sign * frac, -1074) else (sign * (frac + 2^52), (ex : Int) - 1075)

/-- round-half-even of the rational `n / d` (d > 0) to an integer -/
def roundHalfEven (n : Int) (d : Int) : Int :=
  let q := n / d          -- floor (Int `/` is Euclidean; d > 0)
  let r := n % d
  if 2 * r < d then q else if 2 * r > d then q + 1 else if q % 2 == 0 then q else q + 1

/-- Python's `round(x, 6)` on a float: correctly rounded decimal rounding, half-even on exact ties. -/
def pyRound6 (x : Float) : Float :=
  if x.isNaN || x.isInf then x else
  let (m, e) := floatParts x
  let n : Int :=
    if e ≥ 0 then m * 2^e.toNat * 1000000
    else roundHalfEven (m * 1000000) (2^(-e).toNat)
  Float.ofInt n / 1000000.0

/-- Python float `//` -/
def pyFloorDiv (a b : Float) : Float := Float.floor (a / b)

def getF (j : Json) : Except String Float :=
  match j with
  | .num n => pure n.toFloat
  | .obj _ => do
      let b ← j.getObjValAs? Nat "b"
      pure (Float.ofBits b.toUInt64)
  | .str "inf" => pure (1.0/0.0)
  | .str "-inf" => pure (-1.0/0.0)
  | .str "nan" => pure (0.0/0.0)
  | _ => throw s!"expected float, got {j.compress}"

def putF (x : Float) : Json := Json.mkObj [("b", Json.num (JsonNumber.fromNat x.toBits.toNat))]

def getFs (j : Json) : Except String (List Float) := do
  let a ← j.getArr?
  a.toList.mapM getF

def getInt (j : Json) : Except String Int := j.getInt?
def getInts (j : Json) : Except String (List Int) := do
  let a ← j.getArr?
  a.toList.mapM getInt
def getNats (j : Json) : Except String (List Nat) := do
  let a ← j.getArr?
  a.toList.mapM (·.getNat?)

def field (j : Json) (k : String) : Except String Json := j.getObjVal? k
def fieldF (j : Json) (k : String) : Except String Float := do getF (← field j k)
def fieldFs (j : Json) (k : String) : Except String (List Float) := do getFs (← field j k)
def fieldInt (j : Json) (k : String) : Except String Int := do getInt (← field j k)
def fieldNat (j : Json) (k : String) : Except String Nat := do (← field j k).getNat?
def fieldInts (j : Json) (k : String) : Except String (List Int) := do getInts (← field j k)
def fieldNats (j : Json) (k : String) : Except String (List Nat) := do getNats (← field j k)
def fieldBool (j : Json) (k : String) : Except String Bool := do (← field j k).getBool?
def fieldStr (j : Json) (k : String) : Except String String := do (← field j k).getStr?
def fieldArr (j : Json) (k : String) : Except String (List Json) := do
  let a ← (← field j k).getArr?
  pure a.toList

def putFs (xs : List Float) : Json := Json.arr (xs.map putF).toArray
def putInts (xs : List Int) : Json := Json.arr (xs.map (fun (i : Int) => Json.num (JsonNumber.fromInt i))).toArray
def putInt (i : Int) : Json := Json.num (JsonNumber.fromInt i)
def putNat (i : Nat) : Json := Json.num (JsonNumber.fromNat i)

abbrev Handler := Json → Except String Json

end Rex.Driver
