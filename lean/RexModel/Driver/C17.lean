import RexModel.Driver.Basic
import RexModel.Lib.Transform

open Lean Rex.Driver Rex.Gen.Transform Rex.Transform

namespace Rex.Driver.C17

/-- {"cmd":"c17.denorm","mins":[..],"maxs":[..],"xs":[..]} → apply, inv(apply), endpoints -/
def denorm : Handler := fun j => do
  let mins ← fieldFs j "mins"
  let maxs ← fieldFs j "maxs"
  let xs ← fieldFs j "xs"
  let so := denormInit mins maxs
  let ys := denormApply so xs
  let back := denormInv so ys
  let lo := denormApply so (xs.map fun _ => -1.0)
  let hi := denormApply so (xs.map fun _ => 1.0)
  pure <| Json.mkObj [("apply", putFs ys), ("back", putFs back), ("lo", putFs lo), ("hi", putFs hi)]

/-- chain of leafwise affine transforms given as (scale, offset) pairs per member: checks the order. -/
def chain : Handler := fun j => do
  let members ← fieldArr j "members"
  let ts ← members.mapM fun m => do
    let mn ← fieldF m "min"; let mx ← fieldF m "max"
    let kind ← fieldStr m "kind"
    pure <| (match kind with
      | "denorm" => (⟨fun x => denorm_denormalize x (denorm_offset mn mx) (denorm_scale mn mx),
                      fun x => denorm_normalize x (denorm_offset mn mx) (denorm_scale mn mx)⟩ : T Float)
      | "exp" => ⟨fun x => exp_apply Float.exp x, fun x => exp_inv Float.log x⟩
      | _ => ⟨id, id⟩)
  let xs ← fieldFs j "xs"
  let ys := xs.map (chainApplyOver (chain_apply_iter ts))
  let back := ys.map (chainInvOver (chain_inv_iter ts))
  pure <| Json.mkObj [("apply", putFs ys), ("back", putFs back)]

def optF (j : Json) : Except String (Option Float) :=
  match j with
  | .null => pure none
  | _ => do pure (some (← getF j))

def putOptFs (xs : List (Option Float)) : Json :=
  Json.arr (xs.map fun o => match o with | none => Json.null | some v => putF v).toArray

def extendH : Handler := fun j => do
  let base ← fieldFs j "base"
  let opt ← (← fieldArr j "opt").mapM optF
  let ext := extend base opt
  pure <| Json.mkObj [("ext", putFs ext), ("back", putOptFs (filter (maskOf opt) ext))]

def sharedH : Handler := fun j => do
  let xs ← (← fieldArr j "xs").mapM optF
  let i ← fieldNat j "i"; let k ← fieldNat j "j"
  let a := sharedApply i k xs
  pure <| Json.mkObj [("apply", putOptFs a), ("back", putOptFs (sharedInv i a))]

def handlers : List (String × Handler) :=
  [("c17.denorm", denorm), ("c17.chain", chain), ("c17.extend", extendH), ("c17.shared", sharedH)]

end Rex.Driver.C17
