import RexModel.Driver.Basic
import RexModel.Lib.Dist

/-! Executable model of C15 behind the JSON line protocol: the generated kernels of `Gen/Dist.lean` instantiated at
`Float` (binary64), plus the list plumbing of `Lib/Dist.lean`. `ndtri`, `exp`, `log` values that the implementation
obtains from JAX are either passed in by the harness (`z = ndtri q`) or taken from `Float.exp` / `Float.log`. -/

open Lean Rex.Driver Rex.Gen.Dist Rex.Dist

namespace Rex.Driver.C15

def putOptF (o : Option Float) : Json := match o with | none => Json.null | some v => putF v

/-- {"cmd":"c15.gridq","grid":[..],"cdf":[..],"ps":[..]} → first-exceeding index and grid value per level -/
def gridq : Handler := fun j => do
  let grid ← fieldFs j "grid"
  let cdf ← fieldFs j "cdf"
  let ps ← fieldFs j "ps"
  pure <| Json.mkObj [("idx", Json.arr (ps.map fun p => putNat (gridIndex cdf p)).toArray),
                      ("x", Json.arr (ps.map fun p => putOptF (gridQuantile grid cdf p)).toArray),
                      ("exceeds", Json.arr (ps.map fun p => Json.bool (cdf.any fun c => grid_gt c p)).toArray)]

/-- {"cmd":"c15.mixcdf","cdfs":[[..],..],"ws":[..]} → mixture CDF per grid point -/
def mixcdf : Handler := fun j => do
  let rows ← fieldArr j "cdfs"
  let ws ← fieldFs j "ws"
  let vals ← rows.mapM fun r => do pure (mix_cdf (← getFs r) ws)
  pure <| Json.mkObj [("cdf", putFs vals)]

/-- {"cmd":"c15.clip","xs":[..]} → clipped samples -/
def clipH : Handler := fun j => do
  let xs ← fieldFs j "xs"
  pure <| Json.mkObj [("ys", putFs (xs.map delay_clip))]

/-- {"cmd":"c15.normal","z":ndtri(q),"scale":..,"loc":..,"z999":..,"z001":..} → quantile, component bracket, grid bounds -/
def normal : Handler := fun j => do
  let z ← fieldF j "z"; let scale ← fieldF j "scale"; let loc ← fieldF j "loc"
  let z999 ← fieldF j "z999"; let z001 ← fieldF j "z001"
  let qmax := mix_qs_max (fun _ => z999) scale loc
  let qmin := mix_qs_min (fun _ => z001) scale loc
  pure <| Json.mkObj [("q", putF (quantile_normal (fun _ => z) 0.0 scale loc)),
                      ("det", putF (quantile_det loc)),
                      ("qmax", putF qmax), ("qmin", putF qmin),
                      ("gmin", putF (mix_grid_min qmin)), ("gmax", putF (mix_grid_max qmax)),
                      ("default", putF (node_default_delay (fun _ => quantile_normal (fun _ => z) 0.0 scale loc) false 0.0)),
                      ("ok", Json.bool (node_delay_ok (quantile_normal (fun _ => z) 0.0 scale loc)))]

/-- {"cmd":"c15.trainable","lo":..,"hi":..,"delay":..} -/
def trainable : Handler := fun j => do
  let lo ← fieldF j "lo"; let hi ← fieldF j "hi"; let d ← fieldF j "delay"
  let a := td_alpha_raw d lo hi
  let ac := td_get_alpha td_alpha_raw d lo hi
  pure <| Json.mkObj [("alpha", putF a), ("alpha_clipped", putF ac), ("quantile", putF (td_quantile lo hi a)),
                      ("sample", putF (td_sample lo hi a)), ("mean", putF (td_mean lo hi a))]

def insertAsc (x : Float × Float × Float) : List (Float × Float × Float) → List (Float × Float × Float)
  | [] => [x]
  | y :: ys => if x.1 < y.1 then x :: y :: ys else y :: insertAsc x ys

/-- ascending by weight (the model of `np.argsort(w)` applied to weights, scales and locations alike) -/
def sortAsc (xs : List (Float × Float × Float)) : List (Float × Float × Float) := xs.foldl (fun acc x => insertAsc x acc) []

/-- {"cmd":"c15.getdist","log_w":[..],"mus":[..],"log_s":[..],"std":..,"mean":..,"pct":..}
    → the mixture `get_dist` exports: weights, locations, scales after rescale / sort / prune / renormalise -/
def getdist : Handler := fun j => do
  let log_w ← fieldFs j "log_w"; let mus ← fieldFs j "mus"; let log_s ← fieldFs j "log_s"
  let std ← fieldF j "std"; let mean ← fieldF j "mean"; let pct ← fieldF j "pct"
  let w0 := initWeights Float.exp log_w
  let locs := mus.map fun m => gmm_rescale_mu m std mean
  let scales := gmm_scales Float.exp (log_s.map fun ls => gmm_rescale_log_scale Float.log ls std)
  let sorted := sortAsc (List.zip w0 (List.zip locs scales))
  let ws := sorted.map (·.1)
  let k := pruneIdx pct (0.0 : Float) ws
  let kept := sorted.drop k
  let wf := finalWeights pct ws
  pure <| Json.mkObj [("w0", putFs w0), ("prune_idx", putNat k), ("w", putFs wf),
                      ("loc", putFs (kept.map (·.2.1))), ("scale", putFs (kept.map (·.2.2)))]

/-- {"cmd":"c15.isdet","std":..,"threshold":..,"mean":..,"x":..} -/
def isdet : Handler := fun j => do
  let std ← fieldF j "std"; let th ← fieldF j "threshold"; let mean ← fieldF j "mean"; let x ← fieldF j "x"
  let d := gmm_is_deterministic std th mean
  pure <| Json.mkObj [("is_det", Json.bool d), ("branch", Json.bool (gmm_det_branch d)), ("loc", putF (gmm_det_loc mean)),
                      ("norm", putF (gmm_data_norm x mean std d))]

def handlers : List (String × Handler) :=
  [("c15.gridq", gridq), ("c15.mixcdf", mixcdf), ("c15.clip", clipH), ("c15.normal", normal),
   ("c15.trainable", trainable), ("c15.getdist", getdist), ("c15.isdet", isdet)]

end Rex.Driver.C15
