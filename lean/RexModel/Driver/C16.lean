import RexModel.Driver.Basic
import RexModel.Lib.Phase

/-! Executable model for C16: runs a constructor / connect / set_delay history on `Float` delays with the generated
kernels, and reports stored settings, phases (fuelled recursion) and the info round trip. Delay distributions are
tokens `(raw, id)`: `raw` = "is a distrax.Distribution", `wrap` clears the flag, `q99` is a table supplied by the caller. -/

open Lean Rex.Driver Rex.Gen.Phase Rex.Phase

namespace Rex.Driver.C16

abbrev Tok := Bool × Nat

def optTok (j : Json) : Except String (Option Tok) :=
  match j with
  | .null => pure none
  | _ => do pure (some (← fieldBool j "raw", ← fieldNat j "id"))

def optFloat (j : Json) : Except String (Option Float) :=
  match j with
  | .null => pure none
  | _ => do pure (some (← getF j))

def parseOp (j : Json) : Except String (Op Float Tok) := do
  let kind ← fieldStr j "op"
  let dist ← optTok (← field j "dist")
  let delay ← optFloat (← field j "delay")
  match kind with
  | "node" => pure (.newNode dist delay)
  | "connect" => pure (.connect (← fieldNat j "src") (← fieldNat j "dst") dist delay (← fieldBool j "skip") (← fieldBool j "blocking"))
  | "set_node" => pure (.setNode (← fieldNat j "n") dist delay)
  | "set_conn" => pure (.setConn (← fieldNat j "k") dist delay)
  | _ => throw s!"unknown op {kind}"

def putRes (r : Res Float) : Json :=
  match r with
  | .ok v => putF v
  | .loop => Json.str "loop"

def putNode (x : NodeSt Float Tok) : Json :=
  Json.mkObj [("delay", putF x.delay), ("raw", Json.bool x.dist.1), ("id", putNat x.dist.2)]

def putConn (c : ConnSt Float Tok) : Json :=
  Json.mkObj [("src", putNat c.src), ("dst", putNat c.dst), ("delay", putF c.delay), ("raw", Json.bool c.dist.1), ("id", putNat c.dist.2),
    ("skip", Json.bool c.skip), ("blocking", Json.bool c.blocking)]

def putInfo (i : NodeInfo Float Tok) : Json :=
  Json.mkObj [("name", putNat i.name), ("phase", putRes i.phase), ("delay", putF i.delay), ("raw", Json.bool i.dist.1), ("id", putNat i.dist.2),
    ("inputs", Json.arr (i.inputs.map fun ii => Json.mkObj [("output", putNat ii.output), ("phase", putRes ii.phase), ("delay", putF ii.delay),
      ("raw", Json.bool ii.dist.1), ("id", putNat ii.dist.2), ("skip", Json.bool ii.skip), ("blocking", Json.bool ii.blocking)]).toArray)]

/-- {"cmd":"c16.history","ops":[…],"q99":[…],"fuel":n} -/
def history : Handler := fun j => do
  let ops ← (← fieldArr j "ops").mapM parseOp
  let q99 ← fieldFs j "q99"
  let fuel ← fieldNat j "fuel"
  let D : DistOps Float Tok := { isD := fun t => t.1, wrap := fun t => (false, t.2), q99 := fun t => q99.getD t.2 0.0, dflt := (false, 0) }
  let s := St.run D { nodes := [], conns := [] } ops
  let g := s.graph
  let n := s.nodes.length
  let infos := s.infos fuel
  let rb := rebuild D infos
  pure <| Json.mkObj [
    ("nodes", Json.arr (s.nodes.map putNode).toArray),
    ("conns", Json.arr (s.conns.map putConn).toArray),
    ("phase", Json.arr ((List.range n).map fun k => putRes (phaseF g fuel k)).toArray),
    ("conn_phase", Json.arr (g.conns.map fun c => putRes (connPhaseF g fuel c)).toArray),
    ("infos", Json.arr (infos.map putInfo).toArray),
    ("rb_infos", Json.arr ((rb.infos fuel).map putInfo).toArray)]

def handlers : List (String × Handler) := [("c16.history", history)]

end Rex.Driver.C16
