import RexModel.Driver.Basic
import RexModel.Lib.PadStack

/-! Executable C14 model behind the JSON line protocol: node names are natural numbers, array entries are `Float`
(integers are exact in binary64). Columns are `[seq, ts_start, ts_end]` per vertex and `[seq_out, seq_in, ts_recv]` per edge. -/

open Lean Rex.Driver Rex.PadStack

namespace Rex.Driver.C14

abbrev G1 := Graph Nat (List Float)
abbrev G2 := Graph Nat (List (List Float))
abbrev R1 := Record Nat (List Float)

def cols (n : Nat) (j : Json) : Except String (List (List Float)) := do
  let a ← j.getArr?
  if a.size != n then throw s!"expected {n} columns"
  a.toList.mapM getFs

def pair (j : Json) : Except String (Nat × Nat) := do
  match (← getNats j) with
  | [x, y] => pure (x, y)
  | _ => throw "expected a pair"

def natLists (j : Json) : Except String (List (List Nat)) := do
  let a ← j.getArr?
  a.toList.mapM getNats

def col (c : List (List Float)) (i : Nat) : List Float := c.getD i []

/-- {"vkeys":[..], "v":[[seq,ts_start,ts_end],..], "ekeys":[[a,b],..], "e":[[seq_out,seq_in,ts_recv],..]} -/
def getGraph (j : Json) : Except String G1 := do
  let vkeys ← fieldNats j "vkeys"
  let vs ← (← fieldArr j "v").mapM (cols 3)
  let ekeys ← (← fieldArr j "ekeys").mapM pair
  let es ← (← fieldArr j "e").mapM (cols 3)
  let vt := vkeys.zip vs
  let et := ekeys.zip es
  pure ⟨vkeys, fun k => match vt.lookup k with | some c => ⟨col c 0, col c 1, col c 2⟩ | none => ⟨[], [], []⟩,
        ekeys, fun k => match et.lookup k with | some c => ⟨col c 0, col c 1, col c 2⟩ | none => ⟨[], [], []⟩⟩

/-- {"nkeys":[..], "steps":[[seq,ts_start,ts_end],..], "ikeys":[[..],..], "msgs":[[[seq_out,seq_in,ts_sent,ts_recv,delay],..],..]} -/
def getRecord (j : Json) : Except String R1 := do
  let nkeys ← fieldNats j "nkeys"
  let steps ← (← fieldArr j "steps").mapM (cols 3)
  let ikeys ← natLists (← field j "ikeys")
  let infok ← match j.getObjVal? "infokeys" with
    | .ok x => natLists x
    | .error _ => pure ikeys
  let msgs ← (← fieldArr j "msgs").mapM fun m => do (← m.getArr?).toList.mapM (cols 5)
  let st := nkeys.zip steps
  let it := nkeys.zip ikeys
  let ft := nkeys.zip infok
  let mt : List ((Nat × Nat) × List (List Float)) :=
    (nkeys.zip (ikeys.zip msgs)).flatMap fun (n2, (iks, ms)) => (iks.zip ms).map fun (n1, c) => ((n1, n2), c)
  pure ⟨nkeys, fun k => match st.lookup k with | some c => ⟨col c 0, col c 1, col c 2⟩ | none => ⟨[], [], []⟩,
        fun k => (it.lookup k).getD [], fun k => (ft.lookup k).getD [],
        fun k => match mt.lookup k with | some c => ⟨col c 0, col c 1, col c 2, col c 3, col c 4⟩ | none => ⟨[], [], [], [], []⟩⟩

def getSel (j : Json) : Except String (Sel Nat) := do
  let names ← fieldNats j "names"
  let inputs ← natLists (← field j "inputs")
  let t := names.zip inputs
  pure ⟨names, fun k => (t.lookup k).getD []⟩

def putPair (p : Nat × Nat) : Json := Json.arr #[putNat p.1, putNat p.2]
def putNats (l : List Nat) : Json := Json.arr (l.map putNat).toArray

def putGraph (g : G1) : Json :=
  Json.mkObj [("vkeys", putNats g.vkeys),
    ("v", Json.arr (g.vkeys.map fun k => Json.arr #[putFs (g.v k).seq, putFs (g.v k).tsStart, putFs (g.v k).tsEnd]).toArray),
    ("ekeys", Json.arr (g.ekeys.map putPair).toArray),
    ("e", Json.arr (g.ekeys.map fun k => Json.arr #[putFs (g.e k).seqOut, putFs (g.e k).seqIn, putFs (g.e k).tsRecv]).toArray)]

def putRows (c : List (List Float)) : Json := Json.arr (c.map putFs).toArray

def putGraph2 (g : G2) : Json :=
  Json.mkObj [("vkeys", putNats g.vkeys),
    ("v", Json.arr (g.vkeys.map fun k => Json.arr #[putRows (g.v k).seq, putRows (g.v k).tsStart, putRows (g.v k).tsEnd]).toArray),
    ("ekeys", Json.arr (g.ekeys.map putPair).toArray),
    ("e", Json.arr (g.ekeys.map fun k => Json.arr #[putRows (g.e k).seqOut, putRows (g.e k).seqIn, putRows (g.e k).tsRecv]).toArray)]

def putId (p : Nat × Float) : List Json := [putNat p.1, putF p.2]

def putOp : NxOp Nat Float → Json
  | .node id s ts te => Json.arr (Json.str "n" :: putId id ++ [putF s, putF ts, putF te]).toArray
  | .sedge u v => Json.arr (Json.str "s" :: putId u ++ putId v).toArray
  | .medge u v t => Json.arr (Json.str "m" :: putId u ++ putId v ++ [putF t]).toArray

def putOps (l : List (NxOp Nat Float)) : Json := Json.arr (l.map putOp).toArray

def optInt : Option Int → Json
  | some i => putInt i
  | none => Json.null

/-- {"cmd":"c14.tonx","graph":G} → the add_node / add_edge calls of to_networkx_graph, and `len` -/
def tonxH : Handler := fun j => do
  let g ← getGraph (← field j "graph")
  pure <| Json.mkObj [("ops", putOps (toNx g)), ("len", optInt (lenSingle g))]

/-- {"cmd":"c14.stack","graphs":[G..]} → the stacked arrays, `len`, and per episode: the extracted graph, its unpadded form,
its networkx calls -/
def stackH : Handler := fun j => do
  let gs ← (← fieldArr j "graphs").mapM getGraph
  match stack gs with
  | none => pure <| Json.mkObj [("ok", Json.bool false)]
  | some G =>
    let eps := (List.range gs.length).map fun i =>
      match getEp G i with
      | none => Json.null
      | some g => Json.mkObj [("graph", putGraph g), ("unpad", putGraph g.unpad), ("ops", putOps (toNx g))]
    pure <| Json.mkObj [("ok", Json.bool true), ("len", optInt (lenStacked G)), ("stacked", putGraph2 G), ("eps", Json.arr eps.toArray),
      ("orig_unpad", Json.arr (gs.map fun g => putGraph g.unpad).toArray)]

/-- {"cmd":"c14.gfilter","graph":G,"names":[..],"inputs":[[..]..],"flag":b} → kept keys -/
def gfilterH : Handler := fun j => do
  let g ← getGraph (← field j "graph")
  let s ← getSel j
  let flag ← fieldBool j "flag"
  let f := gfilter g s flag
  pure <| Json.mkObj [("vkeys", putNats f.vkeys), ("ekeys", Json.arr (f.ekeys.map putPair).toArray), ("ops", putOps (toNx f))]

def zeroEdge : Edge (List Float) := ⟨[], [], []⟩

/-- {"cmd":"c14.rfilter","record":R,"names":..,"inputs":..,"flag":b} → kept node / input keys and the graph of the result -/
def rfilterH : Handler := fun j => do
  let r ← getRecord (← field j "record")
  let s ← getSel j
  let flag ← fieldBool j "flag"
  match rfilter r s flag with
  | none => pure <| Json.mkObj [("ok", Json.bool false)]
  | some r' =>
    pure <| Json.mkObj [("ok", Json.bool true), ("nkeys", putNats r'.nkeys),
      ("ikeys", Json.arr (r'.nkeys.map fun n => putNats (r'.ikeys n)).toArray),
      ("infokeys", Json.arr (r'.nkeys.map fun n => putNats (r'.infoKeys n)).toArray),
      ("graph", putGraph (toGraph zeroEdge r'))]

/-- {"cmd":"c14.rstack","records":[R..]} → graph of the padded stack, the stack of the graphs, per episode the graph of the
extracted record -/
def rstackH : Handler := fun j => do
  let rs ← (← fieldArr j "records").mapM getRecord
  match paddedStack rs, stack (rs.map (toGraph zeroEdge)) with
  | some R, some G =>
    let viaRecords := toGraph (⟨[], [], []⟩ : Edge (List (List Float))) R
    let eps := (List.range rs.length).map fun i =>
      let r := R.getEp i
      Json.mkObj [("graph", putGraph (toGraph zeroEdge r)),
        ("msgs", Json.arr (r.nkeys.map fun n2 => Json.arr ((r.ikeys n2).map fun n1 =>
            let m := r.msgs (n1, n2)
            Json.arr #[putFs m.seqOut, putFs m.seqIn, putFs m.tsSent, putFs m.tsRecv, putFs m.delay]).toArray).toArray)]
    pure <| Json.mkObj [("ok", Json.bool true), ("via_records", putGraph2 viaRecords), ("via_graphs", putGraph2 G), ("eps", Json.arr eps.toArray),
      ("single", Json.arr (rs.map fun r => putGraph (toGraph zeroEdge r)).toArray)]
  | _, _ => pure <| Json.mkObj [("ok", Json.bool false)]

def handlers : List (String × Handler) :=
  [("c14.tonx", tonxH), ("c14.stack", stackH), ("c14.gfilter", gfilterH), ("c14.rfilter", rfilterH), ("c14.rstack", rstackH)]

end Rex.Driver.C14
