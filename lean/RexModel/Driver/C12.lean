import RexModel.Driver.Basic
import RexModel.Lib.Generator

/-! Executable model for C12 behind the JSON line protocol: the generated kernels of `Gen/Generator.lean` run on
`Float` (binary64; every float32 of the implementation is represented exactly, so comparisons between stored times
are decided exactly as the implementation decides them). -/

open Lean Rex.Driver Rex.Gen.Generator Rex.Generator

namespace Rex.Driver.C12

def fInf : Float := 1.0 / 0.0

/-- {"cmd":"c12.scan","rate":f,"tsMax":f,"phase":f,"delays":[f..]} → the vertices of one node -/
def scanH : Handler := fun j => do
  let rate ← fieldF j "rate"
  let tsMax ← fieldF j "tsMax"
  let phase ← fieldF j "phase"
  let delays ← fieldFs j "delays"
  let vs := scanSteps rate tsMax phase 0 delays
  pure <| Json.mkObj [("seq", putInts (vs.map (·.seq))), ("start", putFs (vs.map (·.tsStart))), ("end", putFs (vs.map (·.tsEnd)))]

/-- {"cmd":"c12.edge","skip":b,"tsMax":f,"senderSeq":[i..],"senderEnd":[f..],"delays":[f..],"recvStart":[f..],"recvSeq":[i..]}
→ seq_out, seq_in, ts_recv of one connection -/
def edgeH : Handler := fun j => do
  let skip ← fieldBool j "skip"
  let tsMax ← fieldF j "tsMax"
  let sseq ← fieldInts j "senderSeq"
  let send ← fieldFs j "senderEnd"
  let delays ← fieldFs j "delays"
  let rstart ← fieldFs j "recvStart"
  let rseq ← fieldInts j "recvSeq"
  let sender : List (Vtx Float) := List.zipWith (fun s e => ⟨s, 0.0, e⟩) sseq send
  let recv : List (Vtx Float) := List.zipWith (fun s t => ⟨s, t, t⟩) rseq rstart
  let e := genEdge skip fInf tsMax 0.0 sender delays rstart (seqMaxOf recv)
  pure <| Json.mkObj [("seqOut", putInts e.seqOut), ("seqIn", putInts e.seqIn), ("tsRecv", putFs e.tsRecv)]

/-- {"cmd":"c12.augment","existing":[k..],"keys":[k..]} → resulting key order and which keys were generated -/
def augmentH : Handler := fun j => do
  let existing ← fieldInts j "existing"
  let keys ← fieldInts j "keys"
  let r := augment aug_vertex_exists (fun _ => true) (existing.map fun k => (k, false)) keys
  let r2 := augment aug_edge_exists (fun _ => true) (existing.map fun k => (k, false)) keys
  pure <| Json.mkObj [("keys", putInts (r.map (·.1))), ("new", Json.arr (r.map (fun p => Json.bool p.2)).toArray),
    ("keysE", putInts (r2.map (·.1))), ("newE", Json.arr (r2.map (fun p => Json.bool p.2)).toArray)]

def handlers : List (String × Handler) :=
  [("c12.scan", scanH), ("c12.edge", edgeH), ("c12.augment", augmentH)]

end Rex.Driver.C12
