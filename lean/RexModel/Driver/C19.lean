import RexModel.Driver.Basic
import RexModel.Lib.Rl

/-! Executable C19 model (generated `rex/rl.py` kernels on `Float`) behind the JSON line protocol. -/

open Lean Rex.Driver Rex.Gen.Rl Rex.Rl

namespace Rex.Driver.C19

def getBools (j : Json) (k : String) : Except String (List Bool) := do
  (← fieldArr j k).mapM (·.getBool?)

def mkSteps (rs : List Float) (te tr : List Bool) : List (Step Float) :=
  List.zipWith (fun r (f : Bool × Bool) => ({ reward := r, terminated := f.1, truncated := f.2 } : Step Float)) rs (List.zip te tr)

/-- {"cmd":"c19.log","rewards":[..],"term":[..],"trunc":[..]} → the four `info` entries of every step -/
def logH : Handler := fun j => do
  let rs ← fieldFs j "rewards"
  let te ← getBools j "term"
  let tr ← getBools j "trunc"
  let infos := logInfos (logInit : LogState Float) (mkSteps rs te tr)
  pure <| Json.mkObj [("returns", putFs (infos.map (·.returns))), ("lengths", putFs (infos.map (·.lengths))),
    ("timestep", putFs (infos.map (·.timestep))), ("returned", putFs (infos.map (·.returned)))]

/-- {"cmd":"c19.squash","squash":b,"xs":[..],"lows":[..],"highs":[..]} → unsquash(xs), scale(unsquash(xs)), scale(xs) -/
def squashH : Handler := fun j => do
  let sq ← fieldBool j "squash"
  let xs ← fieldFs j "xs"
  let lows ← fieldFs j "lows"
  let highs ← fieldFs j "highs"
  let un := unsquashVec Float.tanh sq xs lows highs
  pure <| Json.mkObj [("unsquash", putFs un), ("scale_unsquash", putFs (scaleVec Float.atanh sq un lows highs)),
    ("scale", putFs (scaleVec Float.atanh sq xs lows highs))]

/-- {"cmd":"c19.clip","xs":[..],"lows":[..],"highs":[..]} → what `ClipActionWrapper.step` hands on -/
def clipH : Handler := fun j => do
  let xs ← fieldFs j "xs"
  let lows ← fieldFs j "lows"
  let highs ← fieldFs j "highs"
  pure <| Json.mkObj [("clipped", putFs (clipWrapperStep lows highs (fun (_ : Unit) a => a) () xs))]

def putM (m : Moments Float) : Json := Json.mkObj [("mean", putF m.mean), ("var", putF m.var), ("count", putF m.count)]

/-- {"cmd":"c19.obsnorm","clip":c,"b0":[..],"bs":[[..],..]} → statistics and normalised observations after reset and each step -/
def obsnormH : Handler := fun j => do
  let c ← fieldF j "clip"
  let b0 ← fieldFs j "b0"
  let bs ← (← fieldArr j "bs").mapM getFs
  let m0 := obsReset b0
  let out0 := Json.mkObj [("m", putM m0), ("out", putFs (b0.map (obsOut0 Float.sqrt m0 c)))]
  let (_, outs) := bs.foldl (fun (acc : Moments Float × List Json) b =>
    let m' := obsStep acc.1 b
    (m', acc.2 ++ [Json.mkObj [("m", putM m'), ("out", putFs (b.map (obsOut Float.sqrt m' c)))]])) (m0, [])
  pure <| Json.mkObj [("reset", out0), ("steps", Json.arr outs.toArray)]

/-- {"cmd":"c19.rewnorm","clip":c,"gamma":g,"n":n,"rewards":[[..],..],"term":[[..],..],"trunc":[[..],..]} -/
def rewnormH : Handler := fun j => do
  let c ← fieldF j "clip"
  let g ← fieldF j "gamma"
  let n ← fieldNat j "n"
  let rss ← (← fieldArr j "rewards").mapM getFs
  let tes ← (← fieldArr j "term").mapM fun x => do (← x.getArr?).toList.mapM (·.getBool?)
  let trs ← (← fieldArr j "trunc").mapM fun x => do (← x.getArr?).toList.mapM (·.getBool?)
  let hist := List.zipWith (fun rs (f : List Bool × List Bool) => mkSteps rs f.1 f.2) rss (List.zip tes trs)
  let (_, outs) := hist.foldl (fun (acc : RewState Float × List Json) xs =>
    let s' := rewStep g acc.1 xs
    (s', acc.2 ++ [Json.mkObj [("m", putM s'.m), ("rv", putFs s'.rv), ("out", putFs (xs.map fun x => rewOut Float.sqrt s'.m c x.reward))]]))
    (rewPrior n, [])
  pure <| Json.mkObj [("steps", Json.arr outs.toArray)]

/-- {"cmd":"c19.normalize","clip":b,"submean":b,"x":..,"mean":..,"var":..,"clipv":..} → normalize, denormalize(normalize) -/
def normalizeH : Handler := fun j => do
  let dc ← fieldBool j "clip"
  let sm ← fieldBool j "submean"
  let x ← fieldF j "x"; let mean ← fieldF j "mean"; let var ← fieldF j "var"; let cv ← fieldF j "clipv"
  let y := nv_normalize Float.sqrt dc sm x mean var cv
  pure <| Json.mkObj [("normalize", putF y), ("denormalize", putF (nv_denormalize Float.sqrt sm y mean var))]

/-- {"cmd":"c19.autoreset","steps":[[gs,obs,r,te,tr,info,g0,o0,i0],..]} over integer tokens → selected (gs, obs, r, te, tr, info) -/
def autoresetH : Handler := fun j => do
  let steps ← fieldArr j "steps"
  let outs ← steps.mapM fun s => do
    let a ← s.getArr?
    if a.size != 9 then throw "autoreset: 9 entries per step"
    let gi (i : Nat) : Except String Int := (a[i]!).getInt?
    let gs ← gi 0; let obs ← gi 1; let r ← gi 2
    let te ← (a[3]!).getBool?; let tr ← (a[4]!).getBool?
    let info ← gi 5; let g0 ← gi 6; let o0 ← gi 7; let i0 ← gi 8
    let (g, o, r', te', tr', i) := arStep (gs, obs, r, te, tr, info) g0 o0 i0
    pure <| Json.arr #[putInt g, putInt o, putInt r', Json.bool te', Json.bool tr', putInt i]
  pure <| Json.mkObj [("out", Json.arr outs.toArray)]

def handlers : List (String × Handler) :=
  [("c19.log", logH), ("c19.squash", squashH), ("c19.clip", clipH), ("c19.obsnorm", obsnormH), ("c19.rewnorm", rewnormH),
   ("c19.normalize", normalizeH), ("c19.autoreset", autoresetH)]

end Rex.Driver.C19
