import RexModel.Driver.Basic
import RexModel.Lib.Cem

/-! Executable CEM model on `Float` (IEEE `<`, `Float.isNaN`, `+∞ = 1/0`) behind the JSON line protocol. -/

open Lean Rex.Driver Rex.Cem

namespace Rex.Driver.C18

def fInf : Float := 1.0 / 0.0

/-- {"cmd":"c18.run","k":K,"best":f,"batches":[[loss,…],…]} → per iteration the elite indices, the stored candidate
(`-1` = initial mean, else `iteration * 100000 + index`) and the stored loss. Candidates are identified by position. -/
def runH : Handler := fun j => do
  let k ← fieldNat j "k"
  let best0 ← fieldF j "best"
  let bs ← fieldArr j "batches"
  let mut st : State Float Int (List Int) := ⟨[], -1, best0⟩
  let mut out : Array Json := #[]
  let mut it : Nat := 0
  for b in bs do
    let ls ← getFs b
    let cands : List Int := (List.range ls.length).map (fun i => ((it * 100000 + i : Nat) : Int))
    match update Float.isNaN fInf (fun _ es => es) k st cands ls with
    | none =>
      out := out.push (Json.mkObj [("raise", Json.str "IndexError")])
    | some s' =>
      st := s'
      out := out.push (Json.mkObj [("elites", putInts (s'.dist.map (fun c => c - ((it * 100000 : Nat) : Int)))),
        ("best", putInt s'.best), ("best_loss", putF s'.bestLoss)])
    it := it + 1
  pure (Json.mkObj [("steps", Json.arr out)])

/-- {"cmd":"c18.sample","mean":[..],"stdev":[..],"noise":[..],"lo":[..],"hi":[..]} → clipped samples, coordinatewise -/
def sampleH : Handler := fun j => do
  let mean ← fieldFs j "mean"
  let stdev ← fieldFs j "stdev"
  let noise ← fieldFs j "noise"
  let lo ← fieldFs j "lo"
  let hi ← fieldFs j "hi"
  let xs := (mean.zip (stdev.zip (noise.zip (lo.zip hi)))).map fun (m, s, n, l, h) => sampleCoord m s n l h
  pure (Json.mkObj [("samples", putFs xs)])

def handlers : List (String × Handler) := [("c18.run", runH), ("c18.sample", sampleH)]

end Rex.Driver.C18
