/-! Shared definitions used by the generated kernels and the hand-written models. Core Lean only. -/

namespace Rex

section
variable {α : Type} [Max α] [Min α]

/-- `jnp.clip(x, lo, hi) = minimum(maximum(x, lo), hi)` -/
@[inline] def clip (x lo hi : α) : α := min (max x lo) hi

end

end Rex

namespace Rex
/-- Python `xs[-w:]` for `w > 0`: the last `w` elements (all of them if there are fewer). -/
def lastN {β : Type} (w : Nat) (xs : List β) : List β := xs.drop (xs.length - w)
end Rex

namespace Rex
/-- Python `int(a // b)` on floats: the floor of the quotient, as an integer. -/
class FloorDiv (α : Type) where
  fdiv : α → α → Int
end Rex
