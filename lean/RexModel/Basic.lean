def hello := "world"
