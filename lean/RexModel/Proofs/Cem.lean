import RexModel.Lib.Cem
import Mathlib.Order.Defs.LinearOrder

/-! Helper lemmas for C18: correctness of the stable insertion sort, the order on `Loss Q`, the
specification of `argsort` / `elites`, and the one-step specification of `update`. -/

namespace Rex.Cem

open Rex.Gen.Cem

/-! ### stable insertion sort -/
section InsSort
variable {β : Type} (le : β → β → Bool)

theorem perm_insertBy (x : β) : ∀ l, (insertBy le x l).Perm (x :: l)
  | [] => List.Perm.refl _
  | y :: ys => by
    simp only [insertBy]
    split
    · exact List.Perm.refl _
    · exact ((perm_insertBy x ys).cons y).trans (List.Perm.swap x y ys)

theorem perm_isort : ∀ l, (isort le l).Perm l
  | [] => List.Perm.refl _
  | x :: xs => (perm_insertBy le x _).trans ((perm_isort xs).cons x)

variable {le}

theorem pairwise_insertBy (trans : ∀ a b c, le a b = true → le b c = true → le a c = true)
    (total : ∀ a b, le a b = true ∨ le b a = true) (x : β) :
    ∀ l, l.Pairwise (fun a b => le a b = true) → (insertBy le x l).Pairwise (fun a b => le a b = true)
  | [], _ => by simp [insertBy]
  | y :: ys, h => by
    have ⟨hy, hys⟩ := List.pairwise_cons.mp h
    simp only [insertBy]
    split
    · rename_i hxy
      refine List.pairwise_cons.mpr ⟨?_, h⟩
      intro z hz
      rcases List.mem_cons.mp hz with rfl | hz
      · exact hxy
      · exact trans _ _ _ hxy (hy z hz)
    · rename_i hxy
      have hyx : le y x = true := (total x y).resolve_left hxy
      refine List.pairwise_cons.mpr ⟨?_, pairwise_insertBy trans total x ys hys⟩
      intro z hz
      rcases List.mem_cons.mp ((perm_insertBy le x ys).mem_iff.mp hz) with rfl | hz
      · exact hyx
      · exact hy z hz

theorem pairwise_isort (trans : ∀ a b c, le a b = true → le b c = true → le a c = true)
    (total : ∀ a b, le a b = true ∨ le b a = true) :
    ∀ l, (isort le l).Pairwise (fun a b => le a b = true)
  | [] => List.Pairwise.nil
  | x :: xs => pairwise_insertBy trans total x _ (pairwise_isort trans total xs)

end InsSort

/-! ### the order on `Loss Q` -/
namespace Loss
variable {Q : Type} [LinearOrder Q]

@[simp] theorem lt_def (a b : Loss Q) : (a < b) = Loss.lt a b := rfl

theorem not_nan_lt (a : Loss Q) : ¬ (nan < a) := by cases a <;> simp [Loss.lt]
theorem not_lt_nan (a : Loss Q) : ¬ (a < nan) := by cases a <;> simp [Loss.lt]
theorem not_pinf_lt (a : Loss Q) : ¬ (pinf < a) := by cases a <;> simp [Loss.lt]
theorem lt_irrefl' (a : Loss Q) : ¬ (a < a) := by cases a <;> simp [Loss.lt]

theorem lt_trans' {a b c : Loss Q} : a < b → b < c → a < c := by
  cases a <;> cases b <;> cases c <;> simp [Loss.lt]
  exact lt_trans

/-- on non-NaN values `¬ · < ·` is the (total) order `≥`: antisymmetry -/
theorem eq_of_not_lt {a b : Loss Q} (ha : a ≠ nan) (hb : b ≠ nan) : ¬ a < b → ¬ b < a → a = b := by
  cases a <;> cases b <;> simp_all [Loss.lt]
  exact fun h1 h2 => le_antisymm h2 h1

/-- `a ≤ b ≤ c` with a non-NaN middle element: `≤` written as `¬ · > ·` -/
theorem not_lt_trans {a b c : Loss Q} (hb : b ≠ nan) : ¬ b < a → ¬ c < b → ¬ c < a := by
  cases a <;> cases b <;> cases c <;> simp_all [Loss.lt]
  exact fun h1 h2 => le_trans h1 h2

/-- `a < b ≤ c` -/
theorem lt_of_lt_of_not_lt {a b c : Loss Q} (hc : c ≠ nan) : a < b → ¬ c < b → a < c := by
  cases a <;> cases b <;> cases c <;> simp_all [Loss.lt]
  exact fun h1 h2 => lt_of_lt_of_le h1 h2

/-- `c ≤ a < b` -/
theorem lt_of_not_lt_of_lt {a b c : Loss Q} (hc : c ≠ nan) : ¬ a < c → a < b → c < b := by
  cases a <;> cases b <;> cases c <;> simp_all [Loss.lt]
  exact fun h1 h2 => lt_of_le_of_lt h1 h2

theorem lt_pinf_iff (a : Loss Q) : a < pinf ↔ better a = true := by
  cases a <;> simp [Loss.lt, better]

omit [LinearOrder Q] in
theorem better_ne_nan {a : Loss Q} (h : better a = true) : a ≠ nan := by
  cases a <;> simp_all [better]

end Loss

/-! ### `sortLe`, `argsort` and the elite indices on `Loss Q` -/
theorem sortLe_true_iff {α : Type} [LT α] [DecidableLT α] (isnan : α → Bool) (a b : α) :
    sortLe isnan a b = true ↔ ¬ b < a ∧ ¬ (isnan a = true ∧ isnan b = false) := by
  unfold sortLe
  by_cases h : b < a <;> cases isnan a <;> cases isnan b <;> simp [h]

section SortLe
variable {Q : Type} [LinearOrder Q]

theorem sortLe_trans (a b c : Loss Q) :
    sortLe Loss.isnan a b = true → sortLe Loss.isnan b c = true → sortLe Loss.isnan a c = true := by
  simp only [sortLe_true_iff]
  cases a <;> cases b <;> cases c <;> simp [Loss.isnan, Loss.lt]
  exact fun h1 h2 => le_trans h1 h2

theorem sortLe_total (a b : Loss Q) : sortLe Loss.isnan a b = true ∨ sortLe Loss.isnan b a = true := by
  simp only [sortLe_true_iff]
  cases a <;> cases b <;> simp [Loss.isnan, Loss.lt]
  exact le_total _ _

theorem sortLe_refl (a : Loss Q) : sortLe Loss.isnan a a = true := (sortLe_total a a).elim id id

/-- a non-NaN value may stand before `b` exactly when `b` is not smaller -/
theorem sortLe_iff {a b : Loss Q} (ha : a ≠ .nan) : sortLe Loss.isnan a b = true ↔ ¬ b < a := by
  simp only [sortLe_true_iff]
  cases a <;> cases b <;> simp_all [Loss.isnan, Loss.lt]

theorem mem_sortIdx {ls : List (Loss Q)} {p : Loss Q × Nat} :
    p ∈ sortIdx Loss.isnan ls ↔ ls[p.2]? = some p.1 := by
  unfold sortIdx
  rw [(perm_isort _ _).mem_iff]
  exact List.mem_zipIdx_iff_getElem?

theorem length_sortIdx (ls : List (Loss Q)) : (sortIdx Loss.isnan ls).length = ls.length := by
  unfold sortIdx
  rw [(perm_isort _ _).length_eq]
  simp

theorem pairwise_sortIdx (ls : List (Loss Q)) :
    (sortIdx Loss.isnan ls).Pairwise (fun p q => sortLe Loss.isnan p.1 q.1 = true) :=
  pairwise_isort (le := fun p q : Loss Q × Nat => sortLe Loss.isnan p.1 q.1)
    (fun a b c => sortLe_trans a.1 b.1 c.1) (fun a b => sortLe_total a.1 b.1) _

theorem elite_indices_eq (ls : List (Loss Q)) (k : Nat) :
    elite_indices (argsort Loss.isnan) ls k = ((sortIdx Loss.isnan ls).take k).map (·.2) := by
  simp [elite_indices, argsort, List.map_take]

/-- the elite indices point at `k` smallest values: an elite value may stand before every non-elite value -/
theorem elite_le_rest {ls : List (Loss Q)} {k i j : Nat} {a b : Loss Q}
    (hi : i ∈ elite_indices (argsort Loss.isnan) ls k) (hj : j ∉ elite_indices (argsort Loss.isnan) ls k)
    (ha : ls[i]? = some a) (hb : ls[j]? = some b) : sortLe Loss.isnan a b = true := by
  rw [elite_indices_eq] at hi hj
  obtain ⟨p, hp, rfl⟩ := List.mem_map.mp hi
  have hp' := mem_sortIdx.mp (List.mem_of_mem_take hp)
  have hpa : p.1 = a := by rw [hp'] at ha; exact Option.some.inj ha
  subst hpa
  have hq : (b, j) ∈ sortIdx Loss.isnan ls := mem_sortIdx.mpr hb
  rw [← List.take_append_drop k (sortIdx Loss.isnan ls)] at hq
  rcases List.mem_append.mp hq with hq | hq
  · exact absurd (List.mem_map.mpr ⟨(b, j), hq, rfl⟩) hj
  · have pw := pairwise_sortIdx ls
    rw [← List.take_append_drop k (sortIdx Loss.isnan ls)] at pw
    exact (List.pairwise_append.mp pw).2.2 p hp (b, j) hq

/-- elite indices are indices of the batch -/
theorem elite_lt_length {ls : List (Loss Q)} {k i : Nat}
    (hi : i ∈ elite_indices (argsort Loss.isnan) ls k) : i < ls.length := by
  rw [elite_indices_eq] at hi
  obtain ⟨p, hp, rfl⟩ := List.mem_map.mp hi
  have hp' := mem_sortIdx.mp (List.mem_of_mem_take hp)
  exact (List.getElem?_eq_some_iff.mp hp').1

/-- `elite_indices[0]` points at a smallest value of the batch -/
theorem best_index_spec {ls : List (Loss Q)} {k bi : Nat}
    (h : best_index (elite_indices (argsort Loss.isnan) ls k) = some bi) :
    bi ∈ elite_indices (argsort Loss.isnan) ls k ∧
    ∃ a, ls[bi]? = some a ∧ ∀ (j : Nat) (b : Loss Q), ls[j]? = some b → sortLe Loss.isnan a b = true := by
  have hmem : bi ∈ elite_indices (argsort Loss.isnan) ls k := by
    simp only [best_index] at h
    exact List.mem_of_getElem? h
  refine ⟨hmem, ?_⟩
  rw [elite_indices_eq] at h
  simp only [best_index] at h
  cases hs : sortIdx Loss.isnan ls with
  | nil => simp [hs] at h
  | cons p rest =>
    cases k with
    | zero => simp at h
    | succ k =>
      simp [hs] at h
      subst h
      have hp := mem_sortIdx.mp (hs ▸ List.mem_cons_self : p ∈ sortIdx Loss.isnan ls)
      refine ⟨p.1, hp, ?_⟩
      intro j b hb
      have hq : (b, j) ∈ sortIdx Loss.isnan ls := mem_sortIdx.mpr hb
      have pw := pairwise_sortIdx ls
      rw [hs] at hq pw
      rcases List.mem_cons.mp hq with h1 | h1
      · rw [← h1]; exact sortLe_refl _
      · exact (List.pairwise_cons.mp pw).1 _ h1

theorem best_index_some {ls : List (Loss Q)} {k : Nat} (hk : 0 < k) (hl : ls ≠ []) :
    ∃ bi, best_index (elite_indices (argsort Loss.isnan) ls k) = some bi := by
  rw [elite_indices_eq]
  have hlen := length_sortIdx ls
  cases hs : sortIdx Loss.isnan ls with
  | nil => rw [hs] at hlen; exact absurd (List.length_eq_zero_iff.mp hlen.symm) hl
  | cons p rest =>
    cases k with
    | zero => omega
    | succ k => exact ⟨p.2, by simp [best_index]⟩

end SortLe

/-! ### one step of `cem_update_mean_stdev` on `Loss Q` -/
section Update
variable {Q : Type} [LinearOrder Q] {C D : Type}

/-- the NaN → +∞ kernel at `Loss Q` -/
abbrev san (l : Loss Q) : Loss Q := nan_to_inf Loss.isnan l Loss.pinf

omit [LinearOrder Q] in
theorem san_ne_nan (l : Loss Q) : san l ≠ .nan := by cases l <;> simp [san, nan_to_inf, Loss.isnan]
omit [LinearOrder Q] in
theorem san_of_ne_nan {l : Loss Q} (h : l ≠ .nan) : san l = l := by
  cases l <;> simp_all [san, nan_to_inf, Loss.isnan]
omit [LinearOrder Q] in
theorem san_nan : san (.nan : Loss Q) = .pinf := rfl

/-- `m` is the minimum of `start` and the sanitised losses `ev` (as a non-NaN value of the order −∞ < finite < +∞) -/
def IsMinLoss (start : Loss Q) (ev : List (Loss Q)) (m : Loss Q) : Prop :=
  m ≠ .nan ∧ (m = start ∨ ∃ l ∈ ev, m = san l) ∧ ¬ start < m ∧ ∀ l ∈ ev, ¬ san l < m

/-- What one update does, in terms of an index `bi` of a smallest sanitised loss of the batch. -/
theorem update_spec {refit : D → List C → D} {numElites : Nat} {s s' : State (Loss Q) C D}
    {samples : List C} {raw : List (Loss Q)}
    (h : update Loss.isnan Loss.pinf refit numElites s samples raw = some s') :
    ∃ bi l c, raw[bi]? = some l ∧ samples[bi]? = some c ∧
      bi ∈ elites Loss.isnan Loss.pinf numElites raw ∧
      (∀ (j : Nat) (l' : Loss Q), raw[j]? = some l' → ¬ san l' < san l) ∧
      s'.best = (if s.bestLoss < san l then s.best else c) ∧
      s'.bestLoss = (if s.bestLoss < san l then s.bestLoss else san l) ∧
      s'.dist = refit s.dist (elite_samples samples (elites Loss.isnan Loss.pinf numElites raw)) := by
  unfold update at h
  simp only at h
  split at h
  · exact absurd h (by simp)
  · rename_i bi hbi
    split at h
    · rename_i bl bs hbl hbs
      obtain ⟨hmem, a, ha, hmin⟩ := best_index_spec hbi
      simp only [best_loss] at hbl
      simp only [best_sample] at hbs
      have hab : a = bl := by rw [ha] at hbl; exact Option.some.inj hbl
      subst hab
      simp only [sanitize, List.getElem?_map, Option.map_eq_some_iff] at ha
      obtain ⟨l, hl, rfl⟩ := ha
      refine ⟨bi, l, bs, hl, hbs, hmem, ?_, ?_⟩
      · intro j l' hl'
        have := hmin j (san l') (by simp [sanitize, List.getElem?_map, hl'])
        exact (sortLe_iff (san_ne_nan l)).mp this
      · cases h
        refine ⟨?_, ?_, ?_⟩ <;>
          simp only [ret_bestsofar, ret_bestsofar_loss, upd_best_sample, upd_best_loss, decide_eq_true_eq, san, elites]
    · exact absurd h (by simp)

theorem update_some {refit : D → List C → D} {numElites : Nat} (s : State (Loss Q) C D)
    {samples : List C} {raw : List (Loss Q)} (hk : 0 < numElites) (hne : raw ≠ [])
    (hlen : samples.length = raw.length) :
    ∃ s', update Loss.isnan Loss.pinf refit numElites s samples raw = some s' := by
  have hne' : sanitize Loss.isnan Loss.pinf raw ≠ [] := by simpa [sanitize] using hne
  obtain ⟨bi, hbi⟩ := best_index_some (k := numElites) hk hne'
  have hlt := elite_lt_length (best_index_spec hbi).1
  have hlt' : bi < raw.length := by simpa [sanitize] using hlt
  unfold update
  simp only [hbi, best_loss, best_sample]
  rw [List.getElem?_eq_getElem hlt, List.getElem?_eq_getElem (by omega : bi < samples.length)]
  exact ⟨_, rfl⟩

end Update

end Rex.Cem
