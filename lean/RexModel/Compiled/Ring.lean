import RexModel.Compiled.Schedule

namespace Rex.Sched

/-- consecutive writes `a, a+1, …, a+k-1` (what a producer does from the partition the execution starts at) -/
def Ring.writes (r : Ring) (a : Int) : Nat → Ring
  | 0 => r
  | k + 1 => (r.writes a k).write (a + k)

/-- what a slot holds after the writes `a ≤ w < n`: the *latest* sequence number of its residue class, or still the
default if no sequence number of that class was written -/
def Ring.SlotInv (r : Ring) (a n : Int) : Prop :=
  r.data.length = r.size ∧
  ∀ j, j < r.size →
    match r.data[j]? with
    | some (some s) => a ≤ s ∧ s < n ∧ n ≤ s + r.size ∧ slotOf s r.size = j
    | some none => ∀ w, a ≤ w → w < n → slotOf w r.size ≠ j
    | none => False

theorem Ring.slotInv_init (B : Nat) (a : Int) : (Ring.init B).SlotInv a a := by
  refine ⟨by simp [Ring.init], ?_⟩
  intro j hj
  simp only [Ring.init] at hj ⊢
  rw [List.getElem?_replicate]
  simp only [hj, if_true]
  intro w h1 h2; omega

theorem slotOf_lt (s : Int) (B : Nat) (hB : 0 < B) : slotOf s B < B := by
  unfold slotOf
  have h1 := Int.emod_nonneg s (show (B : Int) ≠ 0 by omega)
  have h2 := Int.emod_lt_of_pos s (show (0 : Int) < B by omega)
  omega

theorem slotOf_add_size (s : Int) (B : Nat) : slotOf (s + B) B = slotOf s B := by
  unfold slotOf; rw [Int.add_emod_right]

theorem Ring.slotInv_write (r : Ring) (a n : Int) (hB : 0 < r.size) (han : a ≤ n) (h : r.SlotInv a n) :
    (r.write n).SlotInv a (n + 1) := by
  obtain ⟨hlen, hs⟩ := h
  refine ⟨by simp [Ring.write, hlen], ?_⟩
  intro j hj
  simp only [Ring.write] at hj ⊢
  rw [List.getElem?_set]
  by_cases hjn : slotOf n r.size = j
  · subst hjn
    rw [if_pos rfl, if_pos (by rw [hlen]; exact hj)]
    exact ⟨han, by omega, by omega, rfl⟩
  · simp only [hjn, if_false]
    have := hs j hj
    cases hd : r.data[j]? with
    | none => rw [hd] at this; exact this
    | some o =>
      rw [hd] at this
      cases o with
      | none =>
        intro w h1 h2
        by_cases hw : w = n
        · subst hw; exact hjn
        · exact this w h1 (by omega)
      | some s =>
        obtain ⟨h1, h2, h3, h4⟩ := this
        refine ⟨h1, by omega, ?_, h4⟩
        by_cases he : n = s + r.size
        · exfalso; apply hjn; rw [he, slotOf_add_size]; exact h4
        · omega

theorem Ring.size_writes (r : Ring) (a : Int) (k : Nat) : (r.writes a k).size = r.size := by
  induction k with
  | zero => rfl
  | succ k ih => simp [Ring.writes, Ring.write, ih]

/-- every history of consecutive writes keeps the slot invariant -/
theorem Ring.slotInv_writes (B : Nat) (hB : 0 < B) (a : Int) (k : Nat) : ((Ring.init B).writes a k).SlotInv a (a + k) := by
  induction k with
  | zero => simpa [Ring.writes] using Ring.slotInv_init B a
  | succ k ih =>
    have hsz : ((Ring.init B).writes a k).size = B := by rw [Ring.size_writes]; rfl
    have := Ring.slotInv_write _ a (a + k) (by omega) (by omega) ih
    simpa [Ring.writes, Int.add_assoc] using this

/-- two sequence numbers of one residue class that both lie in a window of `B` consecutive numbers are equal -/
theorem slot_window_unique (B : Nat) (s q n : Int) (hs : s < n) (hs' : n ≤ s + B) (hq : q < n) (hq' : n ≤ q + B)
    (he : slotOf s B = slotOf q B) : s = q := by
  unfold slotOf at he
  have hB : (0 : Int) < B := by omega
  have h1 := Int.emod_nonneg s (show (B : Int) ≠ 0 by omega)
  have h2 := Int.emod_nonneg q (show (B : Int) ≠ 0 by omega)
  have he' : s % (B : Int) = q % (B : Int) := by omega
  have hd : (B : Int) ∣ (s - q) := by
    apply Int.dvd_of_emod_eq_zero; rw [Int.sub_emod, he']; simp
  obtain ⟨c, hc⟩ := hd
  have : c = 0 := by
    rcases Int.lt_trichotomy c 0 with h | h | h
    · exfalso
      have : (B : Int) * c ≤ (B : Int) * (-1) := Int.mul_le_mul_of_nonneg_left (by omega) (by omega)
      omega
    · exact h
    · exfalso
      have : (B : Int) * 1 ≤ (B : Int) * c := Int.mul_le_mul_of_nonneg_left (by omega) (by omega)
      omega
  subst this; omega

/-- **Ring refinement, real messages.** After the producer wrote `a … n-1` (consecutively, any number of them, any
buffer size), reading a sequence number `q` that was written and is among the last `B` returns exactly message `q`. -/
theorem Ring.read_live (B : Nat) (hB : 0 < B) (a : Int) (k : Nat) (q : Int) (strict : Bool)
    (h0 : 0 ≤ q) (hq : a ≤ q) (hlt : q < a + k) (hlive : a + k ≤ q + B) :
    ((Ring.init B).writes a k).readOk strict q = true := by
  have inv := Ring.slotInv_writes B hB a k
  have hsz : ((Ring.init B).writes a k).size = B := by rw [Ring.size_writes]; rfl
  obtain ⟨hlen, hs⟩ := inv
  rw [hsz] at hs hlen
  have := hs (slotOf q B) (slotOf_lt q B hB)
  simp only [Ring.readOk, hsz]
  cases hd : ((Ring.init B).writes a k).data[slotOf q B]? with
  | none => rw [hd] at this; exact this.elim
  | some o =>
    rw [hd] at this
    cases o with
    | none => exact absurd rfl (this q hq hlt)
    | some s =>
      obtain ⟨_, h2, h3, h4⟩ := this
      have : s = q := slot_window_unique B s q (a + k) h2 h3 hlt hlive h4
      simp [this, h0]

/-- **… and it is tight:** a sequence number that has dropped out of the last `B` is *not* read back (a newer one
sits in its slot) -/
theorem Ring.read_stale (B : Nat) (hB : 0 < B) (a : Int) (k : Nat) (q : Int) (strict : Bool)
    (hq : a ≤ q) (hstale : q + B < a + k) :
    ((Ring.init B).writes a k).readOk strict q = false := by
  have inv := Ring.slotInv_writes B hB a k
  have hsz : ((Ring.init B).writes a k).size = B := by rw [Ring.size_writes]; rfl
  obtain ⟨hlen, hs⟩ := inv
  rw [hsz] at hs hlen
  have := hs (slotOf q B) (slotOf_lt q B hB)
  simp only [Ring.readOk, hsz]
  cases hd : ((Ring.init B).writes a k).data[slotOf q B]? with
  | none => rfl
  | some o =>
    rw [hd] at this
    cases o with
    | none => exact absurd rfl (this q hq (by omega))
    | some s =>
      obtain ⟨_, h2, h3, h4⟩ := this
      have : s ≠ q := by omega
      simp [this]

/-- **Default entries.** A window entry with sequence number -1 reads the default output as long as fewer than `B`
messages `0 … n-1` were written, and a real message as soon as `B - 1` was written. -/
theorem Ring.read_default (B : Nat) (hB : 0 < B) (k : Nat) (strict : Bool) :
    ((Ring.init B).writes 0 k).readOk strict (-1) = decide (k < B) := by
  have inv := Ring.slotInv_writes B hB 0 k
  have hsz : ((Ring.init B).writes 0 k).size = B := by rw [Ring.size_writes]; rfl
  obtain ⟨hlen, hs⟩ := inv
  rw [hsz] at hs hlen
  have hslot : slotOf (-1) B = B - 1 := by
    unfold slotOf
    have : (-1 : Int) % (B : Int) = (B : Int) - 1 := by
      rw [show (-1 : Int) = ((B : Int) - 1) + (B : Int) * (-1) by omega, Int.add_mul_emod_self_left]
      exact Int.emod_eq_of_lt (by omega) (by omega)
    rw [this]; omega
  have := hs (B - 1) (by omega)
  simp only [Ring.readOk, hsz, hslot]
  cases hd : ((Ring.init B).writes 0 k).data[B - 1]? with
  | none => rw [hd] at this; exact this.elim
  | some o =>
    rw [hd] at this
    cases o with
    | none =>
      have hk : k < B := by
        rcases Nat.lt_or_ge k B with hk | hge
        · exact hk
        · exfalso
          have h1 := this ((B : Int) - 1) (by omega) (by omega)
          apply h1
          unfold slotOf
          rw [Int.emod_eq_of_lt (by omega) (by omega)]; omega
      simp [hk]
    | some s =>
      obtain ⟨h1, h2, _, h4⟩ := this
      have hk : ¬ k < B := by
        intro hk
        unfold slotOf at h4
        rw [Int.emod_eq_of_lt h1 (by omega)] at h4
        omega
      simp [hk]

end Rex.Sched

namespace Rex.Sched

/-! ## the replay's `writeAll` seen from one kind -/

def Ring.writeList (r : Ring) (l : List Int) : Ring := l.foldl Ring.write r

/-- the sequence numbers one kind writes during a list of cells, in execution order -/
def seqsOf (κ : Nat) (cs : List Cell) : List Int := (cs.filter (·.kind == κ)).map (·.seq)

theorem writeAll_length (rings : List Ring) (cs : List Cell) : (writeAll rings cs).length = rings.length := by
  induction cs generalizing rings with
  | nil => rfl
  | cons c cs ih =>
    simp only [writeAll, List.foldl_cons] at ih ⊢
    rw [ih]
    cases h : rings[c.kind]? <;> simp

/-- `writeAll` changes the ring of kind `κ` exactly by the writes of the cells of kind `κ`, in order -/
theorem writeAll_kind (rings : List Ring) (cs : List Cell) (κ : Nat) :
    (writeAll rings cs)[κ]? = (rings[κ]?).map fun r => r.writeList (seqsOf κ cs) := by
  induction cs generalizing rings with
  | nil =>
    show rings[κ]? = _
    cases h : rings[κ]? <;> simp [seqsOf, Ring.writeList]
  | cons c cs ih =>
    simp only [writeAll, List.foldl_cons] at ih ⊢
    rw [ih]
    by_cases hk : c.kind = κ
    · subst hk
      cases h : rings[c.kind]? with
      | none => simp [h]
      | some r =>
        have hlt : c.kind < rings.length := by
          rcases Nat.lt_or_ge c.kind rings.length with h' | h'
          · exact h'
          · rw [List.getElem?_eq_none h'] at h; cases h
        simp [seqsOf, Ring.writeList, hlt]
    · have hne : (c.kind == κ) = false := by simpa using hk
      cases h : rings[c.kind]? with
      | none => simp [seqsOf, hne]
      | some r => simp [seqsOf, hne, hk]

/-- the list `a, a+1, …, a+k-1` -/
def consec (a : Int) : Nat → List Int
  | 0 => []
  | k + 1 => consec a k ++ [a + k]

theorem Ring.writeList_consec (r : Ring) (a : Int) (k : Nat) : r.writeList (consec a k) = r.writes a k := by
  induction k with
  | zero => rfl
  | succ k ih => simp [consec, Ring.writeList, List.foldl_append, Ring.writes] at ih ⊢; rw [ih]

/-- **Replay read, stated on the replay's own state.** If the cells executed so far wrote, for kind `κ`, the
consecutive sequence numbers `a … a+k-1` into a fresh ring of any size `B`, every read of a live message of that kind
(`a ≤ q`, among the last `B`) succeeds in the replay. -/
theorem replay_read_live (sizes : List Nat) (cs : List Cell) (κ B : Nat) (hB : 0 < B) (hsz : sizes[κ]? = some B)
    (a : Int) (k : Nat) (hcons : seqsOf κ cs = consec a k) (q : Int) (strict : Bool)
    (h0 : 0 ≤ q) (hq : a ≤ q) (hlt : q < a + k) (hlive : a + k ≤ q + B) :
    ∃ r, (writeAll (sizes.map Ring.init) cs)[κ]? = some r ∧ r.readOk strict q = true := by
  refine ⟨(Ring.init B).writes a k, ?_, Ring.read_live B hB a k q strict h0 hq hlt hlive⟩
  rw [writeAll_kind, hcons, List.getElem?_map, hsz]
  simp [Ring.writeList_consec]

/-- non-vacuity: three cells of kind 1 and one of kind 0 -/
example : seqsOf 1 [⟨0, 1, 0, 0, true, 0, 0, 5, []⟩, ⟨1, 0, 1, 0, true, 0, 7, 9, []⟩, ⟨0, 1, 0, 1, true, 1, 0, 5, []⟩, ⟨0, 1, 0, 2, true, 2, 0, 5, []⟩]
    = consec 0 3 := by decide

end Rex.Sched

namespace Rex.Sched

/-! ## the hypotheses of `replay_read_live`, decided per compiled instance by the driver -/

def isConsec (l : List Int) : Bool :=
  match l with
  | [] => true
  | a :: _ => l == consec a l.length

/-- the cells the replay executes from `startPart` on, in execution order -/
def cellsFrom (i : Inst) (startPart : Nat) : List Cell :=
  (gridFrom i startPart).flatMap fun pg => cellsAt i pg.1 pg.2

/-- every kind writes consecutive sequence numbers during the replay -/
def consecOk (i : Inst) (kinds startPart : Nat) : Bool :=
  (List.range kinds).all fun κ => isConsec (seqsOf κ (cellsFrom i startPart))

theorem isConsec_spec (l : List Int) (h : isConsec l = true) : ∃ a k, l = consec a k := by
  cases l with
  | nil => exact ⟨0, 0, rfl⟩
  | cons a t =>
    simp only [isConsec, beq_iff_eq] at h
    exact ⟨a, (a :: t).length, h⟩

example : isConsec [3, 4, 5] = true := by decide
example : isConsec [3, 5] = false := by decide

end Rex.Sched

namespace Rex.Sched

/-! ## reads of messages written *before* the writes the ring has seen (execution started at a later partition) -/

/-- a real message `q` older than the first write `a` the ring has seen, with the write front still within `B` of it:
its slot still holds the default output, never another message -/
theorem Ring.read_before_start (B : Nat) (hB : 0 < B) (a : Int) (k : Nat) (q : Int)
    (hq : q < a) (hlive : a + k ≤ q + B) :
    ((Ring.init B).writes a k).readOk false q = true := by
  have inv := Ring.slotInv_writes B hB a k
  have hsz : ((Ring.init B).writes a k).size = B := by rw [Ring.size_writes]; rfl
  obtain ⟨hlen, hs⟩ := inv
  rw [hsz] at hs hlen
  have := hs (slotOf q B) (slotOf_lt q B hB)
  simp only [Ring.readOk, hsz]
  cases hd : ((Ring.init B).writes a k).data[slotOf q B]? with
  | none => rw [hd] at this; exact this.elim
  | some o =>
    rw [hd] at this
    cases o with
    | none => simp
    | some s =>
      exfalso
      obtain ⟨h1, h2, _, h4⟩ := this
      -- s and q share a slot, q < a ≤ s < a + k ≤ q + B
      have : s = q := slot_window_unique B s q (q + B) (by omega) (by omega) (by omega) (by omega) h4
      omega

/-- the default entry when the ring has only seen writes `a … a+k-1` with `a + k < B`: still the default output -/
theorem Ring.read_default_from (B : Nat) (hB : 0 < B) (a : Int) (k : Nat) (strict : Bool) (ha : 0 ≤ a) (hlt : a + k < B) :
    ((Ring.init B).writes a k).readOk strict (-1) = true := by
  have inv := Ring.slotInv_writes B hB a k
  have hsz : ((Ring.init B).writes a k).size = B := by rw [Ring.size_writes]; rfl
  obtain ⟨hlen, hs⟩ := inv
  rw [hsz] at hs hlen
  have hslot : slotOf (-1) B = B - 1 := by
    unfold slotOf
    have : (-1 : Int) % (B : Int) = (B : Int) - 1 := by
      rw [show (-1 : Int) = ((B : Int) - 1) + (B : Int) * (-1) by omega, Int.add_mul_emod_self_left]
      exact Int.emod_eq_of_lt (by omega) (by omega)
    rw [this]; omega
  have := hs (B - 1) (by omega)
  simp only [Ring.readOk, hsz, hslot]
  cases hd : ((Ring.init B).writes a k).data[B - 1]? with
  | none => rw [hd] at this; exact this.elim
  | some o =>
    rw [hd] at this
    cases o with
    | none => simp
    | some s =>
      exfalso
      obtain ⟨h1, h2, _, h4⟩ := this
      unfold slotOf at h4
      rw [Int.emod_eq_of_lt (by omega) (by omega)] at h4
      omega

end Rex.Sched
