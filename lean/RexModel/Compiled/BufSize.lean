/-! Model of `Timings.get_buffer_sizes` (rex/base.py) for one (consumer input, producer) pair of one episode, over
the flattened (partition, generation) grid, and the bound it guarantees. Core Lean only.

`minIn[t]`  = smallest sequence number any runnable cell of the consumer reads from the producer at grid position `t`
              (masked positions hold the fill value `I32MAX`), -1 entries included;
`maxOut[t]` = largest sequence number a runnable cell of the producer writes at `t` (masked: `I32MIN`).
rex: `max_seq_in = minimum.accumulate(reversed)`, `max_seq_out = maximum.accumulate`, rolled by one position
("the output is written after the buffer is read"), first position `I32MIN`; size = `max(offs - max_seq_in) + 1`. -/

namespace Rex.Sched

def I32MAX : Int := 2147483647
def I32MIN : Int := -2147483648

/-- `minimum.accumulate` from the right: entry `t` is the minimum of `l[t..]` -/
def sufMin : List Int → List Int
  | [] => []
  | x :: xs =>
    match sufMin xs with
    | [] => [x]
    | m :: ms => min x m :: m :: ms

/-- `maximum.accumulate` rolled right by one position: entry `t` is the maximum of `acc` and `l[..t)` -/
def preMaxFrom (acc : Int) : List Int → List Int
  | [] => []
  | x :: xs => acc :: preMaxFrom (max acc x) xs

def lmax : List Int → Int
  | [] => 0
  | x :: xs => xs.foldl max x

def slack (minIn maxOut : List Int) : List Int := List.zipWith (· - ·) (preMaxFrom I32MIN maxOut) (sufMin minIn)

def bufSize (minIn maxOut : List Int) : Int := lmax (slack minIn maxOut) + 1

theorem sufMin_length (l : List Int) : (sufMin l).length = l.length := by
  induction l with
  | nil => rfl
  | cons x xs ih =>
    simp only [sufMin]
    cases h : sufMin xs with
    | nil =>
      rw [h] at ih
      have : xs.length = 0 := ih.symm
      simp [this]
    | cons m ms =>
      rw [h] at ih
      have : xs.length = ms.length + 1 := by rw [← ih]; rfl
      simp [this]

theorem preMaxFrom_length (acc : Int) (l : List Int) : (preMaxFrom acc l).length = l.length := by
  induction l generalizing acc with
  | nil => rfl
  | cons x xs ih => simp [preMaxFrom, ih]

/-- every entry of the suffix minimum is below the entry of the list at any later-or-equal position -/
theorem sufMin_le (l : List Int) (t v : Nat) (htv : t ≤ v) (hv : v < l.length) :
    (sufMin l)[t]'(by rw [sufMin_length]; omega) ≤ l[v] := by
  induction l generalizing t v with
  | nil => simp at hv
  | cons x xs ih =>
    have hlen := sufMin_length xs
    cases h : sufMin xs with
    | nil =>
      rw [h] at hlen
      have : xs = [] := List.length_eq_zero_iff.mp hlen.symm
      subst this
      simp at hv; subst hv
      have : t = 0 := by omega
      subst this
      simp [sufMin]
    | cons m ms =>
      have hxs : 0 < xs.length := by rw [← hlen, h]; simp
      cases t with
      | zero =>
        have e : (sufMin (x :: xs))[0]'(by rw [sufMin_length]; simp) = min x m := by simp [sufMin, h]
        rw [e]
        cases v with
        | zero => simp; exact Int.min_le_left _ _
        | succ v =>
          have hv' : v < xs.length := by simpa using hv
          have := ih 0 v (by omega) hv'
          have e0 : (sufMin xs)[0]'(by rw [sufMin_length]; omega) = m := by simp [h]
          rw [e0] at this
          simp only [List.getElem_cons_succ]
          exact Int.le_trans (Int.min_le_right _ _) this
      | succ t =>
        cases v with
        | zero => omega
        | succ v =>
          have hv' : v < xs.length := by simpa using hv
          have := ih t v (by omega) hv'
          have e : (sufMin (x :: xs))[t + 1]'(by rw [sufMin_length]; simp; omega) = (sufMin xs)[t]'(by rw [sufMin_length]; omega) := by
            simp [sufMin, h]
          rw [e]; simpa using this

theorem preMaxFrom_ge_acc (acc : Int) (l : List Int) (t : Nat) (ht : t < l.length) :
    acc ≤ (preMaxFrom acc l)[t]'(by rw [preMaxFrom_length]; exact ht) := by
  induction l generalizing acc t with
  | nil => simp at ht
  | cons x xs ih =>
    cases t with
    | zero => simp [preMaxFrom]
    | succ t =>
      have ht' : t < xs.length := by simpa using ht
      have := ih (max acc x) t ht'
      simp only [preMaxFrom, List.getElem_cons_succ]
      exact Int.le_trans (Int.le_max_left _ _) this

/-- the rolled prefix maximum at `t` dominates every entry strictly before `t` -/
theorem preMaxFrom_ge (acc : Int) (l : List Int) (u t : Nat) (hut : u < t) (ht : t < l.length) :
    l[u] ≤ (preMaxFrom acc l)[t]'(by rw [preMaxFrom_length]; exact ht) := by
  induction l generalizing acc u t with
  | nil => simp at ht
  | cons x xs ih =>
    cases t with
    | zero => omega
    | succ t =>
      have ht' : t < xs.length := by simpa using ht
      simp only [preMaxFrom, List.getElem_cons_succ]
      cases u with
      | zero =>
        simp only [List.getElem_cons_zero]
        exact Int.le_trans (Int.le_max_right _ _) (preMaxFrom_ge_acc (max acc x) xs t ht')
      | succ u =>
        simp only [List.getElem_cons_succ]
        exact ih (max acc x) u t (by omega) ht'

theorem foldl_max_ge_init (l : List Int) (a : Int) : a ≤ l.foldl max a := by
  induction l generalizing a with
  | nil => exact Int.le_refl _
  | cons x xs ih => exact Int.le_trans (Int.le_max_left _ _) (ih (max a x))

theorem foldl_max_ge_mem (l : List Int) (a x : Int) (hx : x ∈ l) : x ≤ l.foldl max a := by
  induction l generalizing a with
  | nil => cases hx
  | cons y ys ih =>
    simp only [List.foldl_cons]
    rcases List.mem_cons.mp hx with h | h
    · subst h; exact Int.le_trans (Int.le_max_right _ _) (foldl_max_ge_init ys _)
    · exact ih _ h

theorem lmax_ge (l : List Int) (x : Int) (hx : x ∈ l) : x ≤ lmax l := by
  cases l with
  | nil => cases hx
  | cons y ys =>
    simp only [lmax]
    rcases List.mem_cons.mp hx with h | h
    · subst h; exact foldl_max_ge_init ys _
    · exact foldl_max_ge_mem ys y x h

/-- **What the computed size guarantees.** A message `W` written at a grid position strictly before `t` and a
sequence number `q` read at `t` (or later) are never further apart than the computed size: at most `bufSize`
messages are live. -/
theorem bufSize_live (minIn maxOut : List Int) (hlen : minIn.length = maxOut.length) (u t v : Nat)
    (hut : u < t) (htv : t ≤ v) (hv : v < minIn.length) (q W : Int)
    (hq : minIn[v] ≤ q) (hW : W ≤ maxOut[u]'(by omega)) :
    W - q + 1 ≤ bufSize minIn maxOut := by
  have ht1 : t < maxOut.length := by omega
  have h1 := preMaxFrom_ge I32MIN maxOut u t hut ht1
  have h2 := sufMin_le minIn t v htv hv
  have hl1 : t < (preMaxFrom I32MIN maxOut).length := by rw [preMaxFrom_length]; exact ht1
  have hl2 : t < (sufMin minIn).length := by rw [sufMin_length]; omega
  have hmem : (preMaxFrom I32MIN maxOut)[t] - (sufMin minIn)[t] ∈ slack minIn maxOut := by
    unfold slack
    have hl : t < (List.zipWith (· - ·) (preMaxFrom I32MIN maxOut) (sufMin minIn)).length := by
      simp [List.length_zipWith]; omega
    have := List.getElem_mem hl
    simpa [List.getElem_zipWith] using this
  have := lmax_ge _ _ hmem
  unfold bufSize
  omega

/-- non-vacuity and tightness on a small grid: producer writes 0,1,2,3 at positions 0..3, consumer reads 0 at position 2
and 2 at position 4 (window 1): two messages are live when 0 is read (0 and 1) -/
example : bufSize [I32MAX, I32MAX, 0, I32MAX, 2] [0, 1, 2, 3, I32MIN] = 2 := by decide
/-- … and with a -1 entry in the first window the default slot is kept free of the messages written before that read -/
example : bufSize [I32MAX, I32MAX, -1, I32MAX, 2] [0, 1, 2, 3, I32MIN] = 3 := by decide

end Rex.Sched
