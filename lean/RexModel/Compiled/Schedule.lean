/-! A checker for compiled schedules (`Graph.timings`) of one episode, and the ring-buffer replay. Core Lean only.

The supergraph library that produces the partitioning is external; its output is validated per instance by
`checkSchedule`, whose soundness (what a `true` answer implies, for every instance) is proved in `Props/C07.lean`. -/

namespace Rex.Sched

structure Vtx where
  kind : Nat
  seq : Int
deriving DecidableEq, Repr

/-- one vertex of the windowed computation graph with its own data -/
structure VRow where
  v : Vtx
  tsStart : Nat          -- bit pattern of the (non-negative) float: equality and order are those of the floats
  tsEnd : Nat
  wins : List (Nat × List Int × List Nat × List Nat)   -- per input: producer kind, window seqs, ts_sent bits, ts_recv bits
deriving DecidableEq, Repr

/-- one (slot, partition) cell of the timings -/
structure Cell where
  slot : Nat
  kind : Nat
  gen : Nat
  part : Nat
  run : Bool
  seq : Int
  tsStart : Nat
  tsEnd : Nat
  wins : List (Nat × List Int × List Nat × List Nat)
deriving DecidableEq, Repr

structure Inst where
  sup : Nat
  parts : Nat            -- number of partitions (horizon)
  gens : Nat             -- number of generations per partition
  prune : Bool
  verts : List VRow
  cells : List Cell

def Cell.v (c : Cell) : Vtx := ⟨c.kind, c.seq⟩
def Cell.pos (c : Cell) : Nat × Nat := (c.part, c.gen)

def posLt (a b : Nat × Nat) : Bool := a.1 < b.1 || (a.1 == b.1 && a.2 < b.2)

/-- dependencies of a vertex: its node's previous step, and the producer of every real message in its windows -/
def depsOf (r : VRow) : List Vtx :=
  (if r.v.seq > 0 then [⟨r.v.kind, r.v.seq - 1⟩] else []) ++
  r.wins.flatMap fun w => (w.2.1.filter (· ≥ 0)).map fun s => (⟨w.1, s⟩ : Vtx)

def Inst.sched (i : Inst) : List Cell := i.cells.filter (·.run)

def Inst.row? (i : Inst) (v : Vtx) : Option VRow := i.verts.find? (·.v == v)

/-- c1: no vertex is scheduled twice -/
def c1 (i : Inst) : Bool := (i.sched.map Cell.v).Nodup

/-- c3: every dependency of a scheduled vertex is scheduled strictly earlier (earlier partition, or earlier generation
of the same partition); this contains "consecutive steps of a node run in sequence order" (stateful dependency) -/
def c3 (i : Inst) : Bool :=
  i.sched.all fun c =>
    match i.row? c.v with
    | none => false
    | some r => (depsOf r).all fun d => i.sched.any fun c' => c'.v == d && posLt c'.pos c.pos

/-- c4: supervisor step p closes partition p: it is scheduled in the last generation of partition p, alone -/
def c4 (i : Inst) : Bool :=
  (List.range i.parts).all (fun p =>
    i.sched.any fun c => c.kind == i.sup && c.part == p && c.seq == (p : Int) && c.gen + 1 == i.gens) &&
  i.cells.all fun c => c.gen + 1 == i.gens → c.kind == i.sup

/-- c5: every scheduled cell carries the vertex's own sequence number, times and input windows -/
def c5 (i : Inst) : Bool :=
  i.sched.all fun c =>
    match i.row? c.v with
    | none => false
    | some r => r.tsStart == c.tsStart && r.tsEnd == c.tsEnd && r.wins == c.wins

/-- c6 (prune off): every vertex that finishes before a supervisor step of the horizon starts is scheduled. The
supervisor's own steps are excluded: which of them run is fixed by c4 (step p closes partition p), and a zero-duration
supervisor step *beyond* the horizon can end at the very time an earlier step of the horizon starts without being
owed a slot. -/
def c6 (i : Inst) : Bool :=
  i.prune ||
  i.verts.all fun r =>
    r.v.kind == i.sup ||
    decide (((List.range i.parts).any fun p =>
      match i.row? ⟨i.sup, p⟩ with
      | some s => r.tsEnd ≤ s.tsStart
      | none => false) → i.sched.any fun c => c.v == r.v)

/-- the vertices c6 owes a slot and that have none (empty iff `c6`; reported so that the harness can say which) -/
def c6Missing (i : Inst) : List Vtx :=
  if i.prune then [] else
  (i.verts.filter fun r =>
    !(r.v.kind == i.sup) &&
    ((List.range i.parts).any fun p =>
      match i.row? ⟨i.sup, p⟩ with
      | some s => r.tsEnd ≤ s.tsStart
      | none => false) && !(i.sched.any fun c => c.v == r.v)).map (·.v)

/-- c7: within one generation of one partition no two runnable cells have the same kind (per-kind overwrite of the executor) -/
def c7 (i : Inst) : Bool :=
  i.sched.all fun c => i.sched.all fun c' => (c.kind == c'.kind && c.part == c'.part && c.gen == c'.gen) → c.slot == c'.slot

/-- sequence numbers of scheduled cells are real -/
def c0 (i : Inst) : Bool := i.sched.all fun c => c.seq ≥ 0 && c.part < i.parts && c.gen < i.gens

def checkSchedule (i : Inst) : Bool := c0 i && c1 i && c3 i && c4 i && c5 i && c6 i && c7 i

def failing (i : Inst) : List String :=
  (if c0 i then [] else ["c0: a scheduled cell has a negative sequence number or lies outside the partition/generation grid"]) ++
  (if c1 i then [] else ["c1: a vertex is scheduled twice"]) ++
  (if c3 i then [] else ["c3: a dependency (previous step or window producer) of a scheduled vertex is not scheduled strictly earlier"]) ++
  (if c4 i then [] else ["c4: supervisor step p does not close partition p (last generation, alone)"]) ++
  (if c5 i then [] else ["c5: a scheduled cell does not carry its vertex's own times / input window"]) ++
  (if c6 i then [] else ["c6: (prune off) a vertex finishing before a supervisor step of the horizon is not scheduled"]) ++
  (if c7 i then [] else ["c7: two runnable cells of one kind in the same generation"])

/-! ## ring-buffer replay -/

/-- replay the reads and writes of the schedule against ring buffers of the given sizes (per kind); reads of a
generation see the buffers as they were when the generation started. Returns the first bad read, if any. -/
structure Ring where
  size : Nat
  data : List (Option Int)      -- `none`: still the default output

def Ring.init (size : Nat) : Ring := ⟨size, List.replicate size none⟩

def slotOf (seq : Int) (size : Nat) : Nat := (seq % (size : Int)).toNat

def Ring.write (r : Ring) (seq : Int) : Ring := { r with data := r.data.set (slotOf seq r.size) (some seq) }

/-- `strict`: execution started at partition 0, so a real message must be in the buffer; otherwise the producer may
not have run since the start and the slot may still hold the default output — but never another message -/
def Ring.readOk (strict : Bool) (r : Ring) (seq : Int) : Bool :=
  match r.data[slotOf seq r.size]? with
  | some (some s) => seq ≥ 0 && s == seq
  | some none => seq < 0 || !strict
  | none => false

def cellsAt (i : Inst) (p g : Nat) : List Cell := i.sched.filter fun c => c.part == p && c.gen == g

def readsOk (strict : Bool) (rings : List Ring) (cs : List Cell) : Bool :=
  cs.all fun c => c.wins.all fun w =>
    match rings[w.1]? with
    | some r => w.2.1.all fun s => r.readOk strict s
    | none => false

def writeAll (rings : List Ring) (cs : List Cell) : List Ring :=
  cs.foldl (fun rs c => match rs[c.kind]? with | some r => rs.set c.kind (r.write c.seq) | none => rs) rings

/-- (partition, generation) pairs from `startPart` on, in execution order -/
def gridFrom (i : Inst) (startPart : Nat) : List (Nat × Nat) :=
  (List.range i.parts).filter (· ≥ startPart) |>.flatMap fun p => (List.range i.gens).map fun g => (p, g)

/-- `true` iff every window entry read during the replay is the payload of the scheduled sequence number (or the
default output for negative ones / for producers that did not run since `startPart`) -/
def replayOk (i : Inst) (sizes : List Nat) (startPart : Nat) : Bool :=
  ((gridFrom i startPart).foldl (fun (st : List Ring × Bool) pg =>
      let cs := cellsAt i pg.1 pg.2
      (writeAll st.1 cs, st.2 && readsOk (startPart == 0) st.1 cs)) (sizes.map Ring.init, true)).2

end Rex.Sched
