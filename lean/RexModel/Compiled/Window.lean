import RexModel.Async.Machine
import RexModel.Gen.Compiled

/-! `rex.utils.apply_window` on one connection: a rolling window is pushed along the recorded edge list, and the
window handed to the receiver's step `k` is the one after the *last* edge whose `seq_in ≤ k` (edges that were
never consumed carry a sentinel that can never be selected). Core Lean only. -/

namespace Rex.Compiled

open Rex.Async Rex.Gen.Compiled

variable {T : Type}

/-- an entry of the recorded edge list: the message and the step that consumed it -/
abbrev Edge (T : Type) := Item T × Int

/-- the key `apply_window` compares with the receiver's sequence number -/
def edgeKey (e : Edge T) : Int := aw_sentinel (aw_seq_in e.1.seq e.2)

def selectable (k : Int) (e : Edge T) : Bool := aw_selectable (edgeKey e) k

/-- scan + reversed `argwhere(seq_in ≤ k, size=1)`: the window after the last selectable edge (the initial window if none) -/
def applyWindow (init : List (Item T)) (es : List (Edge T)) (k : Int) : List (Item T) :=
  (es.foldl (fun (st : List (Item T) × List (Item T)) e =>
      let cur := pushItem st.1 e.1
      (cur, if selectable k e then cur else st.2)) (init, init)).2

end Rex.Compiled
