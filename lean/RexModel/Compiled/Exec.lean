import RexModel.Compiled.Trace
import RexModel.Compiled.Dataflow

/-! The compiled executor (`partition_runner.py`) as an abstract machine over ring buffers, and the refinement
theorem: along a trace whose replay succeeds, the executor computes the dataflow values of the recorded graph.
Core Lean only.

Per generation all runnable cells read their input windows from the output buffers *as they are when the generation
starts* (slot `seq % size` of the producer's buffer), read their own node's carried step state, compute, and then write
their output into slot `seq % size` of their own buffer and replace the carried state. The buffers hold payloads only;
the sequence number a slot's payload was written with is ghost state (`Ring`). -/

namespace Rex.Sched

variable {Val : Type}

/-- input windows of a vertex: producer kind and sequence numbers, oldest first (`-1`: no message) -/
abbrev Wins := Vtx → List (Nat × List Int)

/-- the user's step: vertex, carried state of its node (none: initial), window payloads (none: default output) -/
abbrev Step (Val : Type) := Vtx → Option Val → List (Option Val) → Val

def winDeps (winsOf : Wins) (v : Vtx) : List Vtx := (winsOf v).flatMap fun w => w.2.map fun s => (⟨w.1, s⟩ : Vtx)

/-- dependencies: the node's previous step, then every window entry -/
def depsOfV (winsOf : Wins) (v : Vtx) : List Vtx := ⟨v.kind, v.seq - 1⟩ :: winDeps winsOf v

/-- the dataflow graph of the recorded computation graph; a value `none` stands for "initial state / default output" -/
def dfGraph (winsOf : Wins) (step : Step Val) : Rex.Dataflow.Graph Vtx (Option Val) :=
  { deps := depsOfV winsOf
    f := fun v l => match l with
      | [] => none
      | p :: ws => some (step v p ws)
    dflt := none }

/-- the reads and writes of one generation of vertices -/
def genOfV (winsOf : Wins) (vs : List Vtx) : Gen :=
  ⟨vs.flatMap fun v => (winsOf v).flatMap fun w => w.2.map fun s => (v.kind, w.1, s), vs.map fun v => (v.kind, v.seq)⟩

structure XSt (Val : Type) where
  rings : List Ring                      -- ghost: which sequence number each slot's payload was written with
  env : Vtx → Option (Option Val)        -- payload computed for every executed vertex (what the slots physically hold)
  last : Nat → Option Val                -- carried step state per node

/-- payload found in slot `s % size` of producer `κ`'s buffer -/
def readVal (st : XSt Val) (κ : Nat) (s : Int) : Option Val :=
  match st.rings[κ]? with
  | some r =>
    match r.data[slotOf s r.size]? with
    | some (some s') => (st.env ⟨κ, s'⟩).getD none
    | _ => none
  | none => none

def cellVal (winsOf : Wins) (step : Step Val) (st : XSt Val) (v : Vtx) : Val :=
  step v (st.last v.kind) ((winsOf v).flatMap fun w => w.2.map fun s => readVal st w.1 s)

def updEnv (e : Vtx → Option (Option Val)) (v : Vtx) (x : Val) : Vtx → Option (Option Val) :=
  fun u => if u = v then some (some x) else e u

def updLast (l : Nat → Option Val) (κ : Nat) (x : Val) : Nat → Option Val := fun k => if k = κ then some x else l k

/-- one generation: every cell computes from the state at the start of the generation, then all write -/
def execGen (winsOf : Wins) (step : Step Val) (st : XSt Val) (vs : List Vtx) : XSt Val :=
  let vals := vs.map fun v => (v, cellVal winsOf step st v)     -- computed once, before anything is written
  { rings := applyWrites st.rings (genOfV winsOf vs).writes
    env := vals.foldl (fun e p => updEnv e p.1 p.2) st.env
    last := vals.foldl (fun l p => updLast l p.1.kind p.2) st.last }

theorem execGen_env (winsOf : Wins) (step : Step Val) (st : XSt Val) (vs : List Vtx) :
    (execGen winsOf step st vs).env = vs.foldl (fun e v => updEnv e v (cellVal winsOf step st v)) st.env := by
  simp [execGen, List.foldl_map]

theorem execGen_last (winsOf : Wins) (step : Step Val) (st : XSt Val) (vs : List Vtx) :
    (execGen winsOf step st vs).last = vs.foldl (fun l v => updLast l v.kind (cellVal winsOf step st v)) st.last := by
  simp [execGen, List.foldl_map]

theorem execGen_rings (winsOf : Wins) (step : Step Val) (st : XSt Val) (vs : List Vtx) :
    (execGen winsOf step st vs).rings = applyWrites st.rings (genOfV winsOf vs).writes := rfl

def exec (winsOf : Wins) (step : Step Val) (st : XSt Val) (T : List (List Vtx)) : XSt Val :=
  T.foldl (execGen winsOf step) st

def initX (B : List Nat) : XSt Val := ⟨B.map Ring.init, fun _ => none, fun _ => none⟩

/-! ### what a successful read says about the slot -/

theorem readOk_true_slot (r : Ring) (s : Int) (h : r.readOk true s = true) :
    (0 ≤ s ∧ r.data[slotOf s r.size]? = some (some s)) ∨ (s < 0 ∧ r.data[slotOf s r.size]? = some none) := by
  unfold Ring.readOk at h
  cases hd : r.data[slotOf s r.size]? with
  | none => rw [hd] at h; cases h
  | some o =>
    rw [hd] at h
    cases o with
    | none => right; simp at h; exact ⟨h, rfl⟩
    | some s' =>
      left
      simp only [Bool.and_eq_true, decide_eq_true_eq, beq_iff_eq] at h
      exact ⟨h.1, by rw [h.2]⟩

/-- a successful read returns the payload computed for exactly that vertex, or nothing for an entry without message -/
theorem readVal_of_readOk (st : XSt Val) (κ : Nat) (s : Int) (r : Ring) (hr : st.rings[κ]? = some r)
    (h : r.readOk true s = true) (hneg : ∀ s' : Int, s' < 0 → st.env ⟨κ, s'⟩ = none) :
    readVal st κ s = (st.env ⟨κ, s⟩).getD none := by
  unfold readVal
  rw [hr]
  rcases readOk_true_slot r s h with ⟨_, hslot⟩ | ⟨hs, hslot⟩
  · simp [hslot]
  · simp [hslot, hneg s hs]

/-! ### one generation -/

theorem foldl_updEnv_not_mem (X : Vtx → Val) (vs : List Vtx) (e : Vtx → Option (Option Val)) (u : Vtx) (hu : u ∉ vs) :
    (vs.foldl (fun e v => updEnv e v (X v)) e) u = e u := by
  induction vs generalizing e with
  | nil => rfl
  | cons v vs ih =>
    simp only [List.foldl_cons]
    rw [ih _ (fun h => hu (List.mem_cons_of_mem _ h))]
    have : u ≠ v := fun h => hu (h ▸ List.mem_cons_self)
    simp [updEnv, this]

theorem foldl_updEnv_mem (X : Vtx → Val) (vs : List Vtx) (e : Vtx → Option (Option Val)) (u : Vtx) (hu : u ∈ vs)
    (hnd : vs.Nodup) : (vs.foldl (fun e v => updEnv e v (X v)) e) u = some (some (X u)) := by
  induction vs generalizing e with
  | nil => cases hu
  | cons v vs ih =>
    simp only [List.foldl_cons]
    have hnd' := List.nodup_cons.mp hnd
    rcases List.mem_cons.mp hu with h | h
    · subst h
      rw [foldl_updEnv_not_mem X vs _ u hnd'.1]
      simp [updEnv]
    · exact ih _ h hnd'.2

theorem foldl_updLast_none (X : Vtx → Val) (vs : List Vtx) (l : Nat → Option Val) (κ : Nat) (h : ∀ v ∈ vs, v.kind ≠ κ) :
    (vs.foldl (fun l v => updLast l v.kind (X v)) l) κ = l κ := by
  induction vs generalizing l with
  | nil => rfl
  | cons v vs ih =>
    simp only [List.foldl_cons]
    rw [ih _ (fun w hw => h w (List.mem_cons_of_mem _ hw))]
    have : κ ≠ v.kind := fun e => h v List.mem_cons_self e.symm
    simp [updLast, this]

theorem foldl_updLast_mem (X : Vtx → Val) (vs : List Vtx) (l : Nat → Option Val) (u : Vtx) (hu : u ∈ vs)
    (huniq : ∀ v ∈ vs, v.kind = u.kind → v = u) (hnd : vs.Nodup) :
    (vs.foldl (fun l v => updLast l v.kind (X v)) l) u.kind = some (X u) := by
  induction vs generalizing l with
  | nil => cases hu
  | cons v vs ih =>
    simp only [List.foldl_cons]
    have hnd' := List.nodup_cons.mp hnd
    rcases List.mem_cons.mp hu with h | h
    · subst h
      rw [foldl_updLast_none X vs _ u.kind]
      · simp [updLast]
      · intro w hw hk
        have := huniq w (List.mem_cons_of_mem _ hw) hk
        exact hnd'.1 (this ▸ hw)
    · exact ih _ h (fun w hw hk => huniq w (List.mem_cons_of_mem _ hw) hk) hnd'.2

/-- a generation whose cells all compute the dataflow value from the state at its start is a dataflow evaluation of
its vertices, in any order -/
theorem gen_env_eq_run (winsOf : Wins) (step : Step Val) (e0 : Vtx → Option (Option Val)) (X : Vtx → Val)
    (todo : List Vtx) (env : Vtx → Option (Option Val))
    (hagree : ∀ v ∈ todo, ∀ d ∈ depsOfV winsOf v, env d = e0 d)
    (hdeps : ∀ v ∈ todo, ∀ d ∈ depsOfV winsOf v, d ∉ todo)
    (hval : ∀ v ∈ todo, X v = step v ((e0 ⟨v.kind, v.seq - 1⟩).getD none) ((winDeps winsOf v).map fun d => (e0 d).getD none)) :
    todo.foldl (fun e v => updEnv e v (X v)) env = Rex.Dataflow.run (dfGraph winsOf step) todo env := by
  induction todo generalizing env with
  | nil => rfl
  | cons v rest ih =>
    simp only [List.foldl_cons, Rex.Dataflow.run]
    have hstep : Rex.Dataflow.evalStep (dfGraph winsOf step) env v = updEnv env v (X v) := by
      funext u
      simp only [Rex.Dataflow.evalStep, updEnv, dfGraph, depsOfV, List.map_cons]
      by_cases hu : u = v
      · simp only [hu, if_true]
        rw [hval v List.mem_cons_self]
        have h1 : env ⟨v.kind, v.seq - 1⟩ = e0 ⟨v.kind, v.seq - 1⟩ :=
          hagree v List.mem_cons_self _ (by simp [depsOfV])
        have h2 : (winDeps winsOf v).map (fun d => (env d).getD none) = (winDeps winsOf v).map (fun d => (e0 d).getD none) := by
          apply List.map_congr_left
          intro d hd
          rw [hagree v List.mem_cons_self d (by simp [depsOfV, hd])]
        rw [h1, h2]
      · simp [hu]
    rw [hstep]
    apply ih
    · intro w hw d hd
      have hdv : d ≠ v := by
        intro e
        exact hdeps w (List.mem_cons_of_mem _ hw) d hd (e ▸ List.mem_cons_self)
      simp only [updEnv, hdv, if_false]
      exact hagree w (List.mem_cons_of_mem _ hw) d hd
    · intro w hw d hd hmem
      exact hdeps w (List.mem_cons_of_mem _ hw) d hd (List.mem_cons_of_mem _ hmem)
    · intro w hw
      exact hval w (List.mem_cons_of_mem _ hw)

/-! ### the whole trace -/

theorem flatMap_congr' {α β : Type} (l : List α) (f g : α → List β) (h : ∀ a ∈ l, f a = g a) : l.flatMap f = l.flatMap g := by
  induction l with
  | nil => rfl
  | cons a l ih =>
    simp only [List.flatMap_cons]
    rw [h a List.mem_cons_self, ih (fun b hb => h b (List.mem_cons_of_mem _ hb))]

/-- number of steps of node `κ` executed in a prefix of the trace -/
def cnt (κ : Nat) (pre : List (List Vtx)) : Nat := pre.flatten.countP (·.kind == κ)

theorem countP_kind_zero (vs : List Vtx) (κ : Nat) (h : ∀ v ∈ vs, v.kind ≠ κ) : vs.countP (·.kind == κ) = 0 := by
  rw [List.countP_eq_zero]
  intro v hv
  simpa using h v hv

theorem countP_kind_one (vs : List Vtx) (u : Vtx) (hu : u ∈ vs) (hnd : vs.Nodup)
    (huniq : ∀ v ∈ vs, v.kind = u.kind → v = u) : vs.countP (·.kind == u.kind) = 1 := by
  induction vs with
  | nil => cases hu
  | cons v vs ih =>
    have hnd' := List.nodup_cons.mp hnd
    rcases List.mem_cons.mp hu with h | h
    · subst h
      rw [List.countP_cons_of_pos (by simp)]
      rw [countP_kind_zero vs u.kind]
      intro w hw hk
      exact hnd'.1 ((huniq w (List.mem_cons_of_mem _ hw) hk) ▸ hw)
    · have hvk : v.kind ≠ u.kind := by
        intro hk
        have := huniq v List.mem_cons_self hk
        exact hnd'.1 (this ▸ h)
      rw [List.countP_cons_of_neg (by simpa using hvk)]
      exact ih h hnd'.2 (fun w hw hk => huniq w (List.mem_cons_of_mem _ hw) hk)

/-- **Refinement.** Along a trace whose replay succeeds (every read finds the message with the scheduled sequence
number, `traceOk`), with no vertex twice, dependencies never in the vertex's own generation, at most one cell per node
and generation, and the steps of every node in sequence order, the executor's payload table is the dataflow evaluation
of the recorded graph along the trace. -/
theorem exec_refines_dataflow (winsOf : Wins) (step : Step Val) (B : List Nat) (T : List (List Vtx))
    (hok : traceOk true (B.map Ring.init) (T.map (genOfV winsOf)) = true)
    (hnd : T.flatten.Nodup)
    (hpos : ∀ v ∈ T.flatten, 0 ≤ v.seq)
    (hsame : ∀ vs ∈ T, ∀ v ∈ vs, ∀ d ∈ depsOfV winsOf v, d ∉ vs)
    (hkinds : ∀ vs ∈ T, ∀ v ∈ vs, ∀ w ∈ vs, w.kind = v.kind → w = v)
    (hseq : ∀ pre vs post, T = pre ++ vs :: post → ∀ v ∈ vs, v.seq = ((cnt v.kind pre : Nat) : Int)) :
    (exec winsOf step (initX B) T).env = Rex.Dataflow.run (dfGraph winsOf step) T.flatten (fun _ => none) := by
  suffices H : ∀ rest pre (st : XSt Val), T = pre ++ rest →
      st.env = Rex.Dataflow.run (dfGraph winsOf step) pre.flatten (fun _ => none) →
      (∀ κ, st.last κ = (st.env ⟨κ, (cnt κ pre : Int) - 1⟩).getD none) →
      (∀ u, u ∉ pre.flatten → st.env u = none) →
      traceOk true st.rings (rest.map (genOfV winsOf)) = true →
      (exec winsOf step st rest).env = Rex.Dataflow.run (dfGraph winsOf step) T.flatten (fun _ => none) by
    exact H T [] (initX B) rfl rfl (fun κ => rfl) (fun u _ => rfl) hok
  intro rest
  induction rest with
  | nil =>
    intro pre st hT hE _ _ _
    simp only [List.append_nil] at hT
    subst hT
    exact hE
  | cons vs rest ih =>
    intro pre st hT hE hL hM hok'
    simp only [List.map_cons, traceOk, Bool.and_eq_true] at hok'
    obtain ⟨hreads, hrest⟩ := hok'
    have hvsT : vs ∈ T := by rw [hT]; simp
    have hflat : T.flatten = pre.flatten ++ vs ++ rest.flatten := by rw [hT]; simp
    have hndvs : vs.Nodup := by
      rw [hflat] at hnd
      exact ((List.nodup_append.mp (List.nodup_append.mp hnd).1).2.1)
    have hdisj : ∀ v ∈ vs, v ∉ pre.flatten := by
      intro v hv hp
      rw [hflat] at hnd
      exact (List.nodup_append.mp (List.nodup_append.mp hnd).1).2.2 v hp v hv rfl
    -- entries without message were never computed
    have hN : ∀ (κ : Nat) (s' : Int), s' < 0 → st.env ⟨κ, s'⟩ = none := by
      intro κ s' hs'
      apply hM
      intro hmem
      have : (0 : Int) ≤ s' := hpos ⟨κ, s'⟩ (by rw [hflat]; simp [hmem])
      omega
    -- every cell computes the dataflow value
    have hval : ∀ v ∈ vs, cellVal winsOf step st v =
        step v ((st.env ⟨v.kind, v.seq - 1⟩).getD none) ((winDeps winsOf v).map fun d => (st.env d).getD none) := by
      intro v hv
      unfold cellVal
      have hs := hseq pre vs rest hT v hv
      rw [hL v.kind, ← hs]
      congr 1
      simp only [winDeps, List.map_flatMap, List.map_map]
      apply flatMap_congr'
      intro w hw
      apply List.map_congr_left
      intro s hs'
      simp only [genReadsOk, List.all_eq_true] at hreads
      have hr := hreads (v.kind, w.1, s) (by
        simp only [genOfV, List.mem_flatMap, List.mem_map]
        exact ⟨v, hv, w, hw, s, hs', rfl⟩)
      simp only at hr
      cases hring : st.rings[w.1]? with
      | none => rw [hring] at hr; cases hr
      | some r =>
        rw [hring] at hr
        simp only [Function.comp]
        exact readVal_of_readOk st w.1 s r hring hr (hN w.1)
    have hE' : (execGen winsOf step st vs).env = Rex.Dataflow.run (dfGraph winsOf step) (pre ++ [vs]).flatten (fun _ => none) := by
      rw [execGen_env]
      rw [gen_env_eq_run winsOf step st.env (cellVal winsOf step st) vs st.env (fun _ _ _ _ => rfl) (hsame vs hvsT) hval]
      rw [hE, ← Rex.Dataflow.run_append]
      simp
    apply ih (pre ++ [vs]) (execGen winsOf step st vs) (by rw [hT]; simp) hE'
    · -- carried state
      intro κ
      by_cases hex : ∃ v ∈ vs, v.kind = κ
      · obtain ⟨v, hv, hk⟩ := hex
        subst hk
        have huniq := hkinds vs hvsT v hv
        have hc : cnt v.kind (pre ++ [vs]) = cnt v.kind pre + 1 := by
          simp only [cnt, List.flatten_append, List.countP_append, List.flatten_cons, List.flatten_nil, List.append_nil]
          rw [countP_kind_one vs v hv hndvs huniq]
        have hs := hseq pre vs rest hT v hv
        have hvtx : (⟨v.kind, ((cnt v.kind (pre ++ [vs]) : Nat) : Int) - 1⟩ : Vtx) = v := by
          rw [hc]
          cases v with
          | mk k q =>
            have hs' : q = ((cnt k pre : Nat) : Int) := hs
            show (⟨k, ((cnt k pre + 1 : Nat) : Int) - 1⟩ : Vtx) = ⟨k, q⟩
            congr 1; push_cast; omega
        rw [hvtx]
        rw [execGen_last, execGen_env]
        rw [foldl_updLast_mem _ vs _ v hv huniq hndvs, foldl_updEnv_mem _ vs _ v hv hndvs]
        rfl
      · have hno : ∀ v ∈ vs, v.kind ≠ κ := fun v hv hk => hex ⟨v, hv, hk⟩
        have hc : cnt κ (pre ++ [vs]) = cnt κ pre := by
          simp only [cnt, List.flatten_append, List.countP_append, List.flatten_cons, List.flatten_nil, List.append_nil]
          rw [countP_kind_zero vs κ hno]; rfl
        rw [hc]
        rw [execGen_last, execGen_env]
        rw [foldl_updLast_none _ vs _ κ hno, foldl_updEnv_not_mem _ vs _ _ (fun hmem => hno _ hmem rfl)]
        exact hL κ
    · -- nothing else was computed
      intro u hu
      simp only [List.flatten_append, List.flatten_cons, List.flatten_nil, List.append_nil, List.mem_append, not_or] at hu
      rw [execGen_env]
      rw [foldl_updEnv_not_mem _ vs _ u hu.2]
      exact hM u hu.1
    · exact hrest

/-! ### the hypotheses decided on a compiled instance -/

/-- the vertices of every (partition, generation) cell group, in execution order -/
def xTrace (i : Inst) : List (List Vtx) := (gridFrom i 0).map fun pg => (cellsAt i pg.1 pg.2).map Cell.v

/-- the input windows of a scheduled vertex, as carried by its cell -/
def xWins (i : Inst) : Wins := fun v =>
  match i.sched.find? (·.v == v) with
  | some c => c.wins.map fun w => (w.1, w.2.1)
  | none => []

def seqFrom (done : List Vtx) : List (List Vtx) → Bool
  | [] => true
  | vs :: rest => (vs.all fun v => v.seq == ((done.countP (·.kind == v.kind) : Nat) : Int)) && seqFrom (done ++ vs) rest

/-- decides the hypotheses of `exec_refines_dataflow` (other than the replay itself) on an instance -/
def execHypOk (i : Inst) : Bool :=
  decide (xTrace i).flatten.Nodup &&
  ((xTrace i).flatten.all fun v => decide (0 ≤ v.seq)) &&
  ((xTrace i).all fun vs => vs.all fun v => (depsOfV (xWins i) v).all fun d => !vs.contains d) &&
  ((xTrace i).all fun vs => vs.all fun v => vs.all fun w => w.kind != v.kind || w == v) &&
  seqFrom [] (xTrace i) &&
  (i.sched.all fun c => xWins i c.v == c.wins.map fun w => (w.1, w.2.1))

theorem seqFrom_spec (done : List (List Vtx)) (rest : List (List Vtx)) (h : seqFrom done.flatten rest = true) :
    ∀ pre vs post, rest = pre ++ vs :: post → ∀ v ∈ vs, v.seq = ((cnt v.kind (done ++ pre) : Nat) : Int) := by
  induction rest generalizing done with
  | nil => intro pre vs post h'; simp at h'
  | cons g gs ih =>
    intro pre vs post hsplit v hv
    simp only [seqFrom, Bool.and_eq_true, List.all_eq_true, beq_iff_eq] at h
    cases pre with
    | nil =>
      simp only [List.nil_append, List.cons.injEq] at hsplit
      obtain ⟨rfl, _⟩ := hsplit
      simpa [cnt] using h.1 v hv
    | cons p ps =>
      simp only [List.cons_append, List.cons.injEq] at hsplit
      obtain ⟨rfl, hrest⟩ := hsplit
      have h2 : seqFrom (done ++ [g]).flatten gs = true := by simpa using h.2
      have := ih (done ++ [g]) h2 ps vs post hrest v hv
      simpa [List.append_assoc] using this

theorem genOfV_eq_genOf (i : Inst) (cs : List Cell) (hsub : ∀ c ∈ cs, c ∈ i.sched)
    (hw : (i.sched.all fun c => xWins i c.v == c.wins.map fun w => (w.1, w.2.1)) = true) :
    genOfV (xWins i) (cs.map Cell.v) = genOf cs := by
  simp only [List.all_eq_true, beq_iff_eq] at hw
  simp only [genOfV, genOf, List.flatMap_map, List.map_map]
  congr 1
  apply flatMap_congr'
  intro c hc
  rw [hw c (hsub c hc)]
  simp [List.flatMap_map, Cell.v]

/-- **Executor refinement on an instance.** What the two decision procedures accept, the executor evaluates as the
dataflow graph prescribes — for every step function. -/
theorem exec_instance_refines (i : Inst) (sizes : List Nat) {Val : Type} (step : Step Val)
    (hx : execHypOk i = true) (hs : sizedOk (traceOf i 0) sizes.length sizes = true) :
    (exec (xWins i) step (initX sizes) (xTrace i)).env
      = Rex.Dataflow.run (dfGraph (xWins i) step) (xTrace i).flatten (fun _ => none) := by
  simp only [execHypOk, Bool.and_eq_true] at hx
  obtain ⟨⟨⟨⟨⟨hnd, hpos⟩, hsame⟩, hkinds⟩, hseq⟩, hw⟩ := hx
  have htrace : (xTrace i).map (genOfV (xWins i)) = traceOf i 0 := by
    simp only [xTrace, traceOf, List.map_map]
    apply List.map_congr_left
    intro pg _
    simp only [Function.comp]
    apply genOfV_eq_genOf i _ _ hw
    intro c hc
    simp only [cellsAt, List.mem_filter] at hc
    exact hc.1
  apply exec_refines_dataflow
  · rw [htrace]; exact traceOk_of_sizedOk _ _ _ hs
  · exact of_decide_eq_true hnd
  · simp only [List.all_eq_true, decide_eq_true_eq] at hpos; exact hpos
  · simp only [List.all_eq_true, Bool.not_eq_true', List.contains_eq_mem, decide_eq_false_iff_not] at hsame
    exact hsame
  · simp only [List.all_eq_true, Bool.or_eq_true, bne_iff_ne, ne_eq, beq_iff_eq] at hkinds
    intro vs hvs v hv w hw' hk
    rcases hkinds vs hvs v hv w hw' with h | h
    · exact absurd hk h
    · exact h
  · have := seqFrom_spec [] (xTrace i) (by simpa using hseq)
    simpa using this

/-! ### validity of the executor's own order, decided -/

def validFrom (winsOf : Wins) (all : List Vtx) (done : List Vtx) : List Vtx → Bool
  | [] => true
  | v :: rest => ((depsOfV winsOf v).all fun d => done.contains d || !all.contains d) && validFrom winsOf all (done ++ [v]) rest

/-- decides `ValidIn (dfGraph winsOf step) (· ∈ order) order` -/
def validInOk (winsOf : Wins) (order : List Vtx) : Bool := decide order.Nodup && validFrom winsOf order [] order

theorem validFrom_spec (winsOf : Wins) (all done rest : List Vtx) (h : validFrom winsOf all done rest = true) :
    ∀ pre v post, rest = pre ++ v :: post → ∀ d ∈ depsOfV winsOf v, d ∈ done ++ pre ∨ d ∉ all := by
  induction rest generalizing done with
  | nil => intro pre v post h'; simp at h'
  | cons a rest ih =>
    intro pre v post hsplit d hd
    simp only [validFrom, Bool.and_eq_true, List.all_eq_true, Bool.or_eq_true, List.contains_eq_mem,
      decide_eq_true_eq, Bool.not_eq_true', decide_eq_false_iff_not] at h
    cases pre with
    | nil =>
      simp only [List.nil_append, List.cons.injEq] at hsplit
      obtain ⟨rfl, _⟩ := hsplit
      simpa using h.1 d hd
    | cons p ps =>
      simp only [List.cons_append, List.cons.injEq] at hsplit
      obtain ⟨rfl, hrest⟩ := hsplit
      have := ih (done ++ [a]) h.2 ps v post hrest d hd
      simpa [List.append_assoc] using this

theorem validIn_of_ok {Val : Type} (winsOf : Wins) (step : Step Val) (order : List Vtx) (h : validInOk winsOf order = true) :
    Rex.Dataflow.ValidIn (dfGraph winsOf step) (· ∈ order) order := by
  simp only [validInOk, Bool.and_eq_true, decide_eq_true_eq] at h
  refine ⟨h.1, fun v hv => hv, ?_⟩
  intro pre v post hsplit d hd
  have := validFrom_spec winsOf order [] order h.2 pre v post hsplit d hd
  simpa using this

/-! ### driving API: a rollout is the iteration of single partitions -/

theorem exec_append (winsOf : Wins) (step : Step Val) (st : XSt Val) (A B : List (List Vtx)) :
    exec winsOf step st (A ++ B) = exec winsOf step (exec winsOf step st A) B := by
  simp [exec, List.foldl_append]

/-- executing the partitions one `run` at a time is executing the whole horizon at once -/
theorem exec_partitions (winsOf : Wins) (step : Step Val) (st : XSt Val) (parts : List (List (List Vtx))) :
    parts.foldl (fun s p => exec winsOf step s p) st = exec winsOf step st parts.flatten := by
  induction parts generalizing st with
  | nil => rfl
  | cons p ps ih =>
    simp only [List.foldl_cons, List.flatten_cons]
    rw [ih, exec_append]

/-! ### "steps in sequence order" follows from "consecutive writes" -/

theorem wseqs_trace (winsOf : Wins) (T : List (List Vtx)) (κ : Nat) :
    wseqs κ (allWrites (T.map (genOfV winsOf))) = (T.flatten.filter (·.kind == κ)).map (·.seq) := by
  induction T with
  | nil => rfl
  | cons vs T ih =>
    have h1 : allWrites ((vs :: T).map (genOfV winsOf)) = (genOfV winsOf vs).writes ++ allWrites (T.map (genOfV winsOf)) := by
      simp [allWrites]
    rw [h1, wseqs_append, ih]
    simp only [List.flatten_cons, List.filter_append, List.map_append]
    congr 1
    simp only [wseqs, genOfV, List.filter_map, List.map_map]
    rfl

/-- if every node writes the consecutive sequence numbers `0, 1, 2, …` over the whole trace and a generation holds at most
one cell per node, then a cell's sequence number is the number of its node's steps executed before its generation -/
theorem hseq_of_consec (winsOf : Wins) (T : List (List Vtx))
    (hcons : ∀ κ, ∃ n, wseqs κ (allWrites (T.map (genOfV winsOf))) = consec 0 n)
    (hnd : T.flatten.Nodup)
    (hkinds : ∀ vs ∈ T, ∀ v ∈ vs, ∀ w ∈ vs, w.kind = v.kind → w = v) :
    ∀ pre vs post, T = pre ++ vs :: post → ∀ v ∈ vs, v.seq = ((cnt v.kind pre : Nat) : Int) := by
  intro pre vs post hT v hv
  obtain ⟨n, hn⟩ := hcons v.kind
  rw [wseqs_trace] at hn
  have hvsT : vs ∈ T := by rw [hT]; simp
  have hflat : T.flatten = pre.flatten ++ vs ++ post.flatten := by rw [hT]; simp
  have hndvs : vs.Nodup := by
    rw [hflat] at hnd
    exact ((List.nodup_append.mp (List.nodup_append.mp hnd).1).2.1)
  obtain ⟨A, Bv, hsplit⟩ := List.append_of_mem hv
  -- no cell of the same node before `v` in its generation
  have hA : A.filter (·.kind == v.kind) = [] := by
    rw [List.filter_eq_nil_iff]
    intro w hw hk
    have hwv : w = v := hkinds vs hvsT v hv w (by rw [hsplit]; exact List.mem_append_left _ hw) (by simpa using hk)
    rw [hsplit] at hndvs
    have := (List.nodup_append.mp hndvs).2.2 w hw v (by simp)
    exact this hwv
  rw [hflat, hsplit] at hn
  simp only [List.filter_append, List.map_append, List.filter_cons, beq_self_eq_true, if_true, hA, List.map_nil,
    List.map_cons, List.append_assoc] at hn
  -- hn : F(pre).map seq ++ (v.seq :: rest) = consec 0 n
  have hpre := consec_prefix 0 n ((pre.flatten.filter (·.kind == v.kind)).map (·.seq) ++ [v.seq]) _ (by
    rw [List.append_assoc]; exact hn)
  have hlen : ((pre.flatten.filter (·.kind == v.kind)).map (·.seq) ++ [v.seq]).length = cnt v.kind pre + 1 := by
    rw [List.length_append, List.length_map, List.length_singleton, cnt, List.countP_eq_length_filter]
  rw [hlen, consec_succ_eq] at hpre
  have := List.append_inj' hpre rfl
  have h2 := this.2
  simp only [List.cons.injEq, and_true] at h2
  omega

end Rex.Sched
