import RexModel.Compiled.Ring
import RexModel.Compiled.BufSize

/-! The replay as a trace of generations, and the end-to-end theorem: consecutive writes, producers scheduled strictly
earlier and sizes at least the model of `get_buffer_sizes` ⇒ every read of the replay returns the scheduled message.
Core Lean only. -/

namespace Rex.Sched

/-- one generation of one partition: what is read (consumer kind, producer kind, sequence number) from the buffers as
they are when the generation starts, and what is written (kind, sequence number) afterwards -/
structure Gen where
  reads : List (Nat × Nat × Int)
  writes : List (Nat × Int)

def applyWrites (rings : List Ring) (ws : List (Nat × Int)) : List Ring :=
  ws.foldl (fun rs w => match rs[w.1]? with | some r => rs.set w.1 (r.write w.2) | none => rs) rings

def genReadsOk (strict : Bool) (rings : List Ring) (g : Gen) : Bool :=
  g.reads.all fun r => match rings[r.2.1]? with | some ring => ring.readOk strict r.2.2 | none => false

def traceOk (strict : Bool) (rings : List Ring) : List Gen → Bool
  | [] => true
  | g :: gs => genReadsOk strict rings g && traceOk strict (applyWrites rings g.writes) gs

/-- sequence numbers a kind writes in a list of writes, in order -/
def wseqs (κ : Nat) (ws : List (Nat × Int)) : List Int := (ws.filter (·.1 == κ)).map (·.2)

def allWrites (T : List Gen) : List (Nat × Int) := T.flatMap (·.writes)

theorem applyWrites_append (rings : List Ring) (a b : List (Nat × Int)) :
    applyWrites rings (a ++ b) = applyWrites (applyWrites rings a) b := by
  simp [applyWrites, List.foldl_append]

theorem wseqs_append (κ : Nat) (a b : List (Nat × Int)) : wseqs κ (a ++ b) = wseqs κ a ++ wseqs κ b := by
  simp [wseqs, List.filter_append]

theorem allWrites_append (A B : List Gen) : allWrites (A ++ B) = allWrites A ++ allWrites B := by
  simp [allWrites, List.flatMap_append]

/-- `applyWrites` moves the ring of kind `κ` exactly by the writes of kind `κ`, in order -/
theorem applyWrites_kind (rings : List Ring) (ws : List (Nat × Int)) (κ : Nat) :
    (applyWrites rings ws)[κ]? = (rings[κ]?).map fun r => r.writeList (wseqs κ ws) := by
  induction ws generalizing rings with
  | nil =>
    show rings[κ]? = _
    cases h : rings[κ]? <;> simp [wseqs, Ring.writeList]
  | cons w ws ih =>
    simp only [applyWrites, List.foldl_cons] at ih ⊢
    rw [ih]
    by_cases hk : w.1 = κ
    · subst hk
      cases h : rings[w.1]? with
      | none => simp [h]
      | some r =>
        have hlt : w.1 < rings.length := by
          rcases Nat.lt_or_ge w.1 rings.length with h' | h'
          · exact h'
          · rw [List.getElem?_eq_none h'] at h; cases h
        simp [wseqs, Ring.writeList, hlt]
    · have hne : (w.1 == κ) = false := by simpa using hk
      cases h : rings[w.1]? with
      | none => simp [wseqs, hne]
      | some r => simp [wseqs, hne, hk]

/-! ### consecutive lists -/

theorem consec_length (a : Int) (k : Nat) : (consec a k).length = k := by
  induction k with
  | zero => rfl
  | succ k ih => simp [consec, ih]

theorem mem_consec (a : Int) (k : Nat) (x : Int) : x ∈ consec a k ↔ a ≤ x ∧ x < a + k := by
  induction k with
  | zero => simp [consec]
  | succ k ih =>
    simp only [consec, List.mem_append, ih, List.mem_singleton]
    constructor
    · rintro (h | h) <;> omega
    · intro h
      by_cases hx : x = a + k
      · right; exact hx
      · left; omega

theorem consec_succ_eq (a : Int) (k : Nat) : consec a (k + 1) = consec a k ++ [a + k] := rfl

/-- a prefix of a consecutive list is the consecutive list of its own length -/
theorem consec_prefix (a : Int) (n : Nat) (l₁ l₂ : List Int) (h : l₁ ++ l₂ = consec a n) : l₁ = consec a l₁.length := by
  induction n generalizing l₁ l₂ with
  | zero =>
    have : l₁ = [] := by
      have := congrArg List.length h
      simp [consec] at this
      exact this.1
    subst this; rfl
  | succ n ih =>
    rw [consec_succ_eq] at h
    rcases List.eq_nil_or_concat l₂ with h2 | ⟨l₂', x, h2⟩
    · subst h2
      rw [List.append_nil] at h
      subst h
      rw [List.length_append, consec_length]
      rfl
    · subst h2
      rw [List.concat_eq_append, ← List.append_assoc] at h
      have := List.append_inj' h rfl
      exact ih l₁ l₂' this.1

/-! ### the per-position lists `get_buffer_sizes` works on, read off the trace -/

def lminD (d : Int) : List Int → Int
  | [] => d
  | x :: xs => xs.foldl min x

def lmaxD (d : Int) : List Int → Int
  | [] => d
  | x :: xs => xs.foldl max x

/-- sequence numbers consumer kind `c` reads from producer kind `κ` in a list of reads -/
def rseqs (c κ : Nat) (rs : List (Nat × Nat × Int)) : List Int := (rs.filter fun r => r.1 == c && r.2.1 == κ).map (·.2.2)

def minInOf (c κ : Nat) (T : List Gen) : List Int := T.map fun g => lminD I32MAX (rseqs c κ g.reads)
def maxOutOf (κ : Nat) (T : List Gen) : List Int := T.map fun g => lmaxD I32MIN (wseqs κ g.writes)

theorem foldl_min_le_init (l : List Int) (a : Int) : l.foldl min a ≤ a := by
  induction l generalizing a with
  | nil => exact Int.le_refl _
  | cons x xs ih => exact Int.le_trans (ih (min a x)) (Int.min_le_left _ _)

theorem foldl_min_le_mem (l : List Int) (a x : Int) (hx : x ∈ l) : l.foldl min a ≤ x := by
  induction l generalizing a with
  | nil => cases hx
  | cons y ys ih =>
    simp only [List.foldl_cons]
    rcases List.mem_cons.mp hx with h | h
    · subst h; exact Int.le_trans (foldl_min_le_init ys _) (Int.min_le_right _ _)
    · exact ih _ h

theorem lminD_le (d : Int) (l : List Int) (x : Int) (hx : x ∈ l) : lminD d l ≤ x := by
  cases l with
  | nil => cases hx
  | cons y ys =>
    simp only [lminD]
    rcases List.mem_cons.mp hx with h | h
    · subst h; exact foldl_min_le_init ys _
    · exact foldl_min_le_mem ys y x h

theorem le_lmaxD (d : Int) (l : List Int) (x : Int) (hx : x ∈ l) : x ≤ lmaxD d l := by
  cases l with
  | nil => cases hx
  | cons y ys =>
    simp only [lmaxD]
    rcases List.mem_cons.mp hx with h | h
    · subst h; exact foldl_max_ge_init ys _
    · exact foldl_max_ge_mem ys y x h

/-- a sequence number written somewhere in a prefix was written in one of its generations -/
theorem mem_wseqs_allWrites (κ : Nat) (P : List Gen) (x : Int) (hx : x ∈ wseqs κ (allWrites P)) :
    ∃ u, ∃ hu : u < P.length, x ∈ wseqs κ P[u].writes := by
  induction P with
  | nil => simp [allWrites, wseqs] at hx
  | cons g gs ih =>
    have : allWrites (g :: gs) = g.writes ++ allWrites gs := by simp [allWrites]
    rw [this, wseqs_append, List.mem_append] at hx
    rcases hx with h | h
    · exact ⟨0, by simp, by simpa using h⟩
    · obtain ⟨u, hu, hm⟩ := ih h
      exact ⟨u + 1, by simp; omega, by simpa using hm⟩

theorem last_mem_consec (k : Nat) (hk : 0 < k) : ((k : Int) - 1) ∈ consec 0 k := by
  rw [mem_consec]; omega

/-- **End-to-end.** A trace in which every kind writes consecutive sequence numbers from 0, every real message read has
been written in a strictly earlier generation, window entries without a message carry -1, and every buffer is at least
as large as the model of `get_buffer_sizes` asks for each of its consumers: every read of the replay returns the
scheduled message (or the default output for -1). -/
theorem traceOk_of_sized (T : List Gen) (B : List Nat)
    (hcons : ∀ κ, ∃ n, wseqs κ (allWrites T) = consec 0 n)
    (hge : ∀ g ∈ T, ∀ r ∈ g.reads, -1 ≤ r.2.2)
    (hdep : ∀ pre g post, T = pre ++ g :: post → ∀ r ∈ g.reads, 0 ≤ r.2.2 → r.2.2 ∈ wseqs r.2.1 (allWrites pre))
    (hsize : ∀ g ∈ T, ∀ r ∈ g.reads, ∃ b, B[r.2.1]? = some b ∧ 0 < b ∧
      bufSize (minInOf r.1 r.2.1 T) (maxOutOf r.2.1 T) ≤ b) :
    traceOk true (B.map Ring.init) T = true := by
  suffices H : ∀ rest pre, T = pre ++ rest →
      traceOk true (applyWrites (B.map Ring.init) (allWrites pre)) rest = true by
    simpa [allWrites, applyWrites] using H T [] rfl
  intro rest
  induction rest with
  | nil => intro pre _; rfl
  | cons g gs ih =>
    intro pre hT
    simp only [traceOk, Bool.and_eq_true]
    constructor
    · -- the reads of generation `g`
      simp only [genReadsOk, List.all_eq_true]
      intro r hr
      have hgT : g ∈ T := by rw [hT]; simp
      obtain ⟨b, hb, hbpos, hbs⟩ := hsize g hgT r hr
      obtain ⟨c, κ, s⟩ := r
      simp only at hb hbs ⊢
      obtain ⟨n, hn⟩ := hcons κ
      rw [hT, allWrites_append, wseqs_append] at hn
      have hpre := consec_prefix 0 n _ _ hn
      generalize hk : (wseqs κ (allWrites pre)).length = k at hpre
      have hring : (applyWrites (B.map Ring.init) (allWrites pre))[κ]? = some ((Ring.init b).writes 0 k) := by
        rw [applyWrites_kind, List.getElem?_map, hb, hpre]
        simp [Ring.writeList_consec]
      rw [hring]
      simp only
      have hs1 := hge g hgT (c, κ, s) hr
      simp only at hs1
      -- the live bound from the computed size
      have hlive : (k : Int) ≤ s + b := by
        rcases Nat.eq_zero_or_pos k with hk0 | hkpos
        · subst hk0; omega
        · have hlast : ((k : Int) - 1) ∈ wseqs κ (allWrites pre) := by rw [hpre]; exact last_mem_consec k hkpos
          obtain ⟨u, hu, hmem⟩ := mem_wseqs_allWrites κ pre _ hlast
          have hlenT : T.length = pre.length + (gs.length + 1) := by rw [hT]; simp
          have hTu : T[u]'(by omega) = pre[u] := by
            simp only [hT]; rw [List.getElem_append_left hu]
          have hTt : T[pre.length]'(by omega) = g := by
            simp only [hT]; rw [List.getElem_append_right (Nat.le_refl _)]; simp
          have hmax : ((k : Int) - 1) ≤ (maxOutOf κ T)[u]'(by simp [maxOutOf]; omega) := by
            simp only [maxOutOf, List.getElem_map, hTu]
            exact le_lmaxD _ _ _ hmem
          have hmin : (minInOf c κ T)[pre.length]'(by simp [minInOf]; omega) ≤ s := by
            simp only [minInOf, List.getElem_map, hTt]
            apply lminD_le
            simp only [rseqs, List.mem_map, List.mem_filter]
            exact ⟨(c, κ, s), ⟨hr, by simp⟩, rfl⟩
          have := bufSize_live (minInOf c κ T) (maxOutOf κ T) (by simp [minInOf, maxOutOf]) u pre.length pre.length
            hu (Nat.le_refl _) (by simp [minInOf]; omega) s ((k : Int) - 1) hmin hmax
          omega
      by_cases h0 : 0 ≤ s
      · have hmem := hdep pre g gs hT (c, κ, s) hr h0
        simp only at hmem
        rw [hpre, mem_consec] at hmem
        exact Ring.read_live b hbpos 0 k s true h0 h0 (by omega) (by omega)
      · have hs : s = -1 := by omega
        subst hs
        rw [Ring.read_default b hbpos k true]
        simp only [decide_eq_true_eq]
        omega
    · -- the remaining generations, after the writes of `g`
      have := ih (pre ++ [g]) (by rw [hT]; simp)
      rw [allWrites_append, applyWrites_append] at this
      simpa [allWrites] using this

/-! ### execution that starts at a later generation (`starting_step > 0`) -/

theorem consec_add (a : Int) (m k : Nat) : consec a (m + k) = consec a m ++ consec (a + m) k := by
  induction k with
  | zero => simp [consec]
  | succ k ih =>
    rw [← Nat.add_assoc, consec_succ_eq, ih, consec_succ_eq, List.append_assoc]
    congr 2
    simp [Int.add_assoc]

/-- the middle part of a consecutive list is consecutive, starting where the first part ends -/
theorem consec_middle (n : Nat) (l₁ l₂ l₃ : List Int) (h : l₁ ++ l₂ ++ l₃ = consec 0 n) :
    l₂ = consec l₁.length l₂.length := by
  have h12 := consec_prefix 0 n (l₁ ++ l₂) l₃ h
  have h1 := consec_prefix 0 n l₁ (l₂ ++ l₃) (by rw [← List.append_assoc]; exact h)
  rw [List.length_append, consec_add] at h12
  rw [h1] at h12
  simp only [consec_length] at h12
  have := List.append_cancel_left h12
  simpa using this

/-- **End-to-end, any starting generation.** The hypotheses are about the whole trace `T = pre0 ++ rest0`; the buffers
are fresh when `rest0` starts. Every read of `rest0` returns the scheduled message if it was written since the start, and
otherwise the default output the buffer was initialised with — never another message. (`strict` may only be asked for
when the execution starts at the beginning.) -/
theorem traceOk_of_sized_from (T : List Gen) (B : List Nat) (strict : Bool)
    (hcons : ∀ κ, ∃ n, wseqs κ (allWrites T) = consec 0 n)
    (hge : ∀ g ∈ T, ∀ r ∈ g.reads, -1 ≤ r.2.2)
    (hdep : ∀ pre g post, T = pre ++ g :: post → ∀ r ∈ g.reads, 0 ≤ r.2.2 → r.2.2 ∈ wseqs r.2.1 (allWrites pre))
    (hsize : ∀ g ∈ T, ∀ r ∈ g.reads, ∃ b, B[r.2.1]? = some b ∧ 0 < b ∧
      bufSize (minInOf r.1 r.2.1 T) (maxOutOf r.2.1 T) ≤ b)
    (pre0 rest0 : List Gen) (hT0 : T = pre0 ++ rest0) (hstrict : strict = true → pre0 = []) :
    traceOk strict (B.map Ring.init) rest0 = true := by
  suffices H : ∀ rest pre, T = pre0 ++ pre ++ rest →
      traceOk strict (applyWrites (B.map Ring.init) (allWrites pre)) rest = true by
    simpa [allWrites, applyWrites] using H rest0 [] (by simpa using hT0)
  intro rest
  induction rest with
  | nil => intro pre _; rfl
  | cons g gs ih =>
    intro pre hT
    simp only [traceOk, Bool.and_eq_true]
    constructor
    · simp only [genReadsOk, List.all_eq_true]
      intro r hr
      have hgT : g ∈ T := by rw [hT]; simp
      obtain ⟨b, hb, hbpos, hbs⟩ := hsize g hgT r hr
      obtain ⟨c, κ, s⟩ := r
      simp only at hb hbs ⊢
      obtain ⟨n, hn⟩ := hcons κ
      rw [hT, allWrites_append, allWrites_append, wseqs_append, wseqs_append] at hn
      have hmid := consec_middle n _ _ _ hn
      have hfull := consec_prefix 0 n _ _ hn
      generalize ha : (wseqs κ (allWrites pre0)).length = a at hmid hfull
      generalize hk : (wseqs κ (allWrites pre)).length = k at hmid hfull
      have hring : (applyWrites (B.map Ring.init) (allWrites pre))[κ]? = some ((Ring.init b).writes a k) := by
        rw [applyWrites_kind, List.getElem?_map, hb, hmid]
        simp [Ring.writeList_consec]
      rw [hring]
      simp only
      have hs1 := hge g hgT (c, κ, s) hr
      simp only at hs1
      rw [List.length_append, ha, hk] at hfull
      -- everything written before this generation, in the whole trace
      have hall : wseqs κ (allWrites (pre0 ++ pre)) = consec 0 (a + k) := by
        rw [allWrites_append, wseqs_append]; exact hfull
      obtain ⟨P, hP⟩ : ∃ P, P = pre0 ++ pre := ⟨_, rfl⟩
      have hTP : T = P ++ g :: gs := by rw [hP]; exact hT
      rw [← hP] at hall
      have hlive : ((a : Int) + k) ≤ s + b := by
        rcases Nat.eq_zero_or_pos (a + k) with h0 | hpos
        · have : (a : Int) + k = 0 := by omega
          omega
        · have hlast : (((a + k : Nat) : Int) - 1) ∈ wseqs κ (allWrites P) := by
            rw [hall]; exact last_mem_consec (a + k) hpos
          obtain ⟨u, hu, hmem⟩ := mem_wseqs_allWrites κ P _ hlast
          have hlenT : T.length = P.length + (gs.length + 1) := by rw [hTP]; simp
          have hTu : T[u]'(by omega) = P[u] := by
            simp only [hTP]; rw [List.getElem_append_left hu]
          have hTt : T[P.length]'(by omega) = g := by
            simp only [hTP]; rw [List.getElem_append_right (Nat.le_refl _)]; simp
          have hmax : (((a + k : Nat) : Int) - 1) ≤ (maxOutOf κ T)[u]'(by simp [maxOutOf]; omega) := by
            simp only [maxOutOf, List.getElem_map, hTu]
            exact le_lmaxD _ _ _ hmem
          have hmin : (minInOf c κ T)[P.length]'(by simp [minInOf]; omega) ≤ s := by
            simp only [minInOf, List.getElem_map, hTt]
            apply lminD_le
            simp only [rseqs, List.mem_map, List.mem_filter]
            exact ⟨(c, κ, s), ⟨hr, by simp⟩, rfl⟩
          have := bufSize_live (minInOf c κ T) (maxOutOf κ T) (by simp [minInOf, maxOutOf]) u P.length P.length
            hu (Nat.le_refl _) (by simp [minInOf]; omega) s (((a + k : Nat) : Int) - 1) hmin hmax
          push_cast at this
          omega
      by_cases h0 : 0 ≤ s
      · have hmem := hdep P g gs hTP (c, κ, s) hr h0
        simp only at hmem
        rw [hall, mem_consec] at hmem
        by_cases hsa : (a : Int) ≤ s
        · exact Ring.read_live b hbpos a k s strict h0 hsa (by push_cast at hmem; omega) (by omega)
        · -- written before the start: only possible when the execution did not start at the beginning
          have hne : pre0 ≠ [] := by
            intro he; subst he
            simp [allWrites, wseqs] at ha
            omega
          have hst : strict = false := by
            cases strict with
            | false => rfl
            | true => exact absurd (hstrict rfl) hne
          subst hst
          exact Ring.read_before_start b hbpos a k s (by omega) (by omega)
      · have hs : s = -1 := by omega
        subst hs
        exact Ring.read_default_from b hbpos a k strict (by omega) (by omega)
    · have := ih (pre ++ [g]) (by rw [hT]; simp)
      rw [allWrites_append, applyWrites_append] at this
      simpa [allWrites] using this

/-! ### the hypotheses as a decision procedure -/

def isConsec0 (l : List Int) : Bool := l == consec 0 l.length

def depFrom (pre : List (Nat × Int)) : List Gen → Bool
  | [] => true
  | g :: gs => (g.reads.all fun r => decide (r.2.2 < 0) || (wseqs r.2.1 pre).contains r.2.2) && depFrom (pre ++ g.writes) gs

/-- decides the hypotheses of `traceOk_of_sized` for a trace, `kinds` kinds and buffer sizes `B` -/
def sizedOk (T : List Gen) (kinds : Nat) (B : List Nat) : Bool :=
  (T.all fun g => g.writes.all fun w => decide (w.1 < kinds)) &&
  ((List.range kinds).all fun κ => isConsec0 (wseqs κ (allWrites T))) &&
  (T.all fun g => g.reads.all fun r => decide (-1 ≤ r.2.2)) &&
  depFrom [] T &&
  (T.all fun g => g.reads.all fun r =>
    match B[r.2.1]? with
    | some b => decide (0 < b) && decide (bufSize (minInOf r.1 r.2.1 T) (maxOutOf r.2.1 T) ≤ b)
    | none => false)

theorem depFrom_spec (pre0 : List Gen) (rest : List Gen) (h : depFrom (allWrites pre0) rest = true) :
    ∀ pre g post, rest = pre ++ g :: post → ∀ r ∈ g.reads, 0 ≤ r.2.2 → r.2.2 ∈ wseqs r.2.1 (allWrites (pre0 ++ pre)) := by
  induction rest generalizing pre0 with
  | nil => intro pre g post h'; simp at h'
  | cons g0 gs ih =>
    intro pre g post hsplit r hr h0
    simp only [depFrom, Bool.and_eq_true, List.all_eq_true, Bool.or_eq_true, decide_eq_true_eq] at h
    cases pre with
    | nil =>
      simp only [List.nil_append, List.cons.injEq] at hsplit
      obtain ⟨rfl, _⟩ := hsplit
      rcases h.1 r hr with hneg | hc
      · omega
      · simpa using hc
    | cons p ps =>
      simp only [List.cons_append, List.cons.injEq] at hsplit
      obtain ⟨rfl, hrest⟩ := hsplit
      have h2 : depFrom (allWrites (pre0 ++ [g0])) gs = true := by
        rw [allWrites_append]; simpa [allWrites] using h.2
      have := ih (pre0 ++ [g0]) h2 ps g post hrest r hr h0
      simpa [List.append_assoc] using this

theorem wseqs_nil_of_kinds (T : List Gen) (kinds κ : Nat) (hκ : kinds ≤ κ)
    (h : (T.all fun g => g.writes.all fun w => decide (w.1 < kinds)) = true) : wseqs κ (allWrites T) = [] := by
  simp only [List.all_eq_true, decide_eq_true_eq] at h
  simp only [wseqs, List.map_eq_nil_iff, List.filter_eq_nil_iff, allWrites, List.mem_flatMap]
  rintro w ⟨g, hg, hw⟩
  have := h g hg w hw
  simp; omega

/-- **the decision procedure is sound**, for an execution that starts at any generation of the accepted trace -/
theorem traceOk_from_of_sizedOk (T : List Gen) (kinds : Nat) (B : List Nat) (h : sizedOk T kinds B = true)
    (strict : Bool) (pre0 rest0 : List Gen) (hT0 : T = pre0 ++ rest0) (hstrict : strict = true → pre0 = []) :
    traceOk strict (B.map Ring.init) rest0 = true := by
  simp only [sizedOk, Bool.and_eq_true] at h
  obtain ⟨⟨⟨⟨hk, hc⟩, hge⟩, hd⟩, hs⟩ := h
  apply traceOk_of_sized_from T B strict _ _ _ _ pre0 rest0 hT0 hstrict
  · intro κ
    rcases Nat.lt_or_ge κ kinds with hlt | hge'
    · simp only [List.all_eq_true, List.mem_range] at hc
      have := hc κ hlt
      simp only [isConsec0, beq_iff_eq] at this
      exact ⟨_, this⟩
    · exact ⟨0, by rw [wseqs_nil_of_kinds T kinds κ hge' hk]; rfl⟩
  · simp only [List.all_eq_true, decide_eq_true_eq] at hge
    exact hge
  · have := depFrom_spec [] T (by simpa [allWrites] using hd)
    simpa using this
  · simp only [List.all_eq_true] at hs
    intro g hg r hr
    have := hs g hg r hr
    cases hb : B[r.2.1]? with
    | none => rw [hb] at this; cases this
    | some b =>
      rw [hb] at this
      simp only [Bool.and_eq_true, decide_eq_true_eq] at this
      exact ⟨b, rfl, this.1, this.2⟩

/-- a trace the decision procedure accepts replays without a bad read -/
theorem traceOk_of_sizedOk (T : List Gen) (kinds : Nat) (B : List Nat) (h : sizedOk T kinds B = true) :
    traceOk true (B.map Ring.init) T = true :=
  traceOk_from_of_sizedOk T kinds B h true [] T rfl (fun _ => rfl)

/-! ### the executable replay of `Schedule.lean` is the trace replay -/

def genOf (cs : List Cell) : Gen :=
  ⟨cs.flatMap fun c => c.wins.flatMap fun w => w.2.1.map fun s => (c.kind, w.1, s), cs.map fun c => (c.kind, c.seq)⟩

def traceOf (i : Inst) (startPart : Nat) : List Gen := (gridFrom i startPart).map fun pg => genOf (cellsAt i pg.1 pg.2)

theorem writeAll_eq_applyWrites (rings : List Ring) (cs : List Cell) : writeAll rings cs = applyWrites rings (genOf cs).writes := by
  simp only [writeAll, applyWrites, genOf, List.foldl_map]
  rfl

theorem readsOk_eq (strict : Bool) (rings : List Ring) (cs : List Cell)
    (hk : ∀ c ∈ cs, ∀ w ∈ c.wins, w.1 < rings.length) : readsOk strict rings cs = genReadsOk strict rings (genOf cs) := by
  apply Bool.eq_iff_iff.mpr
  simp only [readsOk, genReadsOk, genOf, List.all_eq_true, List.mem_flatMap, List.mem_map]
  constructor
  · rintro h r ⟨c, hc, w, hw, s, hs, rfl⟩
    have := h c hc w hw
    have hlt := hk c hc w hw
    simp only [List.getElem?_eq_getElem hlt, List.all_eq_true] at this ⊢
    exact this s hs
  · intro h c hc w hw
    have hlt := hk c hc w hw
    simp only [List.getElem?_eq_getElem hlt, List.all_eq_true]
    intro s hs
    have := h (c.kind, w.1, s) ⟨c, hc, w, hw, s, hs, rfl⟩
    simpa [List.getElem?_eq_getElem hlt] using this

theorem replay_fold (strict : Bool) (i : Inst) (L : List (Nat × Nat)) (rings : List Ring) (ok : Bool)
    (hk : ∀ pg ∈ L, ∀ c ∈ cellsAt i pg.1 pg.2, ∀ w ∈ c.wins, w.1 < rings.length) :
    (L.foldl (fun (st : List Ring × Bool) pg =>
        let cs := cellsAt i pg.1 pg.2
        (writeAll st.1 cs, st.2 && readsOk strict st.1 cs)) (rings, ok)).2
      = (ok && traceOk strict rings (L.map fun pg => genOf (cellsAt i pg.1 pg.2))) := by
  induction L generalizing rings ok with
  | nil => simp [traceOk]
  | cons pg L ih =>
    simp only [List.foldl_cons, List.map_cons, traceOk]
    rw [ih]
    · rw [readsOk_eq strict rings _ (hk pg (by simp)), writeAll_eq_applyWrites, Bool.and_assoc]
    · intro pg' hpg' c hc w hw
      rw [writeAll_length]
      exact hk pg' (by simp [hpg']) c hc w hw

theorem replayOk_eq_traceOk (i : Inst) (sizes : List Nat) (startPart : Nat)
    (hk : ∀ c ∈ i.sched, ∀ w ∈ c.wins, w.1 < sizes.length) :
    replayOk i sizes startPart = traceOk (startPart == 0) (sizes.map Ring.init) (traceOf i startPart) := by
  unfold replayOk traceOf
  rw [replay_fold]
  · simp
  · intro pg _ c hc w hw
    simp only [List.length_map]
    have : c ∈ i.sched := by
      simp only [cellsAt, List.mem_filter] at hc
      exact hc.1
    exact hk c this w hw

/-- **C08 end-to-end on an instance.** If the decision procedure accepts the trace of a compiled instance for the given
buffer sizes, the replay from partition 0 — "every scheduled read returns the payload written with that sequence
number, or the default output for -1" — succeeds. -/
theorem replayOk_of_sizedOk (i : Inst) (sizes : List Nat)
    (hk : ∀ c ∈ i.sched, ∀ w ∈ c.wins, w.1 < sizes.length)
    (h : sizedOk (traceOf i 0) sizes.length sizes = true) : replayOk i sizes 0 = true := by
  rw [replayOk_eq_traceOk i sizes 0 hk]
  exact traceOk_of_sizedOk _ _ _ h

theorem range_filter_ge_suffix (n s : Nat) :
    ∃ pre, List.range n = pre ++ (List.range n).filter (fun p => decide (p ≥ s)) ∧ (s = 0 → pre = []) := by
  induction n with
  | zero => exact ⟨[], by simp, fun _ => rfl⟩
  | succ n ih =>
    obtain ⟨pre, hpre, h0⟩ := ih
    rw [List.range_succ, List.filter_append]
    by_cases hn : n ≥ s
    · refine ⟨pre, ?_, h0⟩
      simp only [List.filter_cons, hn, decide_true, if_true, List.filter_nil]
      rw [← List.append_assoc, ← hpre]
    · -- nothing of `range n` passes the filter either
      have hnone : (List.range n).filter (fun p => decide (p ≥ s)) = [] := by
        rw [List.filter_eq_nil_iff]
        intro a ha
        have := List.mem_range.mp ha
        simp; omega
      refine ⟨List.range n ++ [n], ?_, fun hs => by omega⟩
      simp [hnone, hn]

/-- the trace of an execution that starts at partition `startPart` is a suffix of the trace from partition 0 -/
theorem traceOf_suffix (i : Inst) (startPart : Nat) :
    ∃ pre0, traceOf i 0 = pre0 ++ traceOf i startPart ∧ (startPart = 0 → pre0 = []) := by
  obtain ⟨pre, hpre, h0⟩ := range_filter_ge_suffix i.parts startPart
  have hall : (List.range i.parts).filter (fun p => decide (p ≥ 0)) = List.range i.parts := by
    rw [List.filter_eq_self]; intro a _; simp
  refine ⟨(pre.flatMap fun p => (List.range i.gens).map fun g => (p, g)).map fun pg => genOf (cellsAt i pg.1 pg.2), ?_, ?_⟩
  · simp only [traceOf, gridFrom, hall]
    conv => lhs; rw [hpre]
    simp [List.flatMap_append]
  · intro hs; rw [h0 hs]; rfl

/-- **C08 end-to-end on an instance, any starting partition.** -/
theorem replayOk_of_sizedOk_from (i : Inst) (sizes : List Nat) (startPart : Nat)
    (hk : ∀ c ∈ i.sched, ∀ w ∈ c.wins, w.1 < sizes.length)
    (h : sizedOk (traceOf i 0) sizes.length sizes = true) : replayOk i sizes startPart = true := by
  rw [replayOk_eq_traceOk i sizes startPart hk]
  obtain ⟨pre0, hsplit, h0⟩ := traceOf_suffix i startPart
  exact traceOk_from_of_sizedOk _ _ _ h _ pre0 _ hsplit (fun hs => h0 (by simpa using hs))

/-- the kinds of all window entries are inside the list of sizes -/
def kindsOk (i : Inst) (kinds : Nat) : Bool := i.sched.all fun c => c.wins.all fun w => decide (w.1 < kinds)

end Rex.Sched
