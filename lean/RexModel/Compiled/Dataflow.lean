/-! Dataflow evaluation of a computation graph along an order of its vertices. Core Lean only.

`run G order` evaluates the vertices in the given order; each vertex computes `f v` of the current values of its
dependencies (previous step of the same node, producers of the messages in its windows). Theorem
`order_independent`: any two *valid* orders (no vertex twice, every dependency earlier) give every common vertex
the same value — so "compiled execution along any valid schedule" and "what the asynchronous runtime did" agree
as soon as both respect the dependencies. -/

namespace Rex.Dataflow

structure Graph (V Val : Type) where
  deps : V → List V
  f : V → List Val → Val
  dflt : Val

variable {V Val : Type} [DecidableEq V]

def evalStep (G : Graph V Val) (env : V → Option Val) (v : V) : V → Option Val :=
  fun u => if u = v then some (G.f v ((G.deps v).map fun d => (env d).getD G.dflt)) else env u

def run (G : Graph V Val) (order : List V) (env0 : V → Option Val) : V → Option Val :=
  order.foldl (evalStep G) env0

/-- no vertex twice; every dependency of a vertex occurs strictly earlier -/
def Valid (G : Graph V Val) (order : List V) : Prop :=
  order.Nodup ∧ ∀ pre v post, order = pre ++ v :: post → ∀ d ∈ G.deps v, d ∈ pre

theorem run_frame (G : Graph V Val) (l : List V) (env : V → Option Val) (u : V) (h : u ∉ l) :
    run G l env u = env u := by
  induction l generalizing env with
  | nil => rfl
  | cons a l ih =>
    simp only [run, List.foldl_cons] at ih ⊢
    rw [ih _ (fun hm => h (List.mem_cons_of_mem _ hm))]
    simp only [evalStep]
    have : u ≠ a := fun e => h (e ▸ List.mem_cons_self)
    simp [this]

theorem run_append (G : Graph V Val) (l₁ l₂ : List V) (env : V → Option Val) :
    run G (l₁ ++ l₂) env = run G l₂ (run G l₁ env) := by
  simp [run, List.foldl_append]

/-- the value a vertex gets is `f` of the (final) values of its dependencies -/
theorem run_fixpoint (G : Graph V Val) (pre post : List V) (v : V) (env0 : V → Option Val)
    (hnd : (pre ++ v :: post).Nodup) (hdeps : ∀ d ∈ G.deps v, d ∈ pre) :
    run G (pre ++ v :: post) env0 v
      = some (G.f v ((G.deps v).map fun d => (run G (pre ++ v :: post) env0 d).getD G.dflt)) := by
  have hv_post : v ∉ post := by
    have := (List.nodup_append.mp hnd).2.1
    exact (List.nodup_cons.mp this).1
  have hpre_disj : ∀ d ∈ pre, d ∉ v :: post := by
    intro d hd hmem
    exact (List.nodup_append.mp hnd).2.2 d hd d hmem rfl
  rw [run_append]
  have h1 : run G (v :: post) (run G pre env0) v
      = some (G.f v ((G.deps v).map fun d => (run G pre env0 d).getD G.dflt)) := by
    show run G post (evalStep G (run G pre env0) v) v = _
    rw [run_frame G post _ v hv_post]
    simp [evalStep]
  rw [h1]
  congr 2
  apply List.map_congr_left
  intro d hd
  rw [run_frame G (v :: post) _ d (hpre_disj d (hdeps d hd))]

/-- **Order independence.** -/
theorem order_independent (G : Graph V Val) (o₁ o₂ : List V) (env0 : V → Option Val)
    (h₁ : Valid G o₁) (h₂ : Valid G o₂) :
    ∀ v, v ∈ o₁ → v ∈ o₂ → run G o₁ env0 v = run G o₂ env0 v := by
  -- strong induction on the position of v in o₁
  suffices H : ∀ n pre v post, pre.length = n → o₁ = pre ++ v :: post → v ∈ o₂ →
      run G o₁ env0 v = run G o₂ env0 v by
    intro v hv1 hv2
    obtain ⟨pre, post, rfl⟩ := List.append_of_mem hv1
    exact H pre.length pre v post rfl rfl hv2
  intro n
  induction n using Nat.strongRecOn with
  | _ n ih =>
    intro pre v post hlen ho hv2
    obtain ⟨pre2, post2, ho2⟩ := List.append_of_mem hv2
    have d1 := h₁.2 pre v post ho
    have d2 := h₂.2 pre2 v post2 ho2
    have e1 := run_fixpoint G pre post v env0 (ho ▸ h₁.1) d1
    have e2 := run_fixpoint G pre2 post2 v env0 (ho2 ▸ h₂.1) d2
    have e1' : run G o₁ env0 v = some (G.f v ((G.deps v).map fun d => (run G o₁ env0 d).getD G.dflt)) := by
      rw [ho]; exact e1
    have e2' : run G o₂ env0 v = some (G.f v ((G.deps v).map fun d => (run G o₂ env0 d).getD G.dflt)) := by
      rw [ho2]; exact e2
    rw [e1', e2']
    congr 2
    apply List.map_congr_left
    intro d hd
    obtain ⟨p, q, hp⟩ := List.append_of_mem (d1 d hd)
    have hd2 : d ∈ o₂ := by rw [ho2]; exact List.mem_append_left _ (d2 d hd)
    have : run G o₁ env0 d = run G o₂ env0 d :=
      ih p.length (by rw [← hlen, hp]; simp) p d (q ++ v :: post) rfl (by rw [ho, hp]; simp) hd2
    rw [this]

/-! ## dependencies that are never evaluated

A window entry without a message and the "previous step" of a node's first step are dependencies on vertices that do
not exist; both orders leave them at the initial environment. `U` is the set of vertices that exist. -/

/-- no vertex twice, only existing vertices, and every dependency either occurs strictly earlier or does not exist -/
def ValidIn (G : Graph V Val) (U : V → Prop) (order : List V) : Prop :=
  order.Nodup ∧ (∀ v ∈ order, U v) ∧
  ∀ pre v post, order = pre ++ v :: post → ∀ d ∈ G.deps v, d ∈ pre ∨ ¬ U d

/-- the fixpoint equation only needs that no dependency is evaluated at or after the vertex -/
theorem run_fixpoint' (G : Graph V Val) (pre post : List V) (v : V) (env0 : V → Option Val)
    (hnd : (pre ++ v :: post).Nodup) (hdeps : ∀ d ∈ G.deps v, d ∉ v :: post) :
    run G (pre ++ v :: post) env0 v
      = some (G.f v ((G.deps v).map fun d => (run G (pre ++ v :: post) env0 d).getD G.dflt)) := by
  have hv_post : v ∉ post := by
    have := (List.nodup_append.mp hnd).2.1
    exact (List.nodup_cons.mp this).1
  rw [run_append]
  have h1 : run G (v :: post) (run G pre env0) v
      = some (G.f v ((G.deps v).map fun d => (run G pre env0 d).getD G.dflt)) := by
    show run G post (evalStep G (run G pre env0) v) v = _
    rw [run_frame G post _ v hv_post]
    simp [evalStep]
  rw [h1]
  congr 2
  apply List.map_congr_left
  intro d hd
  rw [run_frame G (v :: post) _ d (hdeps d hd)]

/-- **Order independence with non-existent dependencies.** -/
theorem order_independent_in (G : Graph V Val) (U : V → Prop) (o₁ o₂ : List V) (env0 : V → Option Val)
    (h₁ : ValidIn G U o₁) (h₂ : ValidIn G U o₂) :
    ∀ v, v ∈ o₁ → v ∈ o₂ → run G o₁ env0 v = run G o₂ env0 v := by
  suffices H : ∀ n pre v post, pre.length = n → o₁ = pre ++ v :: post → v ∈ o₂ →
      run G o₁ env0 v = run G o₂ env0 v by
    intro v hv1 hv2
    obtain ⟨pre, post, rfl⟩ := List.append_of_mem hv1
    exact H pre.length pre v post rfl rfl hv2
  intro n
  induction n using Nat.strongRecOn with
  | _ n ih =>
    intro pre v post hlen ho hv2
    obtain ⟨pre2, post2, ho2⟩ := List.append_of_mem hv2
    have d1 := h₁.2.2 pre v post ho
    have d2 := h₂.2.2 pre2 v post2 ho2
    -- a dependency is never evaluated at or after the vertex, in either order
    have notlater : ∀ (o p q : List V), ValidIn G U o → o = p ++ v :: q → ∀ d ∈ G.deps v, d ∉ v :: q := by
      intro o p q hval hsplit d hd hmem
      have hnd : (p ++ v :: q).Nodup := hsplit ▸ hval.1
      rcases hval.2.2 p v q hsplit d hd with hp | hnu
      · exact (List.nodup_append.mp hnd).2.2 d hp d hmem rfl
      · exact hnu (hval.2.1 d (by rw [hsplit]; exact List.mem_append_right _ hmem))
    have e1 := run_fixpoint' G pre post v env0 (ho ▸ h₁.1) (notlater o₁ pre post h₁ ho)
    have e2 := run_fixpoint' G pre2 post2 v env0 (ho2 ▸ h₂.1) (notlater o₂ pre2 post2 h₂ ho2)
    have e1' : run G o₁ env0 v = some (G.f v ((G.deps v).map fun d => (run G o₁ env0 d).getD G.dflt)) := by
      rw [ho]; exact e1
    have e2' : run G o₂ env0 v = some (G.f v ((G.deps v).map fun d => (run G o₂ env0 d).getD G.dflt)) := by
      rw [ho2]; exact e2
    rw [e1', e2']
    congr 2
    apply List.map_congr_left
    intro d hd
    by_cases hU : U d
    · -- an existing dependency: earlier in both orders
      have hp1 : d ∈ pre := (d1 d hd).resolve_right (fun h => h hU)
      have hp2 : d ∈ pre2 := (d2 d hd).resolve_right (fun h => h hU)
      obtain ⟨p, q, hp⟩ := List.append_of_mem hp1
      have hd2 : d ∈ o₂ := by rw [ho2]; exact List.mem_append_left _ hp2
      have : run G o₁ env0 d = run G o₂ env0 d :=
        ih p.length (by rw [← hlen, hp]; simp) p d (q ++ v :: post) rfl (by rw [ho, hp]; simp) hd2
      rw [this]
    · -- a dependency that does not exist: evaluated by neither order
      have hn1 : d ∉ o₁ := fun h => hU (h₁.2.1 d h)
      have hn2 : d ∉ o₂ := fun h => hU (h₂.2.1 d h)
      rw [run_frame G o₁ env0 d hn1, run_frame G o₂ env0 d hn2]

end Rex.Dataflow
