/-! Generic confluence for guarded rule systems: persistence + commutation of different rules give the
strip lemma, confluence (no termination needed), and prefix-comparability of append-only observations.
Core Lean only. -/
universe u v

namespace Rex.Conf

structure Sys (S : Type u) (R : Type v) where
  guard : R → S → Prop
  fire  : R → S → S
  Inv   : S → Prop

variable {S : Type u} {R : Type v} (M : Sys S R)

/-- `Run s σ s'`: firing the rule instances `σ` in order, each enabled when fired, leads from `s` to `s'`. -/
inductive Run : S → List R → S → Prop
  | nil  (s) : Run s [] s
  | cons {s r σ s'} : M.guard r s → Run (M.fire r s) σ s' → Run s (r :: σ) s'

structure Good : Prop where
  inv     : ∀ s r, M.Inv s → M.guard r s → M.Inv (M.fire r s)
  persist : ∀ s r r', M.Inv s → M.guard r s → M.guard r' s → r ≠ r' → M.guard r' (M.fire r s)
  commute : ∀ s r r', M.Inv s → M.guard r s → M.guard r' s → r ≠ r' →
              M.fire r' (M.fire r s) = M.fire r (M.fire r' s)

variable {M}

theorem Run.inv (G : Good M) : ∀ {s σ s'}, Run M s σ s' → M.Inv s → M.Inv s'
  | _, _, _, .nil _, h => h
  | _, _, _, .cons g r, h => Run.inv G r (G.inv _ _ h g)

theorem Run.append : ∀ {s σ s' τ s''}, Run M s σ s' → Run M s' τ s'' → Run M s (σ ++ τ) s''
  | _, _, _, _, _, .nil _, h => h
  | _, _, _, _, _, .cons g r, h => .cons g (Run.append r h)

/-- strip lemma: one step against a run. Either the step is absorbed (r occurs) or it is appended. -/
theorem strip [DecidableEq R] (G : Good M) :
    ∀ {s σ s₂} (r : R), M.Inv s → M.guard r s → Run M s σ s₂ →
      ∃ τ ρ s', τ.length ≤ 1 ∧ Run M s₂ τ s' ∧ Run M (M.fire r s) ρ s' ∧ ρ.length ≤ σ.length
  | s, [], _, r, _, g, .nil _ => ⟨[r], [], M.fire r s, by simp, .cons g (.nil _), .nil _, by simp⟩
  | s, r' :: σ, s₂, r, hi, g, .cons g' run => by
      by_cases h : r = r'
      · subst h
        exact ⟨[], σ, s₂, by simp, .nil _, run, by simp⟩
      · have gp  : M.guard r (M.fire r' s) := G.persist s r' r hi g' g (Ne.symm h)
        have gp' : M.guard r' (M.fire r s) := G.persist s r r' hi g g' h
        have hc  := G.commute s r r' hi g g' h
        obtain ⟨τ, ρ, s', hτ, r1, r2, hρ⟩ := strip G r (G.inv _ _ hi g') gp run
        refine ⟨τ, r' :: ρ, s', hτ, r1, ?_, by simp; omega⟩
        refine .cons gp' ?_
        rw [hc]; exact r2

/-- Any two runs from the same state can be joined. -/
theorem confluent [DecidableEq R] (G : Good M) :
    ∀ {s σ₁ s₁ σ₂ s₂}, M.Inv s → Run M s σ₁ s₁ → Run M s σ₂ s₂ →
      ∃ τ₁ τ₂ s', Run M s₁ τ₁ s' ∧ Run M s₂ τ₂ s'
  | s, [], _, σ₂, s₂, _, .nil _, r2 => ⟨σ₂, [], s₂, r2, .nil _⟩
  | s, r :: σ₁, s₁, σ₂, s₂, hi, .cons g run1, r2 => by
      obtain ⟨τ, ρ, s', _, a, b, _⟩ := strip G r hi g r2
      obtain ⟨τ₁, τ₂, s'', c, d⟩ := confluent G (G.inv _ _ hi g) run1 b
      exact ⟨τ₁, τ ++ τ₂, s'', c, Run.append a d⟩

/-- append-only observations are prefix-comparable across schedules -/
theorem prefix_comparable [DecidableEq R] {α} (G : Good M) (obs : S → List α)
    (mono : ∀ s r, M.Inv s → M.guard r s → obs s <+: obs (M.fire r s))
    {s σ₁ s₁ σ₂ s₂} (hi : M.Inv s) (r1 : Run M s σ₁ s₁) (r2 : Run M s σ₂ s₂) :
    obs s₁ <+: obs s₂ ∨ obs s₂ <+: obs s₁ := by
  have monoRun : ∀ {s σ s'}, M.Inv s → Run M s σ s' → obs s <+: obs s' := by
    intro s σ s' hi r
    induction r with
    | nil _ => exact List.prefix_refl _
    | cons g _ ih => exact (mono _ _ hi g).trans (ih (G.inv _ _ hi g))
  obtain ⟨τ₁, τ₂, s', a, b⟩ := confluent G hi r1 r2
  have p1 := monoRun (Run.inv G r1 hi) a
  have p2 := monoRun (Run.inv G r2 hi) b
  exact List.prefix_or_prefix_of_prefix p1 p2

end Rex.Conf
