import RexModel.Async.Confluence

/-! Process networks with single-producer / single-consumer queues.

A rule `r` owns a piece of private state and, for every queue, is either *the* producer, *the* consumer,
both, or neither. Its step function sees its private state and the contents of the queues it consumes,
and answers with a new private state, a number of elements to pop from each of its input queues and a list
to append to each of its output queues. Ownership is enforced by construction (`fire` masks pops/appends
with `cons`/`prod`), so the only proof obligation per rule is **stability**: once a rule can fire, appending
more data to its input queues changes neither that fact nor its result.

Theorem `Net.good`: a network of stable rules is persistent and commuting, hence (by `Rex.Conf`) confluent,
and every queue without a consumer (a *record*) is prefix-comparable across any two schedules. -/

namespace Rex.Net

open Rex.Conf

structure Net (Q R V P : Type) where
  prod : Q → R
  cons : Q → Option R
  step : R → P → (Q → List V) → Option (P × (Q → Nat) × (Q → List V))

structure St (Q R V P : Type) where
  q : Q → List V
  priv : R → P

variable {Q R V P : Type} [DecidableEq R]

def Net.view (N : Net Q R V P) (r : R) (s : St Q R V P) : Q → List V :=
  fun q => if N.cons q = some r then s.q q else []

def Net.apply (N : Net Q R V P) (r : R) (s : St Q R V P) (res : P × (Q → Nat) × (Q → List V)) : St Q R V P :=
  { priv := fun r' => if r' = r then res.1 else s.priv r'
    q := fun q => (s.q q).drop (if N.cons q = some r then res.2.1 q else 0)
                    ++ (if N.prod q = r then res.2.2 q else []) }

def Net.fire (N : Net Q R V P) (r : R) (s : St Q R V P) : St Q R V P :=
  match N.step r (s.priv r) (N.view r s) with
  | none => s
  | some res => N.apply r s res

def Net.guard (N : Net Q R V P) (r : R) (s : St Q R V P) : Prop :=
  (N.step r (s.priv r) (N.view r s)).isSome = true

/-- stability + bounded pops for every rule -/
structure Net.Stable (N : Net Q R V P) : Prop where
  stable : ∀ r p (v v' : Q → List V), (∀ q, v q <+: v' q) →
      ∀ res, N.step r p v = some res → N.step r p v' = some res
  bounded : ∀ r p (v : Q → List V) res, N.step r p v = some res → ∀ q, res.2.1 q ≤ (v q).length

def Net.sys (N : Net Q R V P) : Sys (St Q R V P) R :=
  { guard := N.guard, fire := N.fire, Inv := fun _ => True }

/-- pops at the front and appends at the back of one queue commute when at most one of the two rules pops
and at most one appends -/
theorem drop_append_comm {V : Type} (l A B : List V) (a b : Nat) (h0 : a = 0 ∨ b = 0)
    (ha : a ≤ l.length) (hb : b ≤ l.length) (hAB : A = [] ∨ B = []) :
    (l.drop a ++ A).drop b ++ B = (l.drop b ++ B).drop a ++ A := by
  rcases h0 with rfl | rfl <;> rcases hAB with rfl | rfl
  · simp
  · simp [List.drop_append_of_le_length hb]
  · simp [List.drop_append_of_le_length ha]
  · simp

theorem view_fire_prefix (N : Net Q R V P) (r r' : R) (h : r ≠ r') (s : St Q R V P)
    (res : P × (Q → Nat) × (Q → List V)) (q : Q) :
    N.view r' s q <+: N.view r' (N.apply r s res) q := by
  unfold Net.view Net.apply
  by_cases hc : N.cons q = some r'
  · have hne : ¬ (N.cons q = some r) := by
      intro h2; rw [hc] at h2; exact h (Option.some.inj h2).symm
    simp only [if_pos hc, if_neg hne, List.drop_zero]
    exact List.prefix_append _ _
  · simp [hc]

theorem priv_fire_ne (N : Net Q R V P) (r r' : R) (h : r ≠ r') (s : St Q R V P)
    (res : P × (Q → Nat) × (Q → List V)) : (N.apply r s res).priv r' = s.priv r' := by
  simp [Net.apply, Ne.symm h]

/-- after a *different* rule fired, `r'` computes exactly the same result -/
theorem step_after (N : Net Q R V P) (hS : N.Stable) (r r' : R) (h : r ≠ r') (s : St Q R V P)
    (res : P × (Q → Nat) × (Q → List V)) (res' : P × (Q → Nat) × (Q → List V))
    (h' : N.step r' (s.priv r') (N.view r' s) = some res') :
    N.step r' ((N.apply r s res).priv r') (N.view r' (N.apply r s res)) = some res' := by
  rw [priv_fire_ne N r r' h]
  exact hS.stable r' _ _ _ (view_fire_prefix N r r' h s res) res' h'

theorem Net.good (N : Net Q R V P) (hS : N.Stable) : Good N.sys := by
  refine ⟨fun _ _ _ _ => trivial, ?_, ?_⟩
  · -- persist
    intro s r r' _ g g' hne
    change N.guard r s at g
    change N.guard r' s at g'
    show N.guard r' (N.fire r s)
    unfold Net.guard at g g' ⊢
    unfold Net.fire
    cases h : N.step r (s.priv r) (N.view r s) with
    | none => rw [h] at g; cases g
    | some res =>
      cases h' : N.step r' (s.priv r') (N.view r' s) with
      | none => rw [h'] at g'; cases g'
      | some res' =>
        simp only
        rw [step_after N hS r r' hne s res res' h']; rfl
  · -- commute
    intro s r r' _ g g' hne
    change N.guard r s at g
    change N.guard r' s at g'
    show N.fire r' (N.fire r s) = N.fire r (N.fire r' s)
    unfold Net.guard at g g'
    cases h : N.step r (s.priv r) (N.view r s) with
    | none => rw [h] at g; cases g
    | some res =>
      cases h' : N.step r' (s.priv r') (N.view r' s) with
      | none => rw [h'] at g'; cases g'
      | some res' =>
        have e1 : N.fire r s = N.apply r s res := by unfold Net.fire; rw [h]
        have e2 : N.fire r' s = N.apply r' s res' := by unfold Net.fire; rw [h']
        have e3 : N.fire r' (N.apply r s res) = N.apply r' (N.apply r s res) res' := by
          unfold Net.fire; rw [step_after N hS r r' hne s res res' h']
        have e4 : N.fire r (N.apply r' s res') = N.apply r (N.apply r' s res') res := by
          unfold Net.fire; rw [step_after N hS r' r (Ne.symm hne) s res' res h]
        rw [e1, e2, e3, e4]
        have hb := hS.bounded r _ _ res h
        have hb' := hS.bounded r' _ _ res' h'
        -- state extensionality
        have hpriv : (N.apply r' (N.apply r s res) res').priv = (N.apply r (N.apply r' s res') res).priv := by
          funext x
          simp only [Net.apply]
          by_cases hx : x = r' <;> by_cases hy : x = r
          · exact absurd (hy.symm.trans hx) hne
          · subst hx; simp [Ne.symm hne]
          · subst hy; simp [hne]
          · simp [hx, hy]
        have hq : (N.apply r' (N.apply r s res) res').q = (N.apply r (N.apply r' s res') res).q := by
          funext x
          simp only [Net.apply]
          have hbx := hb x
          have hbx' := hb' x
          unfold Net.view at hbx hbx'
          apply drop_append_comm
          · by_cases c1 : N.cons x = some r
            · right
              have : ¬ (N.cons x = some r') := by
                intro c2; exact hne (Option.some.inj (c1.symm.trans c2))
              simp [this]
            · left; simp [c1]
          · by_cases c1 : N.cons x = some r
            · simpa [c1] using hbx
            · simp [c1]
          · by_cases c2 : N.cons x = some r'
            · simpa [c2] using hbx'
            · simp [c2]
          · by_cases p1 : N.prod x = r
            · right
              have : ¬ (N.prod x = r') := fun p2 => hne (p1.symm.trans p2)
              simp [this]
            · left; simp [p1]
        cases hA : N.apply r' (N.apply r s res) res' with
        | mk qa pa =>
          cases hB : N.apply r (N.apply r' s res') res with
          | mk qb pb =>
            rw [hA] at hpriv hq; rw [hB] at hpriv hq
            simp only at hpriv hq
            rw [hpriv, hq]

/-- a queue nobody consumes only grows -/
theorem record_mono (N : Net Q R V P) (q : Q) (hq : N.cons q = none) (s : St Q R V P) (r : R) :
    s.q q <+: (N.fire r s).q q := by
  unfold Net.fire
  cases h : N.step r (s.priv r) (N.view r s) with
  | none => exact List.prefix_refl _
  | some res =>
    simp only [Net.apply, hq]
    simp only [reduceCtorEq, if_false, List.drop_zero]
    exact List.prefix_append _ _

/-- **Schedule independence of records**: in a network of stable rules, for any two firing sequences from the
same state, the contents of every consumer-less queue are prefix-comparable. -/
theorem records_schedule_independent (N : Net Q R V P) (hS : N.Stable) (q : Q) (hq : N.cons q = none)
    {s : St Q R V P} {σ₁ σ₂ : List R} {s₁ s₂ : St Q R V P}
    (r1 : Run N.sys s σ₁ s₁) (r2 : Run N.sys s σ₂ s₂) :
    s₁.q q <+: s₂.q q ∨ s₂.q q <+: s₁.q q :=
  prefix_comparable (N.good hS) (fun s => s.q q) (fun s r _ _ => record_mono N q hq s r) trivial r1 r2

end Rex.Net
