import RexModel.Async.Prog
import RexModel.Gen.Async

/-! The rule machine of `rex/asynchronous.py` (simulated clock) as a network of reader programs.

One rule per handler body (`push_scheduled_ts`, `push_phase_shift`, `push_step`, `push_ts_input`, `push_input`,
`push_zip`, `push_expected_nonblocking`, `push_expected_blocking`, `push_ts_max`, `push_selection`) plus the user
thread that answers the supervisor's observations. One queue per `q_*` deque, plus the argument streams of the
cross-thread tasks. All arithmetic and every comparison comes from `RexModel.Gen.Async` (regenerated from the
source); this file contains only the plumbing. Core Lean only: the same definitions run in the driver on
`Float` and are reasoned about for any carrier. -/

namespace Rex.Async

open Rex.Net Rex.Gen.Async

class TimeLike (α : Type) extends Add α, Sub α, Mul α, Div α, Neg α, LT α, LE α, BEq α, Max α, Min α,
    NatCast α, IntCast α, Rex.FloorDiv α where
  decLt : DecidableLT α
  decLe : DecidableLE α
  rnd : α → α

attribute [instance] TimeLike.decLt TimeLike.decLe

/-- a message as it sits in an input window: (seq_out, ts_sent, ts_recv, payload) -/
structure Item (T : Type) where
  seq : Int
  tsSent : T
  tsRecv : T
  data : Int
deriving Repr

structure StepHdr (T : Type) where
  tsScheduled : T
  tsMax : T
  tsEndPrev : T
  phase : T
  phaseScheduled : T
  phaseInputs : T
  phaseLast : T

/-- what a step function sees -/
structure StepIn (T : Type) where
  node : Nat
  call : Nat            -- index in the node's rng chain
  seq : Int
  ts : T
  state : Int
  windows : List (List (Item T))   -- one per input, in the node's input order; oldest first

structure StepOut where
  state : Int
  output : Int

structure StepRec (T : Type) where
  seq : Int
  tsStart : T
  tsEnd : T
  delay : T
  hdr : StepHdr T
  call : Nat
  stateBefore : Int
  windows : List (List (Item T))
  output : Option Int          -- `none`: the supervisor's step was cancelled (no output row)

structure MsgRec (T : Type) where
  seqOut : Int
  seqIn : Int
  tsSent : T
  tsRecv : T
  delay : T

inductive Val (T : Type) where
  | tok
  | tickTs (k : Int) (t : T)
  | time (t : T)
  | start (k : Int) (tsStart delay : T) (hdr : StepHdr T)
  | num (n : Nat)
  | sel (t : T) (n : Nat)
  | msg (seq : Int) (tsSent : T) (data : Int)
  | rmsg (seq : Int) (tsSent tsRecv delay : T) (data : Int)
  | grp (items : List (Item T))
  | obs (i : StepIn T)
  | act (o : StepOut)
  | stepRec (r : StepRec T)
  | msgRec (r : MsgRec T)

structure NodeCfg (T : Type) where
  rate : T
  phase : T
  advance : Bool
  scheduling : Nat           -- 0 = FREQUENCY, 1 = PHASE
  inputs : List Nat          -- connection ids, in the order of `node.inputs`
  outputs : List Nat
  compDelay : Nat → T        -- the computation-delay samples the runtime will draw, in order
  initState : Int

structure ConnCfg (T : Type) where
  src : Nat
  dst : Nat
  blocking : Bool
  skip : Bool
  jitter : Nat               -- 0 = LATEST, 1 = BUFFER
  window : Nat
  phase : T                  -- float(connection.phase)
  rateOut : T
  commDelay : Nat → T
  initData : Int             -- default output of the sender
  -- blocking arithmetic inputs
  phaseNode : T              -- input_node.phase   (rounded inside the kernel call)
  phaseIn : T                -- output_node.phase
  rateNode : T
  rateIn : T

structure Cfg (T : Type) where
  nodes : List (NodeCfg T)
  conns : List (ConnCfg T)
  sup : Nat
  f : StepIn T → StepOut     -- the nodes' step functions
  userSteps : Nat            -- how many observations the user answers before it stops
  numTokens : Nat := 10
  loopFuel : Nat := 100000

inductive Qn | tokens | sched | endPrev | start | record | obs | act
deriving DecidableEq, Repr
inductive Qc | inTs | inMsg | tsInput | nextStep | expTsMax | tsMax | expSel | zipDelay | zipMsgs | msgs | grouped | record
deriving DecidableEq, Repr
inductive QId | node (n : Nat) (q : Qn) | conn (c : Nat) (q : Qc)
deriving DecidableEq, Repr

inductive Rule
  | sched (n : Nat) | shift (n : Nat) | step (n : Nat) | user
  | tsIn (c : Nat) | inp (c : Nat) | zip (c : Nat) | expNb (c : Nat) | expBl (c : Nat) | tsMax (c : Nat) | select (c : Nat)
deriving DecidableEq, Repr

structure Priv (T : Type) where
  tick : Nat := 0
  phaseSched : T
  sampleIdx : Nat := 0
  prevRecv : T
  state : Int := 0
  calls : Nat := 0
  windows : List (List (Item T)) := []
  pending : Option (Int × T × T × StepHdr T × StepIn T) := none

variable {T : Type} [TimeLike T]

def zeroT : T := (Nat.cast 0 : T)

def Cfg.node (cfg : Cfg T) (n : Nat) : Option (NodeCfg T) := cfg.nodes[n]?
def Cfg.conn (cfg : Cfg T) (c : Nat) : Option (ConnCfg T) := cfg.conns[c]?
def Cfg.blocking (cfg : Cfg T) (c : Nat) : Bool := match cfg.conn c with | some x => x.blocking | none => false
def Cfg.dst (cfg : Cfg T) (c : Nat) : Nat := match cfg.conn c with | some x => x.dst | none => 0
def Cfg.src (cfg : Cfg T) (c : Nat) : Nat := match cfg.conn c with | some x => x.src | none => 0

/-- who appends to a queue -/
def prodOf (cfg : Cfg T) : QId → Rule
  | .node n .tokens => .step n
  | .node n .sched => .sched n
  | .node n .endPrev => .shift n
  | .node n .start => .shift n
  | .node n .record => .step n
  | .node n .obs => .step n
  | .node _ .act => .user
  | .conn c .inTs => .shift (cfg.src c)
  | .conn c .inMsg => .step (cfg.src c)
  | .conn c .tsInput => .tsIn c
  | .conn c .nextStep => if cfg.blocking c then .sched (cfg.dst c) else .shift (cfg.dst c)
  | .conn c .expTsMax => .expBl c
  | .conn c .tsMax => .tsMax c
  | .conn c .expSel => if cfg.blocking c then .expBl c else .expNb c
  | .conn c .zipDelay => .tsIn c
  | .conn c .zipMsgs => .inp c
  | .conn c .msgs => .zip c
  | .conn c .grouped => .select c
  | .conn c .record => .select c

/-- who pops from a queue (`none`: a record) -/
def consOf (cfg : Cfg T) : QId → Option Rule
  | .node n .tokens => some (.sched n)
  | .node n .sched => some (.shift n)
  | .node n .endPrev => some (.shift n)
  | .node n .start => some (.step n)
  | .node _ .record => none
  | .node n .obs => if n = cfg.sup then some .user else none
  | .node n .act => some (.step n)
  | .conn c .inTs => some (.tsIn c)
  | .conn c .inMsg => some (.inp c)
  | .conn c .tsInput => if cfg.blocking c then some (.tsMax c) else some (.expNb c)
  | .conn c .nextStep => if cfg.blocking c then some (.expBl c) else some (.expNb c)
  | .conn c .expTsMax => some (.tsMax c)
  | .conn c .tsMax => some (.shift (cfg.dst c))
  | .conn c .expSel => some (.select c)
  | .conn c .zipDelay => some (.zip c)
  | .conn c .zipMsgs => some (.zip c)
  | .conn c .msgs => some (.select c)
  | .conn c .grouped => some (.step (cfg.dst c))
  | .conn _ .record => none

abbrev Ans (T : Type) := Priv T × (QId → Nat) × (QId → List (Val T))
abbrev P (T : Type) := Prog QId (Val T) (Ans T)

def popsOf (l : List (QId × Nat)) : QId → Nat := fun q => (l.filter (·.1 == q)).foldl (fun a x => a + x.2) 0
def appsOf (l : List (QId × List (Val T))) : QId → List (Val T) :=
  fun q => (l.filter (·.1 == q)).foldl (fun a x => a ++ x.2) []

/-- read the head of each queue in `qs` (all must be present) -/
def takeHeads : List QId → (List (Val T) → P T) → P T
  | [], k => k []
  | q :: qs, k => .take q 1 (fun h => takeHeads qs (fun hs => k (h ++ hs)))

/-- `InputState.push`: roll left, write the newest last -/
def pushItem (w : List (Item T)) (x : Item T) : List (Item T) := w.drop 1 ++ [x]

def initWindow (c : ConnCfg T) : List (Item T) :=
  (List.range c.window).map fun (i : Nat) => { seq := (i : Int) - (c.window : Int), tsSent := zeroT, tsRecv := zeroT, data := c.initData }

/-- `push_scheduled_ts` -/
def progSched (cfg : Cfg T) (n : Nat) (p : Priv T) : P T :=
  match cfg.node n with
  | none => .fail
  | some nc =>
    .take (.node n .tokens) 1 fun _ =>
      let tick : Int := p.tick
      let ts := scheduled_ts TimeLike.rnd tick nc.rate nc.phase
      let blk := nc.inputs.filter cfg.blocking
      .done ({ p with tick := p.tick + 1 },
        popsOf [(.node n .tokens, 1)],
        appsOf ((.node n .sched, [Val.tickTs tick ts]) :: blk.map fun c => (QId.conn c .nextStep, [Val.tickTs tick ts])))

def timesOf : List (Val T) → List T
  | [] => []
  | .time t :: r => t :: timesOf r
  | .tickTs _ t :: r => t :: timesOf r
  | _ :: r => timesOf r

/-- `push_phase_shift` -/
def progShift (cfg : Cfg T) (n : Nat) (p : Priv T) : P T :=
  match cfg.node n with
  | none => .fail
  | some nc =>
    let blk := nc.inputs.filter cfg.blocking
    let nblk := nc.inputs.filter (fun c => !cfg.blocking c)
    .take (.node n .sched) 1 fun hs =>
    .take (.node n .endPrev) 1 fun he =>
    takeHeads (blk.map fun c => QId.conn c .tsMax) fun hm =>
      match hs, he with
      | [.tickTs tick tsSched], [.time tsEndPrev] =>
        let ms := timesOf hm
        let tsMax : T := match ms with | [] => zeroT | m :: r => r.foldl max m
        let onlyBlk := only_blocking nc.advance (nc.inputs.all cfg.blocking)
        let pIn := phase_inputs tsMax tsSched
        let pLast := phase_last tsEndPrev tsSched
        let pSched := p.phaseSched
        let ph := phase onlyBlk pIn pLast pSched
        let newSched := if sched_is_frequency nc.scheduling then phase_scheduled_freq p.phaseSched pLast pSched
                        else phase_scheduled_phase
        let tsStart := ts_start tsSched ph
        let delay := nc.compDelay p.sampleIdx
        let tsOut := ts_output tsStart delay
        let hdr : StepHdr T := ⟨tsSched, tsMax, tsEndPrev, ph, pSched, pIn, pLast⟩
        .done ({ p with phaseSched := newSched, sampleIdx := p.sampleIdx + 1 },
          popsOf ([(.node n .sched, 1), (.node n .endPrev, 1)] ++ blk.map fun c => (QId.conn c .tsMax, 1)),
          appsOf ([(.node n .start, [Val.start tick tsStart delay hdr]), (.node n .endPrev, [Val.time tsOut])]
            ++ (nc.outputs.map fun c => (QId.conn c .inTs, [Val.tickTs tick tsOut]))
            ++ (nblk.map fun c => (QId.conn c .nextStep, [Val.tickTs tick tsStart]))))
      | _, _ => .fail

def groupsOf : List (Val T) → List (List (Item T))
  | [] => []
  | .grp g :: r => g :: groupsOf r
  | _ :: r => groupsOf r

def pushGroups (ws : List (List (Item T))) (gs : List (List (Item T))) : List (List (Item T)) :=
  List.zipWith (fun w g => g.foldl pushItem w) ws gs

/-- the effect of a finished step: record row, messages to the consumers, a new token -/
def finishStep (cfg : Cfg T) (n : Nat) (nc : NodeCfg T) (p : Priv T) (tick : Int) (tsStart delay : T) (hdr : StepHdr T)
    (sin : StepIn T) (out : Option StepOut) : Ans T :=
  let tsEnd := ts_end_sc tsStart delay
  let r : StepRec T := { seq := tick, tsStart := tsStart, tsEnd := tsEnd, delay := delay, hdr := hdr, call := sin.call,
                         stateBefore := sin.state, windows := sin.windows, output := out.map (·.output) }
  match out with
  | some o =>
    ({ p with state := o.state, calls := p.calls + 1, pending := none },
      popsOf [], appsOf ([(.node n .record, [Val.stepRec r]), (.node n .tokens, [Val.tok])]
        ++ nc.outputs.map fun c => (QId.conn c .inMsg, [Val.msg tick tsEnd o.output])))
  | none => ({ p with pending := none }, popsOf [], appsOf [(.node n .record, [Val.stepRec r])])

/-- `push_step` (for the supervisor: publish the observation, then wait for the action) -/
def progStep (cfg : Cfg T) (n : Nat) (p : Priv T) : P T :=
  match cfg.node n with
  | none => .fail
  | some nc =>
    match p.pending with
    | some (tick, tsStart, delay, hdr, sin) =>
      .take (.node n .act) 1 fun ha =>
        match ha with
        | [.act o] =>
          let a := finishStep cfg n nc p tick tsStart delay hdr sin (some o)
          .done (a.1, popsOf [(.node n .act, 1)], a.2.2)
        | _ => .fail
    | none =>
      .take (.node n .start) 1 fun hs =>
      takeHeads (nc.inputs.map fun c => QId.conn c .grouped) fun hg =>
        match hs with
        | [.start tick tsStart delay hdr] =>
          let ws := pushGroups p.windows (groupsOf hg)
          let sin : StepIn T := { node := n, call := p.calls, seq := tick, ts := tsStart, state := p.state, windows := ws }
          let pops := popsOf ((.node n .start, 1) :: nc.inputs.map fun c => (QId.conn c .grouped, 1))
          if n = cfg.sup then
            .done ({ p with windows := ws, pending := some (tick, tsStart, delay, hdr, sin) }, pops,
                   appsOf [(.node n .obs, [Val.obs sin])])
          else
            let a := finishStep cfg n nc { p with windows := ws } tick tsStart delay hdr sin (some (cfg.f sin))
            .done (a.1, pops, a.2.2)
        | _ => .fail

/-- the user thread: `run()` / `step()` answer an observation with the supervisor's own step result -/
def progUser (cfg : Cfg T) (p : Priv T) : P T :=
  if p.tick < cfg.userSteps then
    .take (.node cfg.sup .obs) 1 fun ho =>
      match ho with
      | [.obs sin] => .done ({ p with tick := p.tick + 1 }, popsOf [(.node cfg.sup .obs, 1)],
                             appsOf [(.node cfg.sup .act, [Val.act (cfg.f sin)])])
      | _ => .fail
  else .fail

/-- `push_ts_input` (simulated clock) -/
def progTsIn (cfg : Cfg T) (c : Nat) (p : Priv T) : P T :=
  match cfg.conn c with
  | none => .fail
  | some cc =>
    .take (.conn c .inTs) 1 fun h =>
      match h with
      | [.tickTs seq sent] =>
        let delay := cc.commDelay p.sampleIdx
        let recv := recv_sc TimeLike.rnd sent delay p.prevRecv
        let dsc := delay_sc recv sent
        .done ({ p with prevRecv := recv, sampleIdx := p.sampleIdx + 1 }, popsOf [(.conn c .inTs, 1)],
               appsOf [(.conn c .zipDelay, [Val.time dsc]), (.conn c .tsInput, [Val.tickTs seq recv])])
      | _ => .fail

/-- `push_input` -/
def progInp (c : Nat) (p : Priv T) : P T :=
  .take (.conn c .inMsg) 1 fun h => .done (p, popsOf [(.conn c .inMsg, 1)], appsOf [(.conn c .zipMsgs, h)])

/-- `push_zip` -/
def progZip (c : Nat) (p : Priv T) : P T :=
  .take (.conn c .zipMsgs) 1 fun hm =>
  .take (.conn c .zipDelay) 1 fun hd =>
    match hm, hd with
    | [.msg seq sent data], [.time d] =>
      let recv := zip_recv_sc TimeLike.rnd sent d
      .done (p, popsOf [(.conn c .zipMsgs, 1), (.conn c .zipDelay, 1)], appsOf [(.conn c .msgs, [Val.rmsg seq sent recv d data])])
    | _, _ => .fail

def isFuture (tsStep : T) : Val T → Bool
  | .tickTs _ ts => nb_has_future ts tsStep
  | _ => false

/-- the counting loops of `push_expected_nonblocking`, run over the needed prefix -/
def nbCount (cc : ConnCfg T) (tsStep : T) (pre : List (Val T)) : Nat :=
  (pre.takeWhile fun v =>
    match v with
    | .tickTs seq ts =>
      if cc.jitter == 1 then
        !(nb_buffer_break_expected (nb_buffer_expected seq cc.rateOut cc.phase) tsStep) && !(nb_buffer_break_recv cc.skip ts tsStep)
      else !(nb_latest_break cc.skip ts tsStep)
    | _ => false).length

/-- `push_expected_nonblocking` -/
def progExpNb (cfg : Cfg T) (c : Nat) (p : Priv T) : P T :=
  match cfg.conn c with
  | none => .fail
  | some cc =>
    .take (.conn c .nextStep) 1 fun h =>
      match h with
      | [.tickTs _ tsStep] =>
        .upto (.conn c .tsInput) (isFuture tsStep) fun pre =>
          let n := nbCount cc tsStep pre
          .done (p, popsOf [(.conn c .nextStep, 1), (.conn c .tsInput, n)], appsOf [(.conn c .expSel, [Val.sel tsStep n])])
      | _ => .fail

/-- the `while` loop of `push_expected_blocking` -/
def blLoop (cc : ConnCfg T) (nNode : Int) (tLow tHigh phaseIn : T) : Nat → Int → T → Nat → Nat
  | 0, _, _, acc => acc
  | fuel + 1, i, t, acc =>
    if bl_while t tHigh then
      let flag : Nat :=
        if bl_after_phase t phaseIn then
          (if nNode == 0 then (if bl_first_noskip t tLow cc.skip then 1 else if bl_first_skip t tLow cc.skip then 1 else 0) else 0)
          + (if bl_in_noskip t tLow tHigh cc.skip then 1 else if bl_in_skip t tLow tHigh cc.skip then 1 else 0)
        else 0
      blLoop cc nNode tLow tHigh phaseIn fuel (i + 1) (bl_t_next TimeLike.rnd (i + 1) cc.rateIn phaseIn) (acc + flag)
    else acc

def blCount (cfg : Cfg T) (cc : ConnCfg T) (nNode : Int) : Nat :=
  let phaseNode := TimeLike.rnd cc.phaseNode
  let phaseIn := TimeLike.rnd cc.phaseIn
  let dtNode : T := (Nat.cast 1 : T) / cc.rateNode
  let dtIn : T := (Nat.cast 1 : T) / cc.rateIn
  let tHigh := bl_t_high_rnd TimeLike.rnd (bl_t_high dtNode nNode phaseNode)
  let tLow := bl_t_low_rnd TimeLike.rnd (bl_t_low dtNode nNode phaseNode)
  let i0 : Int := bl_i0 nNode tLow phaseIn dtIn
  blLoop cc nNode tLow tHigh phaseIn cfg.loopFuel i0 (bl_t TimeLike.rnd i0 cc.rateIn phaseIn) 0

/-- `push_expected_blocking` -/
def progExpBl (cfg : Cfg T) (c : Nat) (p : Priv T) : P T :=
  match cfg.conn c with
  | none => .fail
  | some cc =>
    .take (.conn c .nextStep) 1 fun h =>
      match h with
      | [.tickTs nNode schedTs] =>
        let n := blCount cfg cc nNode
        .done (p, popsOf [(.conn c .nextStep, 1)],
               appsOf [(.conn c .expTsMax, [Val.num n]), (.conn c .expSel, [Val.sel schedTs n])])
      | _ => .fail

/-- `push_ts_max` -/
def progTsMax (c : Nat) (p : Priv T) : P T :=
  .take (.conn c .expTsMax) 1 fun h =>
    match h with
    | [.num n] =>
      .take (.conn c .tsInput) n fun xs =>
        .done (p, popsOf [(.conn c .expTsMax, 1), (.conn c .tsInput, n)],
               appsOf [(.conn c .tsMax, [Val.time (ts_max_fold (timesOf xs))])])
    | _ => .fail

def itemsOf : List (Val T) → List (Item T)
  | [] => []
  | .rmsg seq s r _ d :: rest => ⟨seq, s, r, d⟩ :: itemsOf rest
  | _ :: rest => itemsOf rest

def recsOf (tick : Int) : List (Val T) → List (Val T)
  | [] => []
  | .rmsg seq s r dl _ :: rest => Val.msgRec ⟨seq, tick, s, r, dl⟩ :: recsOf tick rest
  | _ :: rest => recsOf tick rest

/-- `push_selection` -/
def progSelect (cfg : Cfg T) (c : Nat) (p : Priv T) : P T :=
  match cfg.conn c with
  | none => .fail
  | some cc =>
    .take (.conn c .expSel) 1 fun h =>
      match h with
      | [.sel _ n] =>
        .take (.conn c .msgs) n fun ms =>
          let tick : Int := p.tick
          .done ({ p with tick := p.tick + 1 }, popsOf [(.conn c .expSel, 1), (.conn c .msgs, n)],
                 appsOf [(.conn c .record, recsOf tick ms), (.conn c .grouped, [Val.grp (sel_window (itemsOf ms) cc.window)])])
      | _ => .fail

def progOf (cfg : Cfg T) : Rule → Priv T → P T
  | .sched n, p => progSched cfg n p
  | .shift n, p => progShift cfg n p
  | .step n, p => progStep cfg n p
  | .user, p => progUser cfg p
  | .tsIn c, p => progTsIn cfg c p
  | .inp c, p => progInp c p
  | .zip c, p => progZip c p
  | .expNb c, p => if cfg.blocking c then .fail else progExpNb cfg c p
  | .expBl c, p => if cfg.blocking c then progExpBl cfg c p else .fail
  | .tsMax c, p => if cfg.blocking c then progTsMax c p else .fail
  | .select c, p => progSelect cfg c p

/-- The asynchronous runtime (simulated clock) as a network of reader programs. -/
def machine (cfg : Cfg T) : PNet QId Rule (Val T) (Priv T) :=
  { prod := prodOf cfg, cons := consOf cfg, prog := progOf cfg }

abbrev MSt (T : Type) := St QId Rule (Val T) (Priv T)

/-- state after `_reset` + `_start` of every node -/
def initState (cfg : Cfg T) : MSt T :=
  { q := fun q => match q with
      | .node _ .tokens => List.replicate cfg.numTokens Val.tok
      | .node _ .endPrev => [Val.time zeroT]
      | _ => []
    priv := fun r => match r with
      | .step n => match cfg.node n with
          | some nc => { phaseSched := zeroT, prevRecv := zeroT, state := nc.initState,
                         windows := nc.inputs.map fun c => match cfg.conn c with | some cc => initWindow cc | none => [] }
          | none => { phaseSched := zeroT, prevRecv := zeroT }
      | _ => { phaseSched := zeroT, prevRecv := zeroT } }

def allRules (cfg : Cfg T) : List Rule :=
  (List.range cfg.nodes.length).flatMap (fun n => [Rule.sched n, .shift n, .step n]) ++ [Rule.user] ++
  (List.range cfg.conns.length).flatMap (fun c => [Rule.tsIn c, .inp c, .zip c, .expNb c, .expBl c, .tsMax c, .select c])

def enabled (cfg : Cfg T) (s : MSt T) (r : Rule) : Bool :=
  ((machine cfg).toNet.step r (s.priv r) ((machine cfg).toNet.view r s)).isSome

/-- run under a scheduling policy `pick` (chooses among the enabled rules) until quiescence or out of fuel;
returns the final state and the fired rule sequence (newest first) -/
def runPolicy (cfg : Cfg T) (pick : Nat → List Rule → Option Rule) : Nat → MSt T → List Rule → MSt T × List Rule
  | 0, s, tr => (s, tr)
  | fuel + 1, s, tr =>
    match pick fuel ((allRules cfg).filter (enabled cfg s)) with
    | none => (s, tr)
    | some r => runPolicy cfg pick fuel ((machine cfg).toNet.fire r s) (r :: tr)

end Rex.Async
