import RexModel.Async.Pipeline

/-! Machine-level sequence numbering of a node (C03 "gap-free sequence numbers from 0", C06 "with that tick's sequence
number"): under every schedule, the ticks a node has recorded, the tick it is waiting on (supervisor), the ticks whose
start time is computed and the ticks that are scheduled, read in this order, are exactly 0, 1, 2, … Core Lean only. -/

namespace Rex.Async

open Rex.Net Rex.Conf

variable {T : Type} [TimeLike T]

def recTicks : List (Val T) → List Int
  | [] => []
  | .stepRec r :: l => r.seq :: recTicks l
  | _ :: l => recTicks l

def startTicks : List (Val T) → List Int
  | [] => []
  | .start k _ _ _ :: l => k :: startTicks l
  | _ :: l => startTicks l

def schedTicks : List (Val T) → List Int
  | [] => []
  | .tickTs k _ :: l => k :: schedTicks l
  | _ :: l => schedTicks l

theorem recTicks_append (a b : List (Val T)) : recTicks (a ++ b) = recTicks a ++ recTicks b := by
  induction a with
  | nil => rfl
  | cons x a ih => cases x <;> simp [recTicks, ih]

theorem startTicks_append (a b : List (Val T)) : startTicks (a ++ b) = startTicks a ++ startTicks b := by
  induction a with
  | nil => rfl
  | cons x a ih => cases x <;> simp [startTicks, ih]

theorem schedTicks_append (a b : List (Val T)) : schedTicks (a ++ b) = schedTicks a ++ schedTicks b := by
  induction a with
  | nil => rfl
  | cons x a ih => cases x <;> simp [schedTicks, ih]

def pendingTick (p : Priv T) : List Int := match p.pending with | some x => [x.1] | none => []

/-- all ticks of node `n` in pipeline order -/
def tickLine (n : Nat) (s : MSt T) : List Int :=
  recTicks (s.q (.node n .record)) ++ pendingTick (s.priv (.step n)) ++ startTicks (s.q (.node n .start)) ++ schedTicks (s.q (.node n .sched))

/-- 0, 1, …, k-1 -/
def upTo (k : Nat) : List Int := (List.range k).map fun (i : Nat) => (i : Int)

theorem upTo_succ (k : Nat) : upTo (k + 1) = upTo k ++ [(k : Int)] := by
  simp [upTo, List.range_succ]

/-- the head of a list whose first element has been `take`n -/
theorem take_one_eq {β : Type} (l : List β) (x : β) (h : l.take 1 = [x]) : l = x :: l.drop 1 := by
  cases l with
  | nil => simp at h
  | cons a l => simp at h; simp [h]

-- ---------------------------------------------------------------------------------------------------------------
-- effects of the three node rules on the node's own queues

theorem appsOf_cons_ne (q q' : QId) (x : List (Val T)) (l : List (QId × List (Val T))) (h : (q' == q) = false) :
    appsOf ((q', x) :: l) q = appsOf l q := by
  simp [appsOf, List.filter_cons, h]

theorem appsOf_cons_eq (q : QId) (x : List (Val T)) (l : List (QId × List (Val T))) (h : appsOf l q = []) :
    appsOf ((q, x) :: l) q = x := by
  unfold appsOf at *
  simp only [List.filter_cons, beq_self_eq_true, if_true, List.foldl_cons, List.nil_append]
  -- foldl (++) x rest = x ++ foldl (++) [] rest
  have key : ∀ (l : List (QId × List (Val T))) (a : List (Val T)),
      List.foldl (fun a x => a ++ x.2) a l = a ++ List.foldl (fun a x => a ++ x.2) [] l := by
    intro l
    induction l with
    | nil => intro a; simp
    | cons y l ih => intro a; simp only [List.foldl_cons, List.nil_append]; rw [ih (a ++ y.2), ih y.2]; simp
  rw [key, h]; simp

theorem appsOf_map_conn (q : QId) (hq : ∀ c k, q ≠ QId.conn c k) (cs : List Nat) (f : Nat → QId × List (Val T))
    (hf : ∀ c, ∃ k, (f c).1 = QId.conn c k) : appsOf (cs.map f) q = [] := by
  unfold appsOf
  have : (cs.map f).filter (fun x => x.1 == q) = [] := by
    apply List.filter_eq_nil_iff.mpr
    intro x hx
    obtain ⟨c, _, rfl⟩ := List.mem_map.mp hx
    obtain ⟨k, hk⟩ := hf c
    rw [hk]
    simp only [beq_iff_eq]
    exact fun e => hq c k e.symm
  rw [this]; rfl

theorem popsOf_cons (q q' : QId) (k : Nat) (l : List (QId × Nat)) :
    popsOf ((q', k) :: l) q = (if q' == q then k else 0) + popsOf l q := by
  unfold popsOf
  have key : ∀ (l : List (QId × Nat)) (a : Nat), List.foldl (fun a x => a + x.2) a l = a + List.foldl (fun a x => a + x.2) 0 l := by
    intro l
    induction l with
    | nil => intro a; simp
    | cons y l ih => intro a; simp only [List.foldl_cons, Nat.zero_add]; rw [ih (a + y.2), ih y.2]; omega
  by_cases h : (q' == q) = true
  · simp only [List.filter_cons, h, if_true, List.foldl_cons, Nat.zero_add]
    rw [key]
  · simp only [Bool.not_eq_true] at h
    simp [List.filter_cons, h]

theorem popsOf_nil (q : QId) : popsOf [] q = 0 := rfl

theorem popsOf_map_conn (q : QId) (hq : ∀ c k, q ≠ QId.conn c k) (cs : List Nat) (f : Nat → QId × Nat)
    (hf : ∀ c, ∃ k, (f c).1 = QId.conn c k) : popsOf (cs.map f) q = 0 := by
  unfold popsOf
  have : (cs.map f).filter (fun x => x.1 == q) = [] := by
    apply List.filter_eq_nil_iff.mpr
    intro x hx
    obtain ⟨c, _, rfl⟩ := List.mem_map.mp hx
    obtain ⟨k, hk⟩ := hf c
    rw [hk]
    simp only [beq_iff_eq]
    exact fun e => hq c k e.symm
  rw [this]; rfl

theorem popsOf_append (q : QId) (a b : List (QId × Nat)) : popsOf (a ++ b) q = popsOf a q + popsOf b q := by
  induction a with
  | nil => simp [popsOf_nil]
  | cons x a ih => obtain ⟨q', k⟩ := x; simp only [List.cons_append, popsOf_cons, ih]; omega

theorem appsOf_nil (q : QId) : appsOf ([] : List (QId × List (Val T))) q = [] := rfl

theorem appsOf_append_nil (q : QId) (a b : List (QId × List (Val T))) (hb : appsOf b q = []) : appsOf (a ++ b) q = appsOf a q := by
  unfold appsOf at *
  rw [List.filter_append, List.foldl_append]
  have key : ∀ (l : List (QId × List (Val T))) (x : List (Val T)),
      List.foldl (fun a x => a ++ x.2) x l = x ++ List.foldl (fun a x => a ++ x.2) [] l := by
    intro l
    induction l with
    | nil => intro a; simp
    | cons y l ih => intro a; simp only [List.foldl_cons, List.nil_append]; rw [ih (a ++ y.2), ih y.2]; simp
  rw [key, hb]; simp

/-- effect of `push_scheduled_ts`: consumes one token, appends the next tick to the node's schedule queue -/
theorem progSched_effect (cfg : Cfg T) (n : Nat) (p : Priv T) (v : QId → List (Val T)) (ans : Ans T) (ext' : QId → Nat)
    (h : (progSched cfg n p).run v (fun _ => 0) = some (ans, ext')) :
    ans.1.tick = p.tick + 1 ∧ schedTicks (ans.2.2 (.node n .sched)) = [(p.tick : Int)] := by
  unfold progSched at h
  cases hnode : cfg.node n with
  | none => simp [hnode, Prog.run] at h
  | some nc =>
    simp only [hnode, Prog.run] at h
    split at h
    · simp only [Prog.run, Option.some.injEq, Prod.mk.injEq] at h
      obtain ⟨rfl, _⟩ := h
      refine ⟨rfl, ?_⟩
      dsimp only
      rw [appsOf_cons_eq]
      · simp [schedTicks]
      · exact appsOf_map_conn _ (by intro c k; simp) _ _ (fun c => ⟨.nextStep, rfl⟩)
    · cases h

/-- successful runs of `takeHeads` end in a successful run of the continuation, from a larger extent -/
theorem takeHeads_run' (qs : List QId) (k : List (Val T) → P T) (v : QId → List (Val T)) (ext : QId → Nat)
    (r : Ans T × (QId → Nat)) (h : (takeHeads qs k).run v ext = some r) :
    ∃ hs ext', (k hs).run v ext' = some r ∧ ∀ q, ext q ≤ ext' q := by
  induction qs generalizing k ext with
  | nil => exact ⟨[], ext, h, fun _ => Nat.le_refl _⟩
  | cons q qs ih =>
    simp only [takeHeads] at h
    obtain ⟨_, h'⟩ := Prog.run_take h
    obtain ⟨hs, ext', h'', hle⟩ := ih _ _ h'
    exact ⟨_, ext', h'', fun q' => Nat.le_trans (le_bump ext q 1 q') (hle q')⟩

/-- effect of `push_phase_shift`: moves the head tick of the schedule queue to the end of the start queue -/
theorem progShift_effect (cfg : Cfg T) (n : Nat) (p : Priv T) (v : QId → List (Val T)) (ans : Ans T) (ext' : QId → Nat)
    (h : (progShift cfg n p).run v (fun _ => 0) = some (ans, ext')) :
    ∃ tick ts, (v (.node n .sched)).take 1 = [Val.tickTs tick ts] ∧
      min (ans.2.1 (.node n .sched)) (ext' (.node n .sched)) = 1 ∧ startTicks (ans.2.2 (.node n .start)) = [tick] := by
  unfold progShift at h
  cases hnode : cfg.node n with
  | none => simp [hnode, Prog.run] at h
  | some nc =>
    simp only [hnode] at h
    obtain ⟨_, h1⟩ := Prog.run_take h
    obtain ⟨_, h2⟩ := Prog.run_take h1
    obtain ⟨hm, e3, h3, hle3⟩ := takeHeads_run' _ _ _ _ _ h2
    have hext : 1 ≤ e3 (.node n .sched) := by
      refine Nat.le_trans ?_ (hle3 _)
      exact Nat.le_trans (bump_self (fun _ => 0) (QId.node n .sched) 1) (le_bump _ (QId.node n .endPrev) 1 (QId.node n .sched))
    split at h3
    · rename_i tick tsSched tsEndPrev heq1 heq2
      have := Prog.run_done h3
      simp only [Prod.mk.injEq] at this
      obtain ⟨rfl, rfl⟩ := this
      refine ⟨tick, tsSched, heq1, ?_, ?_⟩
      · dsimp only
        rw [popsOf_append, popsOf_cons, popsOf_cons, popsOf_nil,
            popsOf_map_conn _ (by intro c k; simp) _ _ (fun c => ⟨.tsMax, rfl⟩)]
        simp; omega
      · dsimp only
        rw [List.append_assoc, appsOf_append_nil, appsOf_cons_eq]
        · simp [startTicks]
        · rw [appsOf_cons_ne _ _ _ _ (by simp), appsOf_nil]
        · rw [appsOf_append_nil]
          · exact appsOf_map_conn _ (by intro c k; simp) _ _ (fun c => ⟨.inTs, rfl⟩)
          · exact appsOf_map_conn _ (by intro c k; simp) _ _ (fun c => ⟨.nextStep, rfl⟩)
    · simp [Prog.run] at h3

theorem finishStep_record (cfg : Cfg T) (n : Nat) (nc : NodeCfg T) (p : Priv T) (tick : Int) (a b : T) (hdr : StepHdr T)
    (sin : StepIn T) (o : StepOut) :
    recTicks ((finishStep cfg n nc p tick a b hdr sin (some o)).2.2 (.node n .record)) = [tick] ∧
    (finishStep cfg n nc p tick a b hdr sin (some o)).1.pending = none := by
  refine ⟨?_, by simp [finishStep]⟩
  simp only [finishStep]
  rw [appsOf_append_nil, appsOf_cons_eq]
  · simp [recTicks]
  · rw [appsOf_cons_ne _ _ _ _ (by simp), appsOf_nil]
  · exact appsOf_map_conn _ (by intro c k; simp) _ _ (fun c => ⟨.inMsg, rfl⟩)

/-- effect of `push_step` on the node's ticks -/
theorem progStep_ticks (cfg : Cfg T) (n : Nat) (p : Priv T) (v : QId → List (Val T)) (ans : Ans T) (ext' : QId → Nat)
    (h : (progStep cfg n p).run v (fun _ => 0) = some (ans, ext')) :
    (p.pending = none ∧ ∃ tick a b c, (v (.node n .start)).take 1 = [Val.start tick a b c] ∧
        min (ans.2.1 (.node n .start)) (ext' (.node n .start)) = 1 ∧
        recTicks (ans.2.2 (.node n .record)) ++ pendingTick ans.1 = [tick]) ∨
    (∃ x, p.pending = some x ∧ min (ans.2.1 (.node n .start)) (ext' (.node n .start)) = 0 ∧
        recTicks (ans.2.2 (.node n .record)) = [x.1] ∧ pendingTick ans.1 = []) := by
  unfold progStep at h
  cases hnode : cfg.node n with
  | none => simp [hnode, Prog.run] at h
  | some nc =>
    simp only [hnode] at h
    cases hp : p.pending with
    | some x =>
      right
      obtain ⟨tick, tsStart, delay, hdr, sin⟩ := x
      simp only [hp] at h
      obtain ⟨_, h1⟩ := Prog.run_take h
      split at h1
      · rename_i o heq
        have := Prog.run_done h1
        simp only [Prod.mk.injEq] at this
        obtain ⟨rfl, rfl⟩ := this
        refine ⟨_, rfl, ?_, ?_, ?_⟩
        · dsimp only
          rw [popsOf_cons, popsOf_nil]; simp
        · exact (finishStep_record cfg n nc p tick tsStart delay hdr sin o).1
        · simp only [pendingTick, (finishStep_record cfg n nc p tick tsStart delay hdr sin o).2]
      · simp [Prog.run] at h1
    | none =>
      left
      refine ⟨rfl, ?_⟩
      simp only [hp] at h
      obtain ⟨_, h1⟩ := Prog.run_take h
      obtain ⟨hg, e2, h2, hle2⟩ := takeHeads_run' _ _ _ _ _ h1
      have hext : 1 ≤ e2 (.node n .start) := Nat.le_trans (bump_self (fun _ => 0) (QId.node n .start) 1) (hle2 _)
      split at h2
      · rename_i tick tsStart delay hdr heq
        refine ⟨tick, tsStart, delay, hdr, heq, ?_⟩
        by_cases hs : n = cfg.sup
        · subst hs
          simp only [if_true] at h2
          have := Prog.run_done h2
          simp only [Prod.mk.injEq] at this
          obtain ⟨rfl, rfl⟩ := this
          refine ⟨?_, ?_⟩
          · dsimp only
            rw [popsOf_cons, popsOf_map_conn _ (by intro c k; simp) _ _ (fun c => ⟨.grouped, rfl⟩)]
            simp; omega
          · dsimp only
            rw [appsOf_cons_ne _ _ _ _ (by simp), appsOf_nil]
            simp [recTicks, pendingTick]
        · simp only [hs, if_false] at h2
          have := Prog.run_done h2
          simp only [Prod.mk.injEq] at this
          obtain ⟨rfl, rfl⟩ := this
          refine ⟨?_, ?_⟩
          · dsimp only
            rw [popsOf_cons, popsOf_map_conn _ (by intro c k; simp) _ _ (fun c => ⟨.grouped, rfl⟩)]
            simp; omega
          · dsimp only
            rw [(finishStep_record cfg n nc _ tick tsStart delay hdr _ _).1]
            simp only [pendingTick]
            rw [(finishStep_record cfg n nc _ tick tsStart delay hdr _ _).2]
            rfl
      · simp [Prog.run] at h2

/-- **Sequence numbering invariant**: the ticks of node `n` in pipeline order are `0, 1, …, tick-1`. -/
def TickInv (s : MSt T) : Prop := ∀ n, tickLine n s = upTo (s.priv (.sched n)).tick

theorem tickInv_init (cfg : Cfg T) : TickInv (initState cfg) := by
  intro n
  simp only [tickLine, initState, pendingTick]
  cases cfg.node n <;> simp [recTicks, startTicks, schedTicks, upTo]

theorem fire_q_eq (cfg : Cfg T) (r : Rule) (s : MSt T) (q : QId) (res : Priv T × (QId → Nat) × (QId → List (Val T)))
    (hs : (machine cfg).toNet.step r (s.priv r) ((machine cfg).toNet.view r s) = some res) :
    ((machine cfg).toNet.fire r s).q q =
      (s.q q).drop (if (machine cfg).toNet.cons q = some r then res.2.1 q else 0) ++ (if (machine cfg).toNet.prod q = r then res.2.2 q else []) := by
  unfold Net.fire; rw [hs]; rfl

theorem fire_priv_eq (cfg : Cfg T) (r : Rule) (s : MSt T) (res : Priv T × (QId → Nat) × (QId → List (Val T)))
    (hs : (machine cfg).toNet.step r (s.priv r) ((machine cfg).toNet.view r s) = some res) :
    ((machine cfg).toNet.fire r s).priv r = res.1 := by
  unfold Net.fire; rw [hs]; simp [Net.apply]

theorem fire_none (cfg : Cfg T) (r : Rule) (s : MSt T)
    (hs : (machine cfg).toNet.step r (s.priv r) ((machine cfg).toNet.view r s) = none) : (machine cfg).toNet.fire r s = s := by
  unfold Net.fire; rw [hs]

theorem tickInv_fire (cfg : Cfg T) (r : Rule) (s : MSt T) (hi : TickInv s) : TickInv ((machine cfg).toNet.fire r s) := by
  intro n
  have hn := hi n
  -- ownership facts of the three node queues
  have cR : (machine cfg).toNet.cons (.node n .record) = none := rfl
  have pR : (machine cfg).toNet.prod (.node n .record) = .step n := rfl
  have cS : (machine cfg).toNet.cons (.node n .start) = some (.step n) := rfl
  have pS : (machine cfg).toNet.prod (.node n .start) = .shift n := rfl
  have cC : (machine cfg).toNet.cons (.node n .sched) = some (.shift n) := rfl
  have pC : (machine cfg).toNet.prod (.node n .sched) = .sched n := rfl
  cases hs : (machine cfg).toNet.step r (s.priv r) ((machine cfg).toNet.view r s) with
  | none => rw [fire_none cfg r s hs]; exact hn
  | some res =>
    obtain ⟨ans, ext', hrun, hres⟩ := toNet_step_some (machine cfg) r _ _ res hs
    by_cases h1 : r = .sched n
    · subst h1
      have hrun' : (progSched cfg n (s.priv (.sched n))).run ((machine cfg).toNet.view (.sched n) s) (fun _ => 0) = some (ans, ext') := hrun
      obtain ⟨ht, hq⟩ := progSched_effect cfg n _ _ ans ext' hrun'
      unfold tickLine
      rw [fire_q_eq cfg _ s _ res hs, fire_q_eq cfg _ s _ res hs, fire_q_eq cfg _ s _ res hs, fire_priv_eq cfg _ s res hs,
          fire_priv_other (machine cfg).toNet (.sched n) (.step n) s (by simp)]
      subst hres
      simp only [cR, pR, cS, pS, cC, pC, reduceCtorEq, if_false, if_true, List.drop_zero, List.append_nil, Option.some.injEq, Rule.sched.injEq, Rule.shift.injEq, Rule.step.injEq]
      rw [schedTicks_append, hq, ht, upTo_succ, ← hn]
      simp [tickLine, List.append_assoc]
    · by_cases h2 : r = .shift n
      · subst h2
        have hrun' : (progShift cfg n (s.priv (.shift n))).run ((machine cfg).toNet.view (.shift n) s) (fun _ => 0) = some (ans, ext') := hrun
        obtain ⟨tick, ts, hhead, hpop, hq⟩ := progShift_effect cfg n _ _ ans ext' hrun'
        have hview : (machine cfg).toNet.view (.shift n) s (.node n .sched) = s.q (.node n .sched) := by simp [Net.view, cC]
        rw [hview] at hhead
        have hsplit := take_one_eq _ _ hhead
        unfold tickLine
        rw [fire_q_eq cfg _ s _ res hs, fire_q_eq cfg _ s _ res hs, fire_q_eq cfg _ s _ res hs,
            fire_priv_other (machine cfg).toNet (.shift n) (.step n) s (by simp), fire_priv_other (machine cfg).toNet (.shift n) (.sched n) s (by simp)]
        subst hres
        simp only [cR, pR, cS, pS, cC, pC, reduceCtorEq, if_false, if_true, List.drop_zero, List.append_nil, Option.some.injEq, Rule.sched.injEq, Rule.shift.injEq, Rule.step.injEq, hpop]
        have e : schedTicks (s.q (.node n .sched)) = tick :: schedTicks ((s.q (.node n .sched)).drop 1) := by
          have := congrArg schedTicks hsplit
          simpa [schedTicks] using this
        rw [startTicks_append, hq, ← hn]
        unfold tickLine
        rw [e]
        simp [List.append_assoc]
      · by_cases h3 : r = .step n
        · subst h3
          have hrun' : (progStep cfg n (s.priv (.step n))).run ((machine cfg).toNet.view (.step n) s) (fun _ => 0) = some (ans, ext') := hrun
          have hview : (machine cfg).toNet.view (.step n) s (.node n .start) = s.q (.node n .start) := by simp [Net.view, cS]
          unfold tickLine
          rw [fire_q_eq cfg _ s _ res hs, fire_q_eq cfg _ s _ res hs, fire_q_eq cfg _ s _ res hs, fire_priv_eq cfg _ s res hs,
              fire_priv_other (machine cfg).toNet (.step n) (.sched n) s (by simp)]
          subst hres
          simp only [cR, pR, cS, pS, cC, pC, reduceCtorEq, if_false, if_true, List.drop_zero, List.append_nil, Option.some.injEq, Rule.sched.injEq, Rule.shift.injEq, Rule.step.injEq]
          rw [← hn]
          unfold tickLine
          rcases progStep_ticks cfg n _ _ ans ext' hrun' with ⟨hp, tick, a, b, c, hhead, hpop, hq⟩ | ⟨x, hp, hpop, hq, hpend⟩
          · rw [hview] at hhead
            have hsplit := take_one_eq _ _ hhead
            have e : startTicks (s.q (.node n .start)) = tick :: startTicks ((s.q (.node n .start)).drop 1) := by
              have := congrArg startTicks hsplit
              simpa [startTicks] using this
            rw [hpop, recTicks_append, e]
            have hp0 : pendingTick (s.priv (.step n)) = [] := by simp [pendingTick, hp]
            rw [hp0]
            simp only [List.append_nil, List.append_assoc]
            rw [← List.append_assoc (recTicks (ans.2.2 (.node n .record))), hq]
            simp
          · rw [hpop, recTicks_append, hq, hpend]
            simp [pendingTick, hp, List.append_assoc]
        · -- any other rule touches neither the three queues nor the two private states
          unfold tickLine
          rw [fire_q_other (machine cfg).toNet r s (.node n .record) (by rw [pR]; exact Ne.symm h3) (by rw [cR]; simp),
              fire_q_other (machine cfg).toNet r s (.node n .start) (by rw [pS]; exact Ne.symm h2) (by rw [cS]; intro h; exact h3 (Option.some.inj h).symm),
              fire_q_other (machine cfg).toNet r s (.node n .sched) (by rw [pC]; exact Ne.symm h1) (by rw [cC]; intro h; exact h2 (Option.some.inj h).symm),
              fire_priv_other (machine cfg).toNet r (.step n) s (Ne.symm h3), fire_priv_other (machine cfg).toNet r (.sched n) s (Ne.symm h1)]
          exact hn

theorem tickInv_run (cfg : Cfg T) {s : MSt T} {σ : List Rule} {s' : MSt T}
    (h : Run (machine cfg).toNet.sys s σ s') (hi : TickInv s) : TickInv s' := by
  induction h with
  | nil _ => exact hi
  | cons _ _ ih => exact ih (tickInv_fire cfg _ _ hi)

end Rex.Async
