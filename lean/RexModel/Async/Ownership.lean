import RexModel.Async.Machine
import RexModel.Gen.Ownership

/-! The queue discipline of the source is the ownership table of the machine (C02). Core Lean only.

The machine's confluence rests on every queue having one producer (who only appends) and one consumer (the only one who pops or
looks at it). `Rex.Gen.Ownership` lists, regenerated from the source, every operation of every handler on a deque attribute. This
file maps handler names to rule kinds and queue names to the machine's queues and states the discipline; `Props/C02.lean` proves it
for the regenerated list by evaluation. -/

namespace Rex.Async

inductive RTag | sched | shift | step | user | tsIn | inp | zip | expNb | expBl | tsMax | select
deriving DecidableEq, Repr

def Rule.tag : Rule → RTag
  | .sched _ => .sched | .shift _ => .shift | .step _ => .step | .user => .user | .tsIn _ => .tsIn | .inp _ => .inp | .zip _ => .zip
  | .expNb _ => .expNb | .expBl _ => .expBl | .tsMax _ => .tsMax | .select _ => .select

/-- the handler of the source that a rule of the machine models -/
def tagOfHandler : String → Option RTag
  | "push_scheduled_ts" => some .sched
  | "push_phase_shift" => some .shift
  | "push_step" => some .step
  | "push_ts_input" => some .tsIn
  | "push_input" => some .inp
  | "push_zip" => some .zip
  | "push_expected_nonblocking" => some .expNb
  | "push_expected_blocking" => some .expBl
  | "push_ts_max" => some .tsMax
  | "push_selection" => some .select
  | _ => none

/-- the deque of the source that a queue of the machine models (`inTs` / `inMsg` are task arguments, the records are lists) -/
def queueOfName : String → Option (Qn ⊕ Qc)
  | "q_tick" => some (.inl .tokens)
  | "q_ts_scheduled" => some (.inl .sched)
  | "q_ts_end_prev" => some (.inl .endPrev)
  | "q_ts_start" => some (.inl .start)
  | "q_ts_input" => some (.inr .tsInput)
  | "q_ts_next_step" => some (.inr .nextStep)
  | "q_expected_ts_max" => some (.inr .expTsMax)
  | "q_ts_max" => some (.inr .tsMax)
  | "q_expected_select" => some (.inr .expSel)
  | "q_zip_delay" => some (.inr .zipDelay)
  | "q_zip_msgs" => some (.inr .zipMsgs)
  | "q_msgs" => some (.inr .msgs)
  | "q_grouped" => some (.inr .grouped)
  | _ => none

/-- who may append to a queue: the machine's producer (both choices where it depends on `blocking`) -/
def prodTags : Qn ⊕ Qc → List RTag
  | .inl .tokens => [.step]
  | .inl .sched => [.sched]
  | .inl .endPrev => [.shift, .step]      -- `push_step` queues the previous end time on the wall clock (the machine models the simulated clock)
  | .inl .start => [.shift]
  | .inl .record => [.step]
  | .inl .obs => [.step]
  | .inl .act => [.user]
  | .inr .inTs => [.shift]
  | .inr .inMsg => [.step]
  | .inr .tsInput => [.tsIn]
  | .inr .nextStep => [.sched, .shift]
  | .inr .expTsMax => [.expBl]
  | .inr .tsMax => [.tsMax]
  | .inr .expSel => [.expBl, .expNb]
  | .inr .zipDelay => [.tsIn]
  | .inr .zipMsgs => [.inp]
  | .inr .msgs => [.zip]
  | .inr .grouped => [.select]
  | .inr .record => [.select]

/-- who may pop from / look at a queue: the machine's consumer -/
def consTags : Qn ⊕ Qc → List RTag
  | .inl .tokens => [.sched]
  | .inl .sched => [.shift]
  | .inl .endPrev => [.shift]
  | .inl .start => [.step]
  | .inl .record => []
  | .inl .obs => [.user]
  | .inl .act => [.step]
  | .inr .inTs => [.tsIn]
  | .inr .inMsg => [.inp]
  | .inr .tsInput => [.tsMax, .expNb]
  | .inr .nextStep => [.expBl, .expNb]
  | .inr .expTsMax => [.tsMax]
  | .inr .tsMax => [.shift]
  | .inr .expSel => [.select]
  | .inr .zipDelay => [.zip]
  | .inr .zipMsgs => [.zip]
  | .inr .msgs => [.select]
  | .inr .grouped => [.step]
  | .inr .record => []

variable {T : Type} [TimeLike T]

/-- the tables above are the machine's: its producer of a queue is among `prodTags` … -/
theorem prodOf_tag_node (cfg : Cfg T) (n : Nat) (k : Qn) : (prodOf cfg (.node n k)).tag ∈ prodTags (.inl k) := by
  cases k <;> simp [prodOf, prodTags, Rule.tag]

theorem prodOf_tag_conn (cfg : Cfg T) (c : Nat) (k : Qc) : (prodOf cfg (.conn c k)).tag ∈ prodTags (.inr k) := by
  cases k <;> simp only [prodOf, prodTags] <;> (try simp [Rule.tag]) <;>
    (by_cases hb : cfg.blocking c = true <;> simp [hb, Rule.tag])

/-- … and its consumer (if any) among `consTags` -/
theorem consOf_tag_node (cfg : Cfg T) (n : Nat) (k : Qn) (r : Rule) (h : consOf cfg (.node n k) = some r) : r.tag ∈ consTags (.inl k) := by
  cases k <;> simp only [consOf] at h
  case obs =>
    by_cases hn : n = cfg.sup
    · simp only [hn, if_true, Option.some.injEq] at h; subst h; simp [consTags, Rule.tag]
    · simp [hn] at h
  all_goals (first | (cases h; simp [consTags, Rule.tag]) | (cases h))

theorem consOf_tag_conn (cfg : Cfg T) (c : Nat) (k : Qc) (r : Rule) (h : consOf cfg (.conn c k) = some r) : r.tag ∈ consTags (.inr k) := by
  cases k <;> simp only [consOf] at h
  case tsInput => by_cases hb : cfg.blocking c = true <;> simp [hb] at h <;> subst h <;> simp [consTags, Rule.tag]
  case nextStep => by_cases hb : cfg.blocking c = true <;> simp [hb] at h <;> subst h <;> simp [consTags, Rule.tag]
  all_goals (first | (cases h; simp [consTags, Rule.tag]) | (cases h))

/-- one operation of the source obeys the discipline: an append by a producer, a pop or a read by the consumer; `q_sample` (the
pre-sampled delays) is private to its handler -/
def opOk (op : String × String × String) : Bool :=
  if op.2.1 == "q_sample" then true else
  match tagOfHandler op.1, queueOfName op.2.1 with
  | some t, some q => if op.2.2 == "append" then (prodTags q).contains t else if op.2.2 == "pop" || op.2.2 == "read" then (consTags q).contains t else false
  | _, _ => false

end Rex.Async
