import RexModel.Async.Ticks

/-! Machine-level well-formedness of step records (C04): under every schedule, every recorded step — and every step whose
start time has been computed but which has not run yet — satisfies the kernel relations of `push_phase_shift` /
`push_step` among its own fields. Core Lean only. -/

namespace Rex.Async

open Rex.Net Rex.Conf Rex.Gen.Async

variable {T : Type} [TimeLike T]

/-- the relations `push_phase_shift` establishes between the fields it records -/
def WfHdr (cfg : Cfg T) (nc : NodeCfg T) (tsStart : T) (hdr : StepHdr T) : Prop :=
  tsStart = ts_start hdr.tsScheduled hdr.phase ∧
  hdr.phase = phase (only_blocking nc.advance (nc.inputs.all cfg.blocking)) hdr.phaseInputs hdr.phaseLast hdr.phaseScheduled ∧
  hdr.phaseInputs = phase_inputs hdr.tsMax hdr.tsScheduled ∧
  hdr.phaseLast = phase_last hdr.tsEndPrev hdr.tsScheduled

def WfVal (cfg : Cfg T) (nc : NodeCfg T) : Val T → Prop
  | .start _ tsStart _ hdr => WfHdr cfg nc tsStart hdr
  | .stepRec r => WfHdr cfg nc r.tsStart r.hdr ∧ r.tsEnd = ts_end_sc r.tsStart r.delay
  | _ => True

def WfPending (cfg : Cfg T) (nc : NodeCfg T) (p : Priv T) : Prop :=
  match p.pending with
  | some x => WfHdr cfg nc x.2.1 x.2.2.2.1
  | none => True

/-- invariant for node `n` -/
def RecInv (cfg : Cfg T) (n : Nat) (nc : NodeCfg T) (s : MSt T) : Prop :=
  (∀ x ∈ s.q (.node n .start), WfVal cfg nc x) ∧ (∀ x ∈ s.q (.node n .record), WfVal cfg nc x) ∧ WfPending cfg nc (s.priv (.step n))

theorem mem_appsOf_cons_eq {q : QId} {x : List (Val T)} {l : List (QId × List (Val T))} (h : appsOf l q = []) (y : Val T)
    (hy : y ∈ appsOf ((q, x) :: l) q) : y ∈ x := by
  rw [appsOf_cons_eq _ _ _ h] at hy; exact hy

/-- `push_phase_shift` only appends well-formed entries to the start queue -/
theorem progShift_wf (cfg : Cfg T) (n : Nat) (nc : NodeCfg T) (hnode : cfg.node n = some nc) (p : Priv T) (v : QId → List (Val T))
    (ans : Ans T) (ext' : QId → Nat) (h : (progShift cfg n p).run v (fun _ => 0) = some (ans, ext')) :
    ∀ x ∈ ans.2.2 (.node n .start), WfVal cfg nc x := by
  unfold progShift at h
  simp only [hnode] at h
  obtain ⟨_, h1⟩ := Prog.run_take h
  obtain ⟨_, h2⟩ := Prog.run_take h1
  obtain ⟨hm, e3, h3, _⟩ := takeHeads_run' _ _ _ _ _ h2
  split at h3
  · have := Prog.run_done h3
    simp only [Prod.mk.injEq] at this
    obtain ⟨rfl, rfl⟩ := this
    intro x hx
    dsimp only at hx
    rw [List.append_assoc, appsOf_append_nil, appsOf_cons_eq] at hx
    · simp only [List.mem_singleton] at hx
      subst hx
      exact ⟨rfl, rfl, rfl, rfl⟩
    · rw [appsOf_cons_ne _ _ _ _ (by simp), appsOf_nil]
    · rw [appsOf_append_nil]
      · exact appsOf_map_conn _ (by intro c k; simp) _ _ (fun c => ⟨.inTs, rfl⟩)
      · exact appsOf_map_conn _ (by intro c k; simp) _ _ (fun c => ⟨.nextStep, rfl⟩)
  · simp [Prog.run] at h3

theorem finishStep_wf (cfg : Cfg T) (n : Nat) (nc : NodeCfg T) (p : Priv T) (tick : Int) (a b : T) (hdr : StepHdr T)
    (sin : StepIn T) (o : StepOut) (hw : WfHdr cfg nc a hdr) :
    ∀ x ∈ (finishStep cfg n nc p tick a b hdr sin (some o)).2.2 (.node n .record), WfVal cfg nc x := by
  intro x hx
  simp only [finishStep] at hx
  rw [appsOf_append_nil, appsOf_cons_eq] at hx
  · simp only [List.mem_singleton] at hx
    subst hx
    exact ⟨hw, rfl⟩
  · rw [appsOf_cons_ne _ _ _ _ (by simp), appsOf_nil]
  · exact appsOf_map_conn _ (by intro c k; simp) _ _ (fun c => ⟨.inMsg, rfl⟩)

/-- `push_step` records well-formed rows (and keeps a well-formed pending step), given a well-formed start queue / pending step -/
theorem progStep_wf (cfg : Cfg T) (n : Nat) (nc : NodeCfg T) (hnode : cfg.node n = some nc) (p : Priv T) (v : QId → List (Val T))
    (hv : ∀ x ∈ v (.node n .start), WfVal cfg nc x) (hp : WfPending cfg nc p)
    (ans : Ans T) (ext' : QId → Nat) (h : (progStep cfg n p).run v (fun _ => 0) = some (ans, ext')) :
    (∀ x ∈ ans.2.2 (.node n .record), WfVal cfg nc x) ∧ WfPending cfg nc ans.1 := by
  unfold progStep at h
  simp only [hnode] at h
  cases hpend : p.pending with
  | some x =>
    obtain ⟨tick, tsStart, delay, hdr, sin⟩ := x
    have hw : WfHdr cfg nc tsStart hdr := by simpa [WfPending, hpend] using hp
    simp only [hpend] at h
    obtain ⟨_, h1⟩ := Prog.run_take h
    split at h1
    · rename_i o heq
      have := Prog.run_done h1
      simp only [Prod.mk.injEq] at this
      obtain ⟨rfl, rfl⟩ := this
      refine ⟨finishStep_wf cfg n nc p tick tsStart delay hdr sin o hw, ?_⟩
      simp [WfPending, finishStep]
    · simp [Prog.run] at h1
  | none =>
    simp only [hpend] at h
    obtain ⟨hlen, h1⟩ := Prog.run_take h
    obtain ⟨hg, e2, h2, _⟩ := takeHeads_run' _ _ _ _ _ h1
    split at h2
    · rename_i tick tsStart delay hdr heq
      have hmem : Val.start tick tsStart delay hdr ∈ v (.node n .start) := by
        have : Val.start tick tsStart delay hdr ∈ (v (.node n .start)).take 1 := by rw [heq]; simp
        exact List.mem_of_mem_take this
      have hw : WfHdr cfg nc tsStart hdr := hv _ hmem
      by_cases hs : n = cfg.sup
      · subst hs
        simp only [if_true] at h2
        have := Prog.run_done h2
        simp only [Prod.mk.injEq] at this
        obtain ⟨rfl, rfl⟩ := this
        refine ⟨?_, ?_⟩
        · intro x hx
          dsimp only at hx
          rw [appsOf_cons_ne _ _ _ _ (by simp), appsOf_nil] at hx
          cases hx
        · simpa [WfPending] using hw
      · simp only [hs, if_false] at h2
        have := Prog.run_done h2
        simp only [Prod.mk.injEq] at this
        obtain ⟨rfl, rfl⟩ := this
        refine ⟨?_, ?_⟩
        · dsimp only
          exact finishStep_wf cfg n nc _ tick tsStart delay hdr _ _ hw
        · simp [WfPending, finishStep]
    · simp [Prog.run] at h2

theorem recInv_init (cfg : Cfg T) (n : Nat) (nc : NodeCfg T) : RecInv cfg n nc (initState cfg) := by
  refine ⟨by simp [initState], by simp [initState], ?_⟩
  simp only [WfPending, initState]
  cases cfg.node n <;> simp

theorem recInv_fire (cfg : Cfg T) (n : Nat) (nc : NodeCfg T) (hnode : cfg.node n = some nc) (r : Rule) (s : MSt T)
    (hi : RecInv cfg n nc s) : RecInv cfg n nc ((machine cfg).toNet.fire r s) := by
  obtain ⟨hS, hR, hP⟩ := hi
  have cR : (machine cfg).toNet.cons (.node n .record) = none := rfl
  have pR : (machine cfg).toNet.prod (.node n .record) = .step n := rfl
  have cS : (machine cfg).toNet.cons (.node n .start) = some (.step n) := rfl
  have pS : (machine cfg).toNet.prod (.node n .start) = .shift n := rfl
  cases hs : (machine cfg).toNet.step r (s.priv r) ((machine cfg).toNet.view r s) with
  | none => rw [fire_none cfg r s hs]; exact ⟨hS, hR, hP⟩
  | some res =>
    obtain ⟨ans, ext', hrun, hres⟩ := toNet_step_some (machine cfg) r _ _ res hs
    unfold RecInv
    rw [fire_q_eq cfg r s _ res hs, fire_q_eq cfg r s _ res hs]
    subst hres
    by_cases h2 : r = .shift n
    · subst h2
      have hrun' : (progShift cfg n (s.priv (.shift n))).run ((machine cfg).toNet.view (.shift n) s) (fun _ => 0) = some (ans, ext') := hrun
      have hw := progShift_wf cfg n nc hnode _ _ ans ext' hrun'
      simp only [cR, pR, cS, pS, reduceCtorEq, if_false, if_true, List.drop_zero, List.append_nil, Option.some.injEq]
      rw [fire_priv_other (machine cfg).toNet (.shift n) (.step n) s (by simp)]
      refine ⟨?_, hR, hP⟩
      intro x hx
      rcases List.mem_append.mp hx with h | h
      · exact hS x h
      · exact hw x h
    · by_cases h3 : r = .step n
      · subst h3
        have hrun' : (progStep cfg n (s.priv (.step n))).run ((machine cfg).toNet.view (.step n) s) (fun _ => 0) = some (ans, ext') := hrun
        have hview : (machine cfg).toNet.view (.step n) s (.node n .start) = s.q (.node n .start) := by simp [Net.view, cS]
        have hw := progStep_wf cfg n nc hnode _ _ (by rw [hview]; exact hS) hP ans ext' hrun'
        simp only [cR, pR, cS, pS, reduceCtorEq, if_false, if_true, List.drop_zero, List.append_nil, Option.some.injEq]
        rw [fire_priv_eq cfg _ s _ hs]
        refine ⟨?_, ?_, hw.2⟩
        · intro x hx
          exact hS x (List.mem_of_mem_drop hx)
        · intro x hx
          rcases List.mem_append.mp hx with h | h
          · exact hR x h
          · exact hw.1 x h
      · have e2 : ¬ (Rule.shift n = r) := fun h => h2 h.symm
        have e3 : ¬ (Rule.step n = r) := fun h => h3 h.symm
        simp only [cR, pR, cS, pS, reduceCtorEq, if_false, List.drop_zero, List.append_nil, Option.some.injEq, e2, e3]
        rw [fire_priv_other (machine cfg).toNet r (.step n) s (Ne.symm h3)]
        exact ⟨hS, hR, hP⟩

theorem recInv_run (cfg : Cfg T) (n : Nat) (nc : NodeCfg T) (hnode : cfg.node n = some nc) {s : MSt T} {σ : List Rule} {s' : MSt T}
    (h : Run (machine cfg).toNet.sys s σ s') (hi : RecInv cfg n nc s) : RecInv cfg n nc s' := by
  induction h with
  | nil _ => exact hi
  | cons _ _ ih => exact ih (recInv_fire cfg n nc hnode _ _ hi)

end Rex.Async
