import RexModel.Async.Machine

/-! Machine-level call accounting (C06, threaded runtime): in every state reachable under any schedule, every
non-supervisor node has evaluated its step function exactly once per recorded tick. Core Lean only. -/

namespace Rex.Async

open Rex.Net Rex.Conf

variable {T : Type} [TimeLike T]

/-- generic: a rule that is neither producer nor consumer of a queue leaves it untouched -/
theorem apply_q_other {Q R V P : Type} [DecidableEq R] (N : Net Q R V P) (r : R) (s : St Q R V P)
    (res : P × (Q → Nat) × (Q → List V)) (q : Q) (hp : N.prod q ≠ r) (hc : N.cons q ≠ some r) :
    (N.apply r s res).q q = s.q q := by
  simp [Net.apply, hp, hc]

theorem fire_q_other {Q R V P : Type} [DecidableEq R] (N : Net Q R V P) (r : R) (s : St Q R V P) (q : Q)
    (hp : N.prod q ≠ r) (hc : N.cons q ≠ some r) : (N.fire r s).q q = s.q q := by
  unfold Net.fire
  cases N.step r (s.priv r) (N.view r s) with
  | none => rfl
  | some res => exact apply_q_other N r s res q hp hc

theorem fire_priv_other {Q R V P : Type} [DecidableEq R] (N : Net Q R V P) (r r' : R) (s : St Q R V P) (h : r' ≠ r) :
    (N.fire r s).priv r' = s.priv r' := by
  unfold Net.fire
  cases N.step r (s.priv r) (N.view r s) with
  | none => rfl
  | some res => simp [Net.apply, h]

theorem toNet_step_some {Q R V P : Type} [DecidableEq Q] (N : PNet Q R V P) (r : R) (p : P) (v : Q → List V)
    (res : P × (Q → Nat) × (Q → List V)) (h : N.toNet.step r p v = some res) :
    ∃ a ext, (N.prog r p).run v (fun _ => 0) = some (a, ext) ∧ res = (a.1, (fun q => min (a.2.1 q) (ext q)), a.2.2) := by
  simp only [PNet.toNet] at h
  cases hr : (N.prog r p).run v (fun _ => 0) with
  | none => rw [hr] at h; cases h
  | some x =>
    obtain ⟨a, ext⟩ := x
    rw [hr] at h
    simp only [Option.some.injEq] at h
    exact ⟨a, ext, rfl, h.symm⟩

/-- successful runs of `takeHeads` end in a successful run of the continuation -/
theorem takeHeads_run (qs : List QId) (k : List (Val T) → P T) (v : QId → List (Val T)) (ext : QId → Nat)
    (r : Ans T × (QId → Nat)) (h : (takeHeads qs k).run v ext = some r) : ∃ hs ext', (k hs).run v ext' = some r := by
  induction qs generalizing k ext with
  | nil => exact ⟨[], ext, h⟩
  | cons q qs ih =>
    simp only [takeHeads, Prog.run] at h
    split at h
    · obtain ⟨hs, ext', h'⟩ := ih _ _ h
      exact ⟨_, ext', h'⟩
    · cases h

theorem appsOf_record_finish (n : Nat) (r : StepRec T) (outs : List Nat) (tick : Int) (tsEnd : T) (o : Int) :
    (appsOf ([(QId.node n .record, [Val.stepRec r]), (QId.node n .tokens, [Val.tok])]
        ++ outs.map fun c => (QId.conn c .inMsg, [Val.msg tick tsEnd o])) (QId.node n .record)).length = 1 := by
  unfold appsOf
  have h1 : (outs.map fun c => (QId.conn c Qc.inMsg, [Val.msg tick tsEnd o])).filter (fun x => x.1 == QId.node n .record) = [] := by
    apply List.filter_eq_nil_iff.mpr
    intro x hx
    obtain ⟨c, _, rfl⟩ := List.mem_map.mp hx
    simp
  simp [List.filter_cons, List.filter_append, h1]

/-- what one successful firing of `push_step` of a non-supervisor node does to the call counter and the record -/
theorem progStep_effect (cfg : Cfg T) (n : Nat) (hn : n ≠ cfg.sup) (p : Priv T) (hp : p.pending = none)
    (v : QId → List (Val T)) (ext : QId → Nat) (ans : Ans T) (ext' : QId → Nat)
    (h : (progStep cfg n p).run v ext = some (ans, ext')) :
    ans.1.calls = p.calls + 1 ∧ ans.1.pending = none ∧ (ans.2.2 (.node n .record)).length = 1 := by
  unfold progStep at h
  cases hnode : cfg.node n with
  | none => simp [hnode, Prog.run] at h
  | some nc =>
    simp only [hnode, hp, Prog.run] at h
    split at h
    · obtain ⟨hs, e2, h2⟩ := takeHeads_run _ _ _ _ _ h
      split at h2
      · simp only [hn, if_false, Prog.run, Option.some.injEq, Prod.mk.injEq] at h2
        obtain ⟨rfl, _⟩ := h2
        refine ⟨by simp [finishStep], by simp [finishStep], ?_⟩
        simp only [finishStep]
        exact appsOf_record_finish n _ nc.outputs _ _ _
      · simp [Prog.run] at h2
    · cases h

/-- invariant: calls made = ticks recorded, and only the supervisor ever waits -/
def CallsInv (cfg : Cfg T) (s : MSt T) : Prop :=
  ∀ n, n ≠ cfg.sup → (s.q (.node n .record)).length = (s.priv (.step n)).calls ∧ (s.priv (.step n)).pending = none

theorem callsInv_init (cfg : Cfg T) : CallsInv cfg (initState cfg) := by
  intro n _
  simp only [initState]
  cases cfg.node n <;> simp

theorem callsInv_fire (cfg : Cfg T) (r : Rule) (s : MSt T) (hi : CallsInv cfg s) :
    CallsInv cfg ((machine cfg).toNet.fire r s) := by
  intro n hn
  obtain ⟨hlen, hpend⟩ := hi n hn
  by_cases hr : r = .step n
  · subst hr
    unfold Net.fire
    cases hs : (machine cfg).toNet.step (.step n) (s.priv (.step n)) ((machine cfg).toNet.view (.step n) s) with
    | none => exact ⟨hlen, hpend⟩
    | some res =>
      obtain ⟨ans, ext', hrun, hres⟩ := toNet_step_some (machine cfg) (.step n) _ _ res hs
      have hrun' : (progStep cfg n (s.priv (.step n))).run ((machine cfg).toNet.view (.step n) s) (fun _ => 0) = some (ans, ext') := hrun
      have heff := progStep_effect cfg n hn _ hpend _ _ ans ext' hrun'
      subst hres
      refine ⟨?_, ?_⟩
      · have hc : (machine cfg).toNet.cons (.node n .record) = none := rfl
        have hp : (machine cfg).toNet.prod (.node n .record) = .step n := rfl
        simp only [Net.apply, hc, hp, reduceCtorEq, if_false, if_true, List.drop_zero, List.length_append]
        rw [heff.2.2, hlen, heff.1]
      · simp only [Net.apply, if_true]
        exact heff.2.1
  · have hq := fire_q_other (machine cfg).toNet r s (.node n .record) (by simpa [PNet.toNet, machine, prodOf] using Ne.symm hr) (by simp [PNet.toNet, machine, consOf])
    have hp := fire_priv_other (machine cfg).toNet r (.step n) s (Ne.symm hr)
    rw [hq, hp]
    exact ⟨hlen, hpend⟩

/-- along every execution -/
theorem callsInv_run (cfg : Cfg T) {s : MSt T} {σ : List Rule} {s' : MSt T}
    (h : Run (machine cfg).toNet.sys s σ s') (hi : CallsInv cfg s) : CallsInv cfg s' := by
  induction h with
  | nil _ => exact hi
  | cons _ _ ih => exact ih (callsInv_fire cfg _ _ hi)

end Rex.Async
