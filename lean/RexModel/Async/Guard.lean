import RexModel.Async.Machine

/-! The wait condition of `push_expected_nonblocking` is sound: once it holds, the number of messages the step gets is decided.
Core Lean only. Shared by C02 (schedule independence) and C03 (consumption policy). -/

namespace Rex.Async

open Rex.Gen.Async

variable {T : Type} [TimeLike T]

/-- the wait condition of `push_expected_nonblocking` (a message with a receive time in the future of the step)
implies the loop's break test — LATEST branch … -/
theorem nb_future_implies_latest_break (skip : Bool) (ts tsStep : T) :
    nb_has_future ts tsStep = true → nb_latest_break skip ts tsStep = true := by
  intro h
  simp only [nb_has_future] at h
  simp only [nb_latest_break, h, Bool.true_or]

/-- … and BUFFER branch. -/
theorem nb_future_implies_buffer_break (skip : Bool) (ts tsStep : T) :
    nb_has_future ts tsStep = true → nb_buffer_break_recv skip ts tsStep = true := by
  intro h
  simp only [nb_has_future] at h
  simp only [nb_buffer_break_recv, h, Bool.true_or]

theorem takeWhile_append_of_terminator {β : Type} (p : β → Bool) (l xs : List β)
    (h : ∃ t ∈ l, p t = false) : (l ++ xs).takeWhile p = l.takeWhile p := by
  induction l with
  | nil => simp at h
  | cons a l ih =>
    simp only [List.cons_append, List.takeWhile_cons]
    cases hp : p a with
    | false => rfl
    | true =>
      simp only [ite_true]
      congr 1
      apply ih
      obtain ⟨t, ht, hpt⟩ := h
      rcases List.mem_cons.mp ht with rfl | ht'
      · rw [hp] at hpt; cases hpt
      · exact ⟨t, ht', hpt⟩

/-- The number of messages a non-blocking connection hands to a step is decided by the *needed prefix* of the
arrival queue (up to the first arrival in the step's future): whatever arrives later cannot change it. This is
what makes the source's loop over the whole deque independent of how far the sender has run ahead. -/
theorem nbCount_needed_prefix (cc : ConnCfg T) (tsStep : T) (pre rest : List (Val T))
    (h : ∃ v ∈ pre, isFuture tsStep v = true) :
    nbCount cc tsStep (pre ++ rest) = nbCount cc tsStep pre := by
  unfold nbCount
  congr 1
  apply takeWhile_append_of_terminator
  obtain ⟨v, hv, hf⟩ := h
  refine ⟨v, hv, ?_⟩
  cases v with
  | tickTs seq ts =>
    simp only [isFuture] at hf
    have h1 := nb_future_implies_latest_break cc.skip ts tsStep hf
    have h2 := nb_future_implies_buffer_break cc.skip ts tsStep hf
    show (if (cc.jitter == 1) = true then _ else _) = false
    split <;> simp [h1, h2]
  | _ => simp [isFuture] at hf

end Rex.Async
