import RexModel.Async.Faithful
import RexModel.Async.Arrival

/-! Payloads travel unchanged, under every schedule (C01, C03): every entry of every input window a step has seen — in the node's
current windows, in a pending supervisor step, in a recorded step — is either a default entry (negative sequence number, the
connection's initial output) or carries the recorded output of the sender's step with that sequence number. The invariant is
pointwise (no alignment between queues): every message in flight names a recorded step of its sender and carries that step's output;
records only grow, so the fact survives every later firing. Core Lean only. -/

namespace Rex.Async

open Rex.Net Rex.Conf Rex.Gen.Async

variable {T : Type} [TimeLike T]

/-- the sender (node `n`) has recorded a step `seq` with output `data` -/
def outOf (s : MSt T) (n : Nat) (seq : Int) (data : Int) : Prop :=
  ∃ r : StepRec T, Val.stepRec r ∈ s.q (.node n .record) ∧ r.seq = seq ∧ r.output = some data

/-- a window entry of connection `c` is a default entry or a recorded output of the sender -/
def ItemOk (cfg : Cfg T) (s : MSt T) (c : Nat) (it : Item T) : Prop :=
  (it.seq < 0 ∧ ∃ cc, cfg.conn c = some cc ∧ it.data = cc.initData) ∨ outOf s (cfg.src c) it.seq it.data

/-- a value travelling on connection `c` -/
def ValOk (cfg : Cfg T) (s : MSt T) (c : Nat) : Val T → Prop
  | .msg seq _ data => outOf s (cfg.src c) seq data
  | .rmsg seq _ _ _ data => outOf s (cfg.src c) seq data
  | _ => True

/-- a value of the grouped queue of connection `c` -/
def GrpOk (cfg : Cfg T) (s : MSt T) (c : Nat) (v : Val T) : Prop := ∃ items, v = Val.grp items ∧ ∀ it ∈ items, ItemOk cfg s c it

/-- windows of a node, one per input, in input order -/
def WinOk (cfg : Cfg T) (s : MSt T) : List Nat → List (List (Item T)) → Prop
  | [], [] => True
  | c :: cs, w :: ws => (∀ it ∈ w, ItemOk cfg s c it) ∧ WinOk cfg s cs ws
  | _, _ => False

/-- records only grow -/
def RecLe (s s' : MSt T) : Prop := ∀ n v, v ∈ s.q (.node n .record) → v ∈ s'.q (.node n .record)

theorem outOf_mono {s s' : MSt T} (h : RecLe s s') {n : Nat} {seq data : Int} (ho : outOf s n seq data) : outOf s' n seq data := by
  obtain ⟨r, hr, h1, h2⟩ := ho
  exact ⟨r, h _ _ hr, h1, h2⟩

theorem itemOk_mono (cfg : Cfg T) {s s' : MSt T} (h : RecLe s s') {c : Nat} {it : Item T} (ho : ItemOk cfg s c it) : ItemOk cfg s' c it := by
  rcases ho with h1 | h1
  · exact Or.inl h1
  · exact Or.inr (outOf_mono h h1)

theorem valOk_mono (cfg : Cfg T) {s s' : MSt T} (h : RecLe s s') {c : Nat} {v : Val T} (ho : ValOk cfg s c v) : ValOk cfg s' c v := by
  cases v <;> simp only [ValOk] at ho ⊢ <;> first | trivial | exact outOf_mono h ho

theorem grpOk_mono (cfg : Cfg T) {s s' : MSt T} (h : RecLe s s') {c : Nat} {v : Val T} (ho : GrpOk cfg s c v) : GrpOk cfg s' c v := by
  obtain ⟨items, hv, hi⟩ := ho
  exact ⟨items, hv, fun it hit => itemOk_mono cfg h (hi it hit)⟩

theorem winOk_mono (cfg : Cfg T) {s s' : MSt T} (h : RecLe s s') {inputs : List Nat} {ws : List (List (Item T))}
    (ho : WinOk cfg s inputs ws) : WinOk cfg s' inputs ws := by
  induction inputs generalizing ws with
  | nil => cases ws with
    | nil => trivial
    | cons w ws => exact ho.elim
  | cons c cs ih => cases ws with
    | nil => exact ho.elim
    | cons w ws => exact ⟨fun it hit => itemOk_mono cfg h (ho.1 it hit), ih ho.2⟩

/-- **Payload invariant** -/
structure PInv (cfg : Cfg T) (s : MSt T) : Prop where
  inMsg : ∀ c, ∀ v ∈ s.q (.conn c .inMsg), ValOk cfg s c v
  zipMsgs : ∀ c, ∀ v ∈ s.q (.conn c .zipMsgs), ValOk cfg s c v
  msgs : ∀ c, ∀ v ∈ s.q (.conn c .msgs), ValOk cfg s c v
  grouped : ∀ c, ∀ v ∈ s.q (.conn c .grouped), GrpOk cfg s c v
  windows : ∀ d nc, cfg.node d = some nc → WinOk cfg s nc.inputs (s.priv (.step d)).windows
  pending : ∀ d nc, cfg.node d = some nc → ∀ x, (s.priv (.step d)).pending = some x → WinOk cfg s nc.inputs x.2.2.2.2.windows
  records : ∀ d nc, cfg.node d = some nc → ∀ r : StepRec T, Val.stepRec r ∈ s.q (.node d .record) → WinOk cfg s nc.inputs r.windows

theorem winOk_init (cfg : Cfg T) (s : MSt T) (inputs : List Nat) :
    WinOk cfg s inputs (inputs.map fun c => match cfg.conn c with | some cc => initWindow cc | none => []) := by
  induction inputs with
  | nil => trivial
  | cons c cs ih =>
    refine ⟨?_, ih⟩
    intro it hit
    cases hc : cfg.conn c with
    | none => simp [hc] at hit
    | some cc =>
      simp only [hc, initWindow, List.mem_map, List.mem_range] at hit
      obtain ⟨i, hi, rfl⟩ := hit
      left
      refine ⟨?_, cc, hc, rfl⟩
      simp only
      omega

theorem pinv_init (cfg : Cfg T) : PInv cfg (initState cfg) := by
  refine ⟨?_, ?_, ?_, ?_, ?_, ?_, ?_⟩
  · intro c v hv; simp [initState] at hv
  · intro c v hv; simp [initState] at hv
  · intro c v hv; simp [initState] at hv
  · intro c v hv; simp [initState] at hv
  · intro d nc hd
    simp only [initState, hd]
    exact winOk_init cfg _ nc.inputs
  · intro d nc hd x hx
    simp only [initState, hd] at hx
    cases hx
  · intro d nc hd r hr; simp [initState] at hr

-- ---------------------------------------------------------------------------------------------------------------
-- generic facts about firing

theorem fire_q_mem (cfg : Cfg T) (r : Rule) (s : MSt T) (q : QId) (v : Val T) (hv : v ∈ ((machine cfg).toNet.fire r s).q q) :
    v ∈ s.q q ∨ ∃ res, (machine cfg).toNet.step r (s.priv r) ((machine cfg).toNet.view r s) = some res ∧
      (machine cfg).toNet.prod q = r ∧ v ∈ res.2.2 q := by
  cases hs : (machine cfg).toNet.step r (s.priv r) ((machine cfg).toNet.view r s) with
  | none => rw [fire_none cfg r s hs] at hv; exact Or.inl hv
  | some res =>
    rw [fire_q_eq cfg r s q res hs] at hv
    rcases List.mem_append.mp hv with h | h
    · exact Or.inl (List.mem_of_mem_drop h)
    · by_cases hp : (machine cfg).toNet.prod q = r
      · rw [if_pos hp] at h; exact Or.inr ⟨res, rfl, hp, h⟩
      · rw [if_neg hp] at h; cases h

theorem fire_recLe (cfg : Cfg T) (r : Rule) (s : MSt T) : RecLe s ((machine cfg).toNet.fire r s) := by
  intro n v hv
  cases hs : (machine cfg).toNet.step r (s.priv r) ((machine cfg).toNet.view r s) with
  | none => rw [fire_none cfg r s hs]; exact hv
  | some res =>
    rw [fire_q_eq cfg r s _ res hs]
    have : (machine cfg).toNet.cons (.node n .record) = none := rfl
    simp only [this, reduceCtorEq, if_false, List.drop_zero]
    exact List.mem_append_left _ hv

/-- a consumed queue of which the rule read at least one element is seen as it is -/
theorem view_of_nonempty (cfg : Cfg T) (r : Rule) (s : MSt T) (q : QId) (h : 1 ≤ ((machine cfg).toNet.view r s q).length) :
    (machine cfg).toNet.view r s q = s.q q := by
  unfold Net.view at h ⊢
  split
  · rfl
  · rename_i hc; simp [hc] at h

theorem mem_foldl_pushItem (items w : List (Item T)) (it : Item T) (h : it ∈ items.foldl pushItem w) : it ∈ w ∨ it ∈ items := by
  induction items generalizing w with
  | nil => exact Or.inl h
  | cons x xs ih =>
    simp only [List.foldl_cons] at h
    rcases ih _ h with h1 | h1
    · simp only [pushItem, List.mem_append, List.mem_singleton] at h1
      rcases h1 with h2 | h2
      · exact Or.inl (List.mem_of_mem_drop h2)
      · exact Or.inr (by rw [h2]; exact List.mem_cons_self)
    · exact Or.inr (List.mem_cons_of_mem _ h1)

/-- `takeHeads` hands its continuation the heads of the queues, in order -/
theorem takeHeads_run_eq (qs : List QId) (k : List (Val T) → P T) (v : QId → List (Val T)) (ext : QId → Nat)
    (r : Ans T × (QId → Nat)) (h : (takeHeads qs k).run v ext = some r) :
    ∃ ext', (k ((qs.map fun q => (v q).take 1).flatten)).run v ext' = some r ∧ (∀ q ∈ qs, 1 ≤ (v q).length) ∧ ∀ q, ext q ≤ ext' q := by
  induction qs generalizing k ext with
  | nil => exact ⟨ext, h, (by intro q hq; cases hq), fun _ => Nat.le_refl _⟩
  | cons q qs ih =>
    simp only [takeHeads] at h
    obtain ⟨hl, h'⟩ := Prog.run_take h
    obtain ⟨ext', h'', hall, hle⟩ := ih _ _ h'
    refine ⟨ext', ?_, ?_, fun q' => Nat.le_trans (le_bump ext q 1 q') (hle q')⟩
    · simpa using h''
    · intro q' hq'
      rcases List.mem_cons.mp hq' with rfl | hq'
      · exact hl
      · exact hall q' hq'

/-- pushing the grouped messages of every input into the windows keeps every entry a default or a recorded sender output -/
theorem pushGroups_ok (cfg : Cfg T) (s : MSt T) (v : QId → List (Val T)) (inputs : List Nat) (ws : List (List (Item T)))
    (hw : WinOk cfg s inputs ws)
    (hg : ∀ c ∈ inputs, ∃ items, (v (.conn c .grouped)).take 1 = [Val.grp items] ∧ ∀ it ∈ items, ItemOk cfg s c it) :
    WinOk cfg s inputs (pushGroups ws (groupsOf ((inputs.map fun c => (v (QId.conn c .grouped)).take 1).flatten))) := by
  induction inputs generalizing ws with
  | nil => cases ws with
    | nil => trivial
    | cons w ws => exact hw.elim
  | cons c cs ih => cases ws with
    | nil => exact hw.elim
    | cons w ws =>
      obtain ⟨items, ht, hit⟩ := hg c List.mem_cons_self
      simp only [List.map_cons, List.flatten_cons, ht, List.singleton_append, groupsOf, pushGroups, List.zipWith_cons_cons]
      refine ⟨?_, ih ws hw.2 (fun c' hc' => hg c' (List.mem_cons_of_mem _ hc'))⟩
      intro it hmem
      rcases mem_foldl_pushItem items w it hmem with h1 | h1
      · exact hw.1 it h1
      · exact hit it h1

-- ---------------------------------------------------------------------------------------------------------------
-- effects of the rules on payloads

theorem mem_replicate_flatten {β : Type} (k : Nat) (m : List β) (x : β) (h : x ∈ (List.replicate k m).flatten) : x ∈ m := by
  induction k with
  | zero => simp at h
  | succ k ih =>
    simp only [List.replicate_succ, List.flatten_cons, List.mem_append] at h
    rcases h with h | h
    · exact h
    · exact ih h

theorem finishStep_msgs (cfg : Cfg T) (n c : Nat) (nc : NodeCfg T) (p : Priv T) (tick : Int) (a b : T) (hdr : StepHdr T)
    (sin : StepIn T) (o : StepOut) (v : Val T) (hv : v ∈ (finishStep cfg n nc p tick a b hdr sin (some o)).2.2 (.conn c .inMsg)) :
    v = Val.msg tick (ts_end_sc a b) o.output := by
  simp only [finishStep] at hv
  simp only [appsOf_append', appsOf_cons', appsOf_nil, appsOf_map_kind] at hv
  simp only [reduceCtorEq, if_false, if_true, List.nil_append, List.append_nil] at hv
  have e1 : (QId.node n Qn.record == QId.conn c Qc.inMsg) = false := by simp
  have e2 : (QId.node n Qn.tokens == QId.conn c Qc.inMsg) = false := by simp
  simp only [e1, e2, Bool.false_eq_true, if_false, List.nil_append] at hv
  have := mem_replicate_flatten _ _ _ hv
  simpa using this

/-- what `push_step` does to payloads -/
theorem progStep_payload (cfg : Cfg T) (s : MSt T) (n : Nat) (nc : NodeCfg T) (hnode : cfg.node n = some nc) (p : Priv T)
    (v : QId → List (Val T)) (ans : Ans T) (ext' : QId → Nat) (h : (progStep cfg n p).run v (fun _ => 0) = some (ans, ext'))
    (Hw : WinOk cfg s nc.inputs p.windows) (Hp : ∀ x, p.pending = some x → WinOk cfg s nc.inputs x.2.2.2.2.windows)
    (Hg : ∀ c ∈ nc.inputs, 1 ≤ (v (.conn c .grouped)).length →
      ∃ items, (v (.conn c .grouped)).take 1 = [Val.grp items] ∧ ∀ it ∈ items, ItemOk cfg s c it) :
    (∀ c m, m ∈ ans.2.2 (.conn c .inMsg) → ∃ r' ts d, Val.stepRec r' ∈ ans.2.2 (.node n .record) ∧ m = Val.msg r'.seq ts d ∧ r'.output = some d) ∧
    WinOk cfg s nc.inputs ans.1.windows ∧
    (∀ x, ans.1.pending = some x → WinOk cfg s nc.inputs x.2.2.2.2.windows) ∧
    (∀ r' : StepRec T, Val.stepRec r' ∈ ans.2.2 (.node n .record) → WinOk cfg s nc.inputs r'.windows) := by
  unfold progStep at h
  simp only [hnode] at h
  cases hp : p.pending with
  | some x =>
    obtain ⟨tick, tsStart, delay, hdr, sin⟩ := x
    simp only [hp] at h
    obtain ⟨_, h1⟩ := Prog.run_take h
    split at h1
    · rename_i o heq
      have := Prog.run_done h1
      simp only [Prod.mk.injEq] at this
      obtain ⟨rfl, _⟩ := this
      obtain ⟨e1, _, _, e4⟩ := finishStep_rec cfg n nc p tick tsStart delay hdr sin o
      refine ⟨?_, ?_, ?_, ?_⟩
      · intro c m hm
        dsimp only at hm
        have := finishStep_msgs cfg n c nc p tick tsStart delay hdr sin o m hm
        exact ⟨_, _, _, by dsimp only; rw [e1]; exact List.mem_singleton_self _, this, rfl⟩
      · simpa [finishStep] using Hw
      · intro x hx; dsimp only at hx; rw [e4] at hx; cases hx
      · intro r' hr'
        dsimp only at hr'
        rw [e1] at hr'
        simp only [List.mem_singleton, Val.stepRec.injEq] at hr'
        subst hr'
        exact Hp _ hp
    · simp [Prog.run] at h1
  | none =>
    simp only [hp] at h
    obtain ⟨_, h1⟩ := Prog.run_take h
    obtain ⟨e2, h2, hall, _⟩ := takeHeads_run_eq _ _ _ _ _ h1
    have hws : WinOk cfg s nc.inputs (pushGroups p.windows (groupsOf ((nc.inputs.map fun c => (v (QId.conn c .grouped)).take 1).flatten))) := by
      apply pushGroups_ok cfg s v nc.inputs p.windows Hw
      intro c hc
      exact Hg c hc (hall _ (List.mem_map.mpr ⟨c, hc, rfl⟩))
    have emap : (List.map (fun q => List.take 1 (v q)) (List.map (fun c => QId.conn c Qc.grouped) nc.inputs))
        = nc.inputs.map fun c => (v (QId.conn c .grouped)).take 1 := by simp [List.map_map, Function.comp_def]
    rw [emap] at h2
    split at h2
    · rename_i tick tsStart delay hdr heq
      by_cases hs : n = cfg.sup
      · simp only [hs, if_true] at h2
        have := Prog.run_done h2
        simp only [Prod.mk.injEq] at this
        obtain ⟨rfl, _⟩ := this
        subst hs
        refine ⟨?_, hws, ?_, ?_⟩
        · intro c m hm
          dsimp only at hm
          rw [appsOf_cons_ne _ _ _ _ (by simp), appsOf_nil] at hm
          cases hm
        · intro x hx
          dsimp only at hx
          simp only [Option.some.injEq] at hx
          subst hx
          exact hws
        · intro r' hr'
          dsimp only at hr'
          rw [appsOf_cons_ne _ _ _ _ (by simp), appsOf_nil] at hr'
          cases hr'
      · simp only [hs, if_false] at h2
        have := Prog.run_done h2
        simp only [Prod.mk.injEq] at this
        obtain ⟨rfl, _⟩ := this
        refine ⟨?_, ?_, ?_, ?_⟩
        · intro c m hm
          dsimp only at hm
          have := finishStep_msgs cfg n c nc _ tick tsStart delay hdr _ _ m hm
          refine ⟨?r', ?ts, ?d, ?g1, ?g2, ?g3⟩
          case g1 =>
            dsimp only
            rw [(finishStep_rec cfg n nc _ tick tsStart delay hdr _ _).1]
            exact List.mem_singleton_self _
          case g2 => exact this
          case g3 => rfl
        · simpa [finishStep] using hws
        · intro x hx
          dsimp only at hx
          rw [(finishStep_rec cfg n nc _ tick tsStart delay hdr _ _).2.2.2] at hx
          cases hx
        · intro r' hr'
          dsimp only at hr'
          rw [(finishStep_rec cfg n nc _ tick tsStart delay hdr _ _).1] at hr'
          simp only [List.mem_singleton, Val.stepRec.injEq] at hr'
          subst hr'
          exact hws
    · simp [Prog.run] at h2

theorem view_subset (cfg : Cfg T) (r : Rule) (s : MSt T) (q : QId) (v : Val T) (h : v ∈ (machine cfg).toNet.view r s q) : v ∈ s.q q := by
  unfold Net.view at h
  split at h
  · exact h
  · cases h

theorem mem_itemsOf (ms : List (Val T)) (it : Item T) (h : it ∈ itemsOf ms) :
    ∃ ts tr d, Val.rmsg it.seq ts tr d it.data ∈ ms := by
  induction ms with
  | nil => cases h
  | cons x ms ih =>
    cases x with
    | rmsg seq s r d data =>
      simp only [itemsOf, List.mem_cons] at h
      rcases h with h | h
      · subst h; exact ⟨_, _, _, List.mem_cons_self⟩
      · obtain ⟨a, b, c, hm⟩ := ih h; exact ⟨a, b, c, List.mem_cons_of_mem _ hm⟩
    | _ =>
      simp only [itemsOf] at h
      obtain ⟨a, b, c, hm⟩ := ih h; exact ⟨a, b, c, List.mem_cons_of_mem _ hm⟩

/-- `push_selection` groups the last `window` of the messages it consumes -/
theorem progSelect_grouped (cfg : Cfg T) (c : Nat) (p : Priv T) (v : QId → List (Val T)) (ans : Ans T) (ext' : QId → Nat)
    (h : (progSelect cfg c p).run v (fun _ => 0) = some (ans, ext')) :
    ∃ n w, ans.2.2 (.conn c .grouped) = [Val.grp (sel_window (itemsOf ((v (.conn c .msgs)).take n)) w)] := by
  unfold progSelect at h
  cases hc : cfg.conn c with
  | none => simp [hc, Prog.run] at h
  | some cc =>
    simp only [hc, Prog.run] at h
    split at h
    · split at h
      · rename_i t n heq
        simp only [Prog.run] at h
        split at h
        · simp only [Prog.run, Option.some.injEq, Prod.mk.injEq] at h
          obtain ⟨rfl, _⟩ := h
          refine ⟨n, cc.window, ?_⟩
          dsimp only
          rw [appsOf_cons_ne _ _ _ _ (by simp), appsOf_cons_eq _ _ _ (appsOf_nil _)]
        · cases h
      · simp [Prog.run] at h
    · cases h

-- ---------------------------------------------------------------------------------------------------------------
-- the machine preserves the invariant

theorem pinv_fire (cfg : Cfg T) (r : Rule) (s : MSt T) (hi : PInv cfg s) : PInv cfg ((machine cfg).toNet.fire r s) := by
  have hle := fire_recLe cfg r s
  cases hs : (machine cfg).toNet.step r (s.priv r) ((machine cfg).toNet.view r s) with
  | none => rw [fire_none cfg r s hs]; exact hi
  | some res =>
    obtain ⟨ans, ext', hrun, hres⟩ := toNet_step_some (machine cfg) r _ _ res hs
    have hres2 : res.2.2 = ans.2.2 := by rw [hres]
    have hres1 : res.1 = ans.1 := by rw [hres]
    -- membership in a queue after the firing
    have hmem : ∀ q v, v ∈ ((machine cfg).toNet.fire r s).q q → v ∈ s.q q ∨ ((machine cfg).toNet.prod q = r ∧ v ∈ ans.2.2 q) := by
      intro q v hv
      rcases fire_q_mem cfg r s q v hv with h | ⟨res', hs', hp, hv'⟩
      · exact Or.inl h
      · rw [hs] at hs'; cases hs'
        exact Or.inr ⟨hp, by rw [← hres2]; exact hv'⟩
    have hrecNew : ∀ n v, r = .step n → v ∈ ans.2.2 (.node n .record) → v ∈ ((machine cfg).toNet.fire r s).q (.node n .record) := by
      intro n v hr hv
      rw [fire_q_eq cfg r s _ res hs]
      have pR : (machine cfg).toNet.prod (.node n .record) = .step n := rfl
      rw [pR, if_pos hr.symm, hres2]
      exact List.mem_append_right _ hv
    -- what a firing of `push_step` of node `n` guarantees
    have hstep : ∀ n, r = .step n → ∃ nc, cfg.node n = some nc ∧
        (∀ c m, m ∈ ans.2.2 (.conn c .inMsg) → ∃ r' ts d, Val.stepRec r' ∈ ans.2.2 (.node n .record) ∧ m = Val.msg r'.seq ts d ∧ r'.output = some d) ∧
        WinOk cfg s nc.inputs ans.1.windows ∧ (∀ x, ans.1.pending = some x → WinOk cfg s nc.inputs x.2.2.2.2.windows) ∧
        (∀ r' : StepRec T, Val.stepRec r' ∈ ans.2.2 (.node n .record) → WinOk cfg s nc.inputs r'.windows) := by
      intro n hr
      subst hr
      have hrun' : (progStep cfg n (s.priv (.step n))).run ((machine cfg).toNet.view (.step n) s) (fun _ => 0) = some (ans, ext') := hrun
      cases hnode : cfg.node n with
      | none => unfold progStep at hrun'; simp [hnode, Prog.run] at hrun'
      | some nc =>
        refine ⟨nc, rfl, ?_⟩
        apply progStep_payload cfg s n nc hnode _ _ ans ext' hrun' (hi.windows n nc hnode) (hi.pending n nc hnode)
        intro c _ hlen
        have hv := view_of_nonempty cfg (.step n) s _ hlen
        rw [hv] at hlen ⊢
        cases hq : s.q (.conn c .grouped) with
        | nil => rw [hq] at hlen; simp at hlen
        | cons x xs =>
          obtain ⟨items, hx, hit⟩ := hi.grouped c x (by rw [hq]; exact List.mem_cons_self)
          exact ⟨items, by simp [hx], hit⟩
    have hpriv : ∀ d, ((machine cfg).toNet.fire r s).priv (.step d) = if r = .step d then ans.1 else s.priv (.step d) := by
      intro d
      by_cases hr : r = .step d
      · rw [if_pos hr]; subst hr; rw [fire_priv_eq cfg _ s res hs, hres1]
      · rw [if_neg hr, fire_priv_other (machine cfg).toNet r (.step d) s (Ne.symm hr)]
    refine ⟨?_, ?_, ?_, ?_, ?_, ?_, ?_⟩
    · -- just-sent messages
      intro c v hv
      rcases hmem _ v hv with h | ⟨hp, hv'⟩
      · exact valOk_mono cfg hle (hi.inMsg c v h)
      · have pIM : (machine cfg).toNet.prod (.conn c .inMsg) = .step (cfg.src c) := rfl
        rw [pIM] at hp
        obtain ⟨nc, _, F1, _, _, _⟩ := hstep (cfg.src c) hp.symm
        obtain ⟨r', ts, d, hr', rfl, ho⟩ := F1 c v hv'
        exact ⟨r', hrecNew _ _ hp.symm hr', rfl, ho⟩
    · -- waiting to be zipped
      intro c v hv
      rcases hmem _ v hv with h | ⟨hp, hv'⟩
      · exact valOk_mono cfg hle (hi.zipMsgs c v h)
      · have pZM : (machine cfg).toNet.prod (.conn c .zipMsgs) = .inp c := rfl
        rw [pZM] at hp
        subst hp
        have hrun' : (progInp c (s.priv (.inp c))).run ((machine cfg).toNet.view (.inp c) s) (fun _ => 0) = some (ans, ext') := hrun
        obtain ⟨_, happ, _⟩ := progInp_effect c _ _ ans ext' hrun'
        rw [happ] at hv'
        exact valOk_mono cfg hle (hi.inMsg c v (view_subset cfg _ s _ v (List.mem_of_mem_take hv')))
    · -- arrived
      intro c v hv
      rcases hmem _ v hv with h | ⟨hp, hv'⟩
      · exact valOk_mono cfg hle (hi.msgs c v h)
      · have pM : (machine cfg).toNet.prod (.conn c .msgs) = .zip c := rfl
        rw [pM] at hp
        subst hp
        have hrun' : (progZip c (s.priv (.zip c))).run ((machine cfg).toNet.view (.zip c) s) (fun _ => 0) = some (ans, ext') := hrun
        obtain ⟨seq, s0, data, d, hh1, _, _, _, happ⟩ := progZip_arr c _ _ ans ext' hrun'
        rw [happ] at hv'
        simp only [List.mem_singleton] at hv'
        subst hv'
        have hmsg : Val.msg seq s0 data ∈ s.q (.conn c .zipMsgs) := by
          apply view_subset cfg (.zip c) s
          have : Val.msg seq s0 data ∈ ((machine cfg).toNet.view (.zip c) s (.conn c .zipMsgs)).take 1 := by rw [hh1]; exact List.mem_singleton_self _
          exact List.mem_of_mem_take this
        have hok : outOf s (cfg.src c) seq data := hi.zipMsgs c _ hmsg
        exact outOf_mono hle hok
    · -- grouped
      intro c v hv
      rcases hmem _ v hv with h | ⟨hp, hv'⟩
      · exact grpOk_mono cfg hle (hi.grouped c v h)
      · have pG : (machine cfg).toNet.prod (.conn c .grouped) = .select c := rfl
        rw [pG] at hp
        subst hp
        have hrun' : (progSelect cfg c (s.priv (.select c))).run ((machine cfg).toNet.view (.select c) s) (fun _ => 0) = some (ans, ext') := hrun
        obtain ⟨n, w, happ⟩ := progSelect_grouped cfg c _ _ ans ext' hrun'
        rw [happ] at hv'
        simp only [List.mem_singleton] at hv'
        subst hv'
        refine ⟨_, rfl, ?_⟩
        intro it hit
        have h1 : it ∈ itemsOf (((machine cfg).toNet.view (.select c) s (.conn c .msgs)).take n) := by
          simp only [sel_window, Rex.lastN] at hit
          exact List.mem_of_mem_drop hit
        obtain ⟨ts, tr, d, hm⟩ := mem_itemsOf _ it h1
        have hm' := view_subset cfg (.select c) s _ _ (List.mem_of_mem_take hm)
        exact Or.inr (outOf_mono hle (hi.msgs c _ hm'))
    · -- current windows
      intro d nc hd
      rw [hpriv d]
      by_cases hr : r = .step d
      · rw [if_pos hr]
        obtain ⟨nc', hn', _, F2, _, _⟩ := hstep d hr
        rw [hd] at hn'; cases hn'
        exact winOk_mono cfg hle F2
      · rw [if_neg hr]; exact winOk_mono cfg hle (hi.windows d nc hd)
    · -- pending supervisor step
      intro d nc hd x hx
      rw [hpriv d] at hx
      by_cases hr : r = .step d
      · rw [if_pos hr] at hx
        obtain ⟨nc', hn', _, _, F3, _⟩ := hstep d hr
        rw [hd] at hn'; cases hn'
        exact winOk_mono cfg hle (F3 x hx)
      · rw [if_neg hr] at hx; exact winOk_mono cfg hle (hi.pending d nc hd x hx)
    · -- recorded steps
      intro d nc hd r' hr'
      rcases hmem _ _ hr' with h | ⟨hp, hv'⟩
      · exact winOk_mono cfg hle (hi.records d nc hd r' h)
      · have pR : (machine cfg).toNet.prod (.node d .record) = .step d := rfl
        rw [pR] at hp
        obtain ⟨nc', hn', _, _, _, F4⟩ := hstep d hp.symm
        rw [hd] at hn'; cases hn'
        exact winOk_mono cfg hle (F4 r' hv')

theorem pinv_run (cfg : Cfg T) {s : MSt T} {σ : List Rule} {s' : MSt T} (h : Run (machine cfg).toNet.sys s σ s') (hi : PInv cfg s) :
    PInv cfg s' := by
  induction h with
  | nil _ => exact hi
  | cons _ _ ih => exact ih (pinv_fire cfg _ _ hi)

/-- the window predicate, by position -/
theorem winOk_get (cfg : Cfg T) (s : MSt T) (inputs : List Nat) (ws : List (List (Item T))) (h : WinOk cfg s inputs ws) :
    inputs.length = ws.length ∧ ∀ (k : Nat) (c : Nat) (w : List (Item T)), inputs[k]? = some c → ws[k]? = some w → ∀ it ∈ w, ItemOk cfg s c it := by
  induction inputs generalizing ws with
  | nil => cases ws with
    | nil => exact ⟨rfl, by intro k c w hc; simp at hc⟩
    | cons w ws => exact h.elim
  | cons c cs ih => cases ws with
    | nil => exact h.elim
    | cons w ws =>
      obtain ⟨hl, hg⟩ := ih ws h.2
      refine ⟨by simp [hl], ?_⟩
      intro k c' w' hc hw
      cases k with
      | zero =>
        simp only [List.getElem?_cons_zero, Option.some.injEq] at hc hw
        subst hc; subst hw
        exact h.1
      | succ k =>
        rw [List.getElem?_cons_succ] at hc hw
        exact hg k c' w' hc hw

end Rex.Async
