import RexModel.Async.Calls

/-! Machine-level exactly-once / in-order for the last stage of a connection (C03): what `push_selection` records is,
at every moment and under every schedule, a prefix of the order in which `push_zip` delivered the messages — a
message is never lost, duplicated or reordered between arrival and consumption. Core Lean only. -/

namespace Rex.Async

open Rex.Net Rex.Conf

variable {T : Type} [TimeLike T]

/-- sequence numbers of arrived (`rmsg`) messages in a queue -/
def seqsOf : List (Val T) → List Int
  | [] => []
  | .rmsg seq _ _ _ _ :: r => seq :: seqsOf r
  | _ :: r => seqsOf r

/-- sequence numbers of recorded (`msgRec`) messages -/
def seqsRec : List (Val T) → List Int
  | [] => []
  | .msgRec m :: r => m.seqOut :: seqsRec r
  | _ :: r => seqsRec r

theorem seqsOf_append (a b : List (Val T)) : seqsOf (a ++ b) = seqsOf a ++ seqsOf b := by
  induction a with
  | nil => rfl
  | cons x a ih => cases x <;> simp [seqsOf, ih]

theorem seqsRec_append (a b : List (Val T)) : seqsRec (a ++ b) = seqsRec a ++ seqsRec b := by
  induction a with
  | nil => rfl
  | cons x a ih => cases x <;> simp [seqsRec, ih]

theorem seqsOf_recsOf (tick : Int) (ms : List (Val T)) : seqsRec (recsOf tick ms) = seqsOf ms := by
  induction ms with
  | nil => rfl
  | cons x ms ih => cases x <;> simp [seqsOf, seqsRec, recsOf, ih]

/-- the messages of connection `c` in consumption order: recorded first, then arrived-but-not-yet-consumed -/
def pipe (c : Nat) (s : MSt T) : List Int := seqsRec (s.q (.conn c .record)) ++ seqsOf (s.q (.conn c .msgs))

theorem appsOf_select_record (c : Nat) (a b : List (Val T)) :
    appsOf [(QId.conn c .record, a), (QId.conn c .grouped, b)] (QId.conn c .record) = a := by
  simp [appsOf, List.filter_cons]

theorem popsOf_select_msgs (c n : Nat) : popsOf [(QId.conn c .expSel, 1), (QId.conn c .msgs, n)] (QId.conn c .msgs) = n := by
  simp [popsOf, List.filter_cons]

/-- one successful firing of `push_selection`: it pops `n` arrived messages and records exactly those, in order -/
theorem progSelect_effect (cfg : Cfg T) (c : Nat) (p : Priv T) (v : QId → List (Val T)) (ans : Ans T) (ext' : QId → Nat)
    (h : (progSelect cfg c p).run v (fun _ => 0) = some (ans, ext')) :
    ∃ n, n ≤ (v (.conn c .msgs)).length ∧ min (ans.2.1 (.conn c .msgs)) (ext' (.conn c .msgs)) = n ∧
      seqsRec (ans.2.2 (.conn c .record)) = seqsOf ((v (.conn c .msgs)).take n) := by
  unfold progSelect at h
  cases hc : cfg.conn c with
  | none => simp [hc, Prog.run] at h
  | some cc =>
    simp only [hc, Prog.run] at h
    split at h
    · split at h
      · rename_i t n heq
        simp only [Prog.run] at h
        split at h
        · rename_i hn
          simp only [Prog.run, Option.some.injEq, Prod.mk.injEq] at h
          obtain ⟨rfl, rfl⟩ := h
          refine ⟨n, hn, ?_, ?_⟩
          · simp only [popsOf_select_msgs]
            have : n ≤ bump (bump (fun _ => 0) (QId.conn c .expSel) 1) (QId.conn c .msgs) n (QId.conn c .msgs) := by
              simp [bump]
            omega
          · simp only [appsOf_select_record, seqsOf_recsOf]
        · cases h
      · simp [Prog.run] at h
    · cases h

/-- one successful firing of `push_zip` appends exactly one arrived message -/
theorem progZip_effect (c : Nat) (p : Priv T) (v : QId → List (Val T)) (ans : Ans T) (ext' : QId → Nat)
    (h : (progZip c p).run v (fun _ => 0) = some (ans, ext')) :
    ∃ x, seqsOf (ans.2.2 (.conn c .msgs)) = [x] := by
  unfold progZip at h
  simp only [Prog.run] at h
  split at h
  · split at h
    · split at h
      · rename_i sq _ _ _ _ _
        simp only [Prog.run, Option.some.injEq, Prod.mk.injEq] at h
        obtain ⟨rfl, _⟩ := h
        refine ⟨sq, ?_⟩
        simp [appsOf, List.filter_cons, seqsOf]
      · simp [Prog.run] at h
    · cases h
  · cases h

/-- **No loss, duplication or reordering between arrival and consumption**: firing any rule of the machine extends
`pipe c` at its end (or leaves it unchanged) — the recorded messages are always the leading part of the arrival order. -/
theorem pipe_prefix_fire (cfg : Cfg T) (c : Nat) (r : Rule) (s : MSt T) :
    pipe c s <+: pipe c ((machine cfg).toNet.fire r s) := by
  have hcR : (machine cfg).toNet.cons (.conn c .record) = none := rfl
  have hpR : (machine cfg).toNet.prod (.conn c .record) = .select c := rfl
  have hcM : (machine cfg).toNet.cons (.conn c .msgs) = some (.select c) := rfl
  have hpM : (machine cfg).toNet.prod (.conn c .msgs) = .zip c := rfl
  by_cases h1 : r = .select c
  · subst h1
    unfold Net.fire
    cases hs : (machine cfg).toNet.step (.select c) (s.priv (.select c)) ((machine cfg).toNet.view (.select c) s) with
    | none => exact List.prefix_refl _
    | some res =>
      obtain ⟨ans, ext', hrun, hres⟩ := toNet_step_some (machine cfg) (.select c) _ _ res hs
      have hrun' : (progSelect cfg c (s.priv (.select c))).run ((machine cfg).toNet.view (.select c) s) (fun _ => 0) = some (ans, ext') := hrun
      obtain ⟨n, hn, hpop, hrec⟩ := progSelect_effect cfg c _ _ ans ext' hrun'
      subst hres
      have hview : (machine cfg).toNet.view (.select c) s (.conn c .msgs) = s.q (.conn c .msgs) := by
        simp [Net.view, hcM]
      rw [hview] at hn hrec
      have e : pipe c ((machine cfg).toNet.apply (.select c) s (ans.1, (fun q => min (ans.2.1 q) (ext' q)), ans.2.2)) = pipe c s := by
        unfold pipe
        simp only [Net.apply, hcR, hpR, hcM, hpM, reduceCtorEq, if_false, if_true, List.drop_zero, List.append_nil, hpop]
        rw [seqsRec_append, hrec, List.append_assoc, ← seqsOf_append, List.take_append_drop]
      rw [e]
      exact List.prefix_refl _
  · by_cases h2 : r = .zip c
    · subst h2
      unfold Net.fire
      cases hs : (machine cfg).toNet.step (.zip c) (s.priv (.zip c)) ((machine cfg).toNet.view (.zip c) s) with
      | none => exact List.prefix_refl _
      | some res =>
        unfold pipe
        simp only [Net.apply, hcR, hpR, hcM, hpM, reduceCtorEq, if_false, if_true, List.drop_zero, List.append_nil]
        rw [seqsOf_append, ← List.append_assoc]
        exact List.prefix_append _ _
    · have hq1 := fire_q_other (machine cfg).toNet r s (.conn c .record) (by rw [hpR]; exact Ne.symm h1) (by rw [hcR]; simp)
      have hq2 := fire_q_other (machine cfg).toNet r s (.conn c .msgs) (by rw [hpM]; exact Ne.symm h2) (by rw [hcM]; intro h; exact h1 (Option.some.inj h).symm)
      unfold pipe
      rw [hq1, hq2]
      exact List.prefix_refl _

theorem pipe_prefix_run (cfg : Cfg T) (c : Nat) {s : MSt T} {σ : List Rule} {s' : MSt T}
    (h : Run (machine cfg).toNet.sys s σ s') : pipe c s <+: pipe c s' := by
  induction h with
  | nil _ => exact List.prefix_refl _
  | cons _ _ ih => exact (pipe_prefix_fire cfg c _ _).trans ih

end Rex.Async
