import RexModel.Async.Arrival

/-! The phase rule of a blocking connection decides how many messages each step consumes, under every schedule (C03). Core Lean only.

`push_scheduled_ts` of the receiver announces tick `i` to the connection; `push_expected_blocking` turns it into the number
`blCount i` of sender messages whose nominal send time falls into the step's interval; `push_selection` consumes that many messages
and stamps them with its own tick. The invariant aligns the three counters (ticks announced, expectations computed, selections done)
and concludes that exactly `blCount i` recorded messages carry `seq_in = i`. -/

namespace Rex.Async

open Rex.Net Rex.Conf Rex.Gen.Async

variable {T : Type} [TimeLike T]

def nextTicks : List (Val T) → List Int := List.filterMap fun v => match v with | .tickTs k _ => some k | _ => none
def selCounts : List (Val T) → List Nat := List.filterMap fun v => match v with | .sel _ n => some n | _ => none
def isRmsg : Val T → Bool | .rmsg _ _ _ _ _ => true | _ => false

/-- recorded messages of the connection that were consumed by step `i` -/
def cntIn (i : Int) (l : List (Val T)) : Nat := (l.filter fun v => match v with | .msgRec r => r.seqIn == i | _ => false).length

theorem cntIn_append (i : Int) (a b : List (Val T)) : cntIn i (a ++ b) = cntIn i a + cntIn i b := by
  simp [cntIn, List.filter_append]

theorem cntIn_recsOf (i tick : Int) (ms : List (Val T)) (h : ∀ v ∈ ms, isRmsg v = true) :
    cntIn i (recsOf tick ms) = if tick = i then ms.length else 0 := by
  induction ms with
  | nil => simp [recsOf, cntIn]
  | cons x ms ih =>
    have hx := h x List.mem_cons_self
    have hr := ih (fun v hv => h v (List.mem_cons_of_mem _ hv))
    cases x with
    | rmsg seq s r d data =>
      simp only [recsOf]
      have e : cntIn i (Val.msgRec ⟨seq, tick, s, r, d⟩ :: recsOf tick ms) = (if tick = i then 1 else 0) + cntIn i (recsOf tick ms) := by
        simp only [cntIn, List.filter_cons]
        by_cases ht : tick = i
        · simp [ht]; omega
        · have : (tick == i) = false := by simp [ht]
          simp [this, ht]
      rw [e, hr]
      split <;> simp <;> omega
    | _ => simp [isRmsg] at hx

/-- the part of the machine state the invariant talks about -/
structure BC (T : Type) where
  next : List (Val T)     -- ticks announced by the receiver, not yet turned into expectations
  sel : List (Val T)      -- expectations not yet served
  rcd : List (Val T)      -- recorded (consumed) messages
  msgs : List (Val T)     -- arrived messages
  tk : Nat                -- next tick the receiver will announce
  b : Nat                 -- next tick `push_selection` will stamp

/-- **Blocking invariant** (`f i`: the phase-rule count of tick `i`) -/
structure BInv (f : Int → Nat) (a : BC T) : Prop where
  nxt : nextTicks a.next = (List.range' (a.tk - (nextTicks a.next).length) (nextTicks a.next).length).map Int.ofNat
  sl : selCounts a.sel = (List.range' a.b (selCounts a.sel).length).map fun i => f (Int.ofNat i)
  sum : a.b + (selCounts a.sel).length + (nextTicks a.next).length = a.tk
  rc : ∀ i : Nat, cntIn (Int.ofNat i) a.rcd = if i < a.b then f (Int.ofNat i) else 0
  ms : ∀ v ∈ a.msgs, isRmsg v = true

/-- the receiver announces its next tick -/
theorem BInv.sched {f : Int → Nat} {a : BC T} (hi : BInv f a) (ts : T) :
    BInv f { a with next := a.next ++ [Val.tickTs (Int.ofNat a.tk) ts], tk := a.tk + 1 } := by
  have e : nextTicks (a.next ++ [Val.tickTs (Int.ofNat a.tk) ts]) = nextTicks a.next ++ [Int.ofNat a.tk] := by
    simp [nextTicks, List.filterMap_append]
  have hs := hi.sum
  refine ⟨?_, hi.sl, ?_, hi.rc, hi.ms⟩
  · show nextTicks (a.next ++ _) = _
    rw [e, List.length_append, List.length_singleton, List.range'_concat, List.map_append]
    have h1 : a.tk + 1 - ((nextTicks a.next).length + 1) = a.tk - (nextTicks a.next).length := by omega
    rw [h1, ← hi.nxt]
    simp only [List.map_cons, List.map_nil, Nat.one_mul]
    congr 3
    omega
  · show a.b + (selCounts a.sel).length + (nextTicks (a.next ++ _)).length = a.tk + 1
    rw [e]; simp; omega

/-- `push_expected_blocking` turns the oldest announced tick into an expectation -/
theorem BInv.expBl {f : Int → Nat} {a : BC T} (hi : BInv f a) (k : Int) (ts : T) (tl : List (Val T)) (h : a.next = Val.tickTs k ts :: tl) :
    k = Int.ofNat (a.b + (selCounts a.sel).length) ∧
    BInv f { a with next := tl, sel := a.sel ++ [Val.sel ts (f k)] } := by
  have e1 : nextTicks a.next = k :: nextTicks tl := by rw [h]; simp [nextTicks]
  have hn := hi.nxt
  have hs := hi.sum
  rw [e1] at hn hs
  simp only [List.length_cons] at hn hs
  rw [List.range'_succ, List.map_cons] at hn
  simp only [List.cons.injEq] at hn
  obtain ⟨hk, htl⟩ := hn
  have hk' : k = Int.ofNat (a.b + (selCounts a.sel).length) := by
    rw [hk]; congr 1; omega
  have e2 : selCounts (a.sel ++ [Val.sel ts (f k)]) = selCounts a.sel ++ [f k] := by simp [selCounts, List.filterMap_append]
  refine ⟨hk', ?_, ?_, ?_, hi.rc, hi.ms⟩
  · show nextTicks tl = _
    have hlen : a.tk - ((nextTicks tl).length + 1) + 1 = a.tk - (nextTicks tl).length := by omega
    exact htl.trans (by rw [hlen])
  · show selCounts (a.sel ++ _) = _
    rw [e2, List.length_append, List.length_singleton, List.range'_concat, List.map_append, ← hi.sl]
    simp only [List.map_cons, List.map_nil, Nat.one_mul]
    rw [hk']
  · show a.b + (selCounts (a.sel ++ _)).length + (nextTicks tl).length = a.tk
    rw [e2]; simp; omega

/-- `push_selection` serves the oldest expectation -/
theorem BInv.select {f : Int → Nat} {a : BC T} (hi : BInv f a) (t : T) (n : Nat) (tl : List (Val T)) (h : a.sel = Val.sel t n :: tl)
    (hn : n ≤ a.msgs.length) :
    n = f (Int.ofNat a.b) ∧
    BInv f { a with sel := tl, msgs := a.msgs.drop n, rcd := a.rcd ++ recsOf (Int.ofNat a.b) (a.msgs.take n), b := a.b + 1 } := by
  have e1 : selCounts a.sel = n :: selCounts tl := by rw [h]; simp [selCounts]
  have hsl := hi.sl
  have hs := hi.sum
  rw [e1] at hsl hs
  simp only [List.length_cons] at hsl hs
  rw [List.range'_succ, List.map_cons] at hsl
  simp only [List.cons.injEq] at hsl
  obtain ⟨hn', htl⟩ := hsl
  refine ⟨hn', hi.nxt, ?_, ?_, ?_, ?_⟩
  · show selCounts tl = _
    exact htl
  · show a.b + 1 + (selCounts tl).length + (nextTicks a.next).length = a.tk
    omega
  · intro i
    show cntIn (Int.ofNat i) (a.rcd ++ recsOf (Int.ofNat a.b) (a.msgs.take n)) = if i < a.b + 1 then f (Int.ofNat i) else 0
    rw [cntIn_append, hi.rc i, cntIn_recsOf _ _ _ (fun v hv => hi.ms v (List.mem_of_mem_take hv)), List.length_take]
    have hmin : min n a.msgs.length = n := by omega
    rw [hmin]
    have key : (Int.ofNat a.b = Int.ofNat i) ↔ a.b = i := ⟨fun h => Int.ofNat.inj h, fun h => by rw [h]⟩
    by_cases h1 : i < a.b
    · rw [if_pos h1, if_neg (by rw [key]; omega), if_pos (by omega)]; simp
    · by_cases h2 : a.b = i
      · subst h2
        rw [if_neg h1, if_pos rfl, if_pos (by omega)]
        simp [hn']
      · rw [if_neg h1, if_neg (by rw [key]; exact h2), if_neg (by omega)]
  · intro v hv; exact hi.ms v (List.mem_of_mem_drop hv)

/-- `push_zip` adds an arrived message -/
theorem BInv.zip {f : Int → Nat} {a : BC T} (hi : BInv f a) (seq : Int) (s r d : T) (data : Int) :
    BInv f { a with msgs := a.msgs ++ [Val.rmsg seq s r d data] } := by
  refine ⟨hi.nxt, hi.sl, hi.sum, hi.rc, ?_⟩
  intro v hv
  rcases List.mem_append.mp hv with h | h
  · exact hi.ms v h
  · simp only [List.mem_singleton] at h; subst h; rfl

-- ---------------------------------------------------------------------------------------------------------------
-- effects of the rules

/-- `push_scheduled_ts` of the receiver announces its tick to the blocking connection `c` -/
theorem progSched_next (cfg : Cfg T) (d c : Nat) (nc : NodeCfg T) (hnode : cfg.node d = some nc)
    (hcnt : (nc.inputs.filter cfg.blocking).count c = 1) (p : Priv T) (v : QId → List (Val T)) (ans : Ans T) (ext' : QId → Nat)
    (h : (progSched cfg d p).run v (fun _ => 0) = some (ans, ext')) :
    ans.1.tick = p.tick + 1 ∧ ∃ ts, ans.2.2 (.conn c .nextStep) = [Val.tickTs (Int.ofNat p.tick) ts] := by
  unfold progSched at h
  simp only [hnode, Prog.run] at h
  split at h
  · simp only [Prog.run, Option.some.injEq, Prod.mk.injEq] at h
    obtain ⟨rfl, _⟩ := h
    refine ⟨rfl, scheduled_ts TimeLike.rnd (p.tick : Int) nc.rate nc.phase, ?_⟩
    dsimp only
    simp only [appsOf_cons', appsOf_map_kind, hcnt]
    simp
  · cases h

/-- `push_expected_blocking` -/
theorem progExpBl_eff (cfg : Cfg T) (c : Nat) (cc : ConnCfg T) (hcc : cfg.conn c = some cc) (p : Priv T) (v : QId → List (Val T))
    (ans : Ans T) (ext' : QId → Nat) (h : (progExpBl cfg c p).run v (fun _ => 0) = some (ans, ext')) :
    ∃ k ts, (v (.conn c .nextStep)).take 1 = [Val.tickTs k ts] ∧ min (ans.2.1 (.conn c .nextStep)) (ext' (.conn c .nextStep)) = 1 ∧
      ans.2.2 (.conn c .expSel) = [Val.sel ts (blCount cfg cc k)] := by
  unfold progExpBl at h
  simp only [hcc] at h
  obtain ⟨_, h1⟩ := Prog.run_take h
  split at h1
  · rename_i k ts heq
    have := Prog.run_done h1
    simp only [Prod.mk.injEq] at this
    obtain ⟨rfl, hE⟩ := this
    refine ⟨k, ts, heq, ?_, ?_⟩
    · dsimp only
      rw [popsOf_cons, popsOf_nil]
      have := bump_self (fun _ => 0) (QId.conn c .nextStep) 1
      rw [hE]
      simp; omega
    · dsimp only
      simp [appsOf_cons', appsOf_nil]
  · simp [Prog.run] at h1

/-- `push_selection`, everything it does to the queues of its connection -/
theorem progSelect_full (cfg : Cfg T) (c : Nat) (p : Priv T) (v : QId → List (Val T)) (ans : Ans T) (ext' : QId → Nat)
    (h : (progSelect cfg c p).run v (fun _ => 0) = some (ans, ext')) :
    ∃ t n, (v (.conn c .expSel)).take 1 = [Val.sel t n] ∧ min (ans.2.1 (.conn c .expSel)) (ext' (.conn c .expSel)) = 1 ∧
      n ≤ (v (.conn c .msgs)).length ∧ min (ans.2.1 (.conn c .msgs)) (ext' (.conn c .msgs)) = n ∧
      ans.2.2 (.conn c .record) = recsOf (Int.ofNat p.tick) ((v (.conn c .msgs)).take n) ∧ ans.1.tick = p.tick + 1 := by
  unfold progSelect at h
  cases hc : cfg.conn c with
  | none => simp [hc, Prog.run] at h
  | some cc =>
    simp only [hc] at h
    obtain ⟨_, h1⟩ := Prog.run_take h
    split at h1
    · rename_i t n heq
      obtain ⟨hn, h2⟩ := Prog.run_take h1
      have := Prog.run_done h2
      simp only [Prod.mk.injEq] at this
      obtain ⟨rfl, hE⟩ := this
      refine ⟨t, n, heq, ?_, hn, ?_, ?_, rfl⟩
      · dsimp only
        rw [popsOf_cons, popsOf_cons, popsOf_nil, hE]
        have h1 := bump_self (fun _ => 0) (QId.conn c .expSel) 1
        have h2 := le_bump (bump (fun _ => 0) (QId.conn c .expSel) 1) (QId.conn c .msgs) n (QId.conn c .expSel)
        simp; omega
      · dsimp only
        rw [popsOf_select_msgs, hE]
        have : n ≤ bump (bump (fun _ => 0) (QId.conn c .expSel) 1) (QId.conn c .msgs) n (QId.conn c .msgs) := by simp [bump]
        omega
      · dsimp only
        rw [appsOf_select_record]
        rfl
    · simp [Prog.run] at h1

-- ---------------------------------------------------------------------------------------------------------------
-- the machine preserves the invariant

def bcOf (cfg : Cfg T) (c : Nat) (s : MSt T) : BC T :=
  { next := s.q (.conn c .nextStep), sel := s.q (.conn c .expSel), rcd := s.q (.conn c .record), msgs := s.q (.conn c .msgs),
    tk := (s.priv (.sched (cfg.dst c))).tick, b := (s.priv (.select c)).tick }

/-- connection `c` is blocking and listed once among the blocking inputs of its receiver -/
structure WFBlocking (cfg : Cfg T) (c : Nat) (cc : ConnCfg T) (nc : NodeCfg T) : Prop where
  conn : cfg.conn c = some cc
  blocking : cfg.blocking c = true
  node : cfg.node (cfg.dst c) = some nc
  once : (nc.inputs.filter cfg.blocking).count c = 1

theorem binv_init (cfg : Cfg T) (c : Nat) (f : Int → Nat) : BInv f (bcOf cfg c (initState cfg)) := by
  have e : bcOf cfg c (initState cfg) = ({ next := [], sel := [], rcd := [], msgs := [], tk := 0, b := 0 } : BC T) := by
    simp only [bcOf, initState]
  rw [e]
  refine ⟨by simp [nextTicks], by simp [selCounts], by simp [nextTicks, selCounts], ?_, by intro v hv; cases hv⟩
  intro i; simp [cntIn]

theorem binv_fire (cfg : Cfg T) (c : Nat) (cc : ConnCfg T) (nc : NodeCfg T) (hwf : WFBlocking cfg c cc nc) (r : Rule) (s : MSt T)
    (hi : BInv (blCount cfg cc) (bcOf cfg c s)) : BInv (blCount cfg cc) (bcOf cfg c ((machine cfg).toNet.fire r s)) := by
  have hb := hwf.blocking
  have pN : (machine cfg).toNet.prod (.conn c .nextStep) = .sched (cfg.dst c) := by
    show prodOf cfg (.conn c .nextStep) = _; simp [prodOf, hb]
  have cN : (machine cfg).toNet.cons (.conn c .nextStep) = some (.expBl c) := by
    show consOf cfg (.conn c .nextStep) = _; simp [consOf, hb]
  have pS : (machine cfg).toNet.prod (.conn c .expSel) = .expBl c := by
    show prodOf cfg (.conn c .expSel) = _; simp [prodOf, hb]
  have cS : (machine cfg).toNet.cons (.conn c .expSel) = some (.select c) := rfl
  have pR : (machine cfg).toNet.prod (.conn c .record) = .select c := rfl
  have cR : (machine cfg).toNet.cons (.conn c .record) = none := rfl
  have pM : (machine cfg).toNet.prod (.conn c .msgs) = .zip c := rfl
  have cM : (machine cfg).toNet.cons (.conn c .msgs) = some (.select c) := rfl
  cases hs : (machine cfg).toNet.step r (s.priv r) ((machine cfg).toNet.view r s) with
  | none => rw [fire_none cfg r s hs]; exact hi
  | some res =>
    obtain ⟨ans, ext', hrun, hres⟩ := toNet_step_some (machine cfg) r _ _ res hs
    by_cases h1 : r = .sched (cfg.dst c)
    · subst h1
      have hrun' : (progSched cfg (cfg.dst c) (s.priv (.sched (cfg.dst c)))).run ((machine cfg).toNet.view (.sched (cfg.dst c)) s) (fun _ => 0) = some (ans, ext') := hrun
      obtain ⟨htick, ts, happ⟩ := progSched_next cfg (cfg.dst c) c nc hwf.node hwf.once _ _ ans ext' hrun'
      have e : bcOf cfg c ((machine cfg).toNet.fire (.sched (cfg.dst c)) s) =
          { bcOf cfg c s with next := (bcOf cfg c s).next ++ [Val.tickTs (Int.ofNat (bcOf cfg c s).tk) ts], tk := (bcOf cfg c s).tk + 1 } := by
        simp only [bcOf]
        rw [fire_q_eq cfg _ s _ res hs, fire_q_eq cfg _ s _ res hs, fire_q_eq cfg _ s _ res hs, fire_q_eq cfg _ s _ res hs,
            fire_priv_eq cfg _ s res hs, fire_priv_other (machine cfg).toNet (.sched (cfg.dst c)) (.select c) s (by simp)]
        subst hres
        simp only [pN, cN, pS, cS, pR, cR, pM, cM, Option.some.injEq, reduceCtorEq, if_false, if_true, List.drop_zero, List.append_nil, happ, htick]
      rw [e]
      exact hi.sched ts
    · by_cases h2 : r = .expBl c
      · subst h2
        have hrun' : (progExpBl cfg c (s.priv (.expBl c))).run ((machine cfg).toNet.view (.expBl c) s) (fun _ => 0) = some (ans, ext') := by
          have : (machine cfg).prog (.expBl c) (s.priv (.expBl c)) = progExpBl cfg c (s.priv (.expBl c)) := by
            show progOf cfg (.expBl c) _ = _; simp [progOf, hb]
          rw [← this]; exact hrun
        obtain ⟨k, ts, hhead, hpop, happ⟩ := progExpBl_eff cfg c cc hwf.conn _ _ ans ext' hrun'
        have hview : (machine cfg).toNet.view (.expBl c) s (.conn c .nextStep) = s.q (.conn c .nextStep) := by simp [Net.view, cN]
        rw [hview] at hhead
        have hsplit := take_one_eq _ _ hhead
        have e : bcOf cfg c ((machine cfg).toNet.fire (.expBl c) s) =
            { bcOf cfg c s with next := (s.q (.conn c .nextStep)).drop 1, sel := (bcOf cfg c s).sel ++ [Val.sel ts (blCount cfg cc k)] } := by
          simp only [bcOf]
          rw [fire_q_eq cfg _ s _ res hs, fire_q_eq cfg _ s _ res hs, fire_q_eq cfg _ s _ res hs, fire_q_eq cfg _ s _ res hs,
              fire_priv_other (machine cfg).toNet (.expBl c) (.sched (cfg.dst c)) s (by simp),
              fire_priv_other (machine cfg).toNet (.expBl c) (.select c) s (by simp)]
          subst hres
          simp only [pN, cN, pS, cS, pR, cR, pM, cM, Option.some.injEq, reduceCtorEq, if_false, if_true, List.drop_zero, List.append_nil, happ, hpop]
        rw [e]
        exact (hi.expBl k ts _ hsplit).2
      · by_cases h3 : r = .select c
        · subst h3
          have hrun' : (progSelect cfg c (s.priv (.select c))).run ((machine cfg).toNet.view (.select c) s) (fun _ => 0) = some (ans, ext') := hrun
          obtain ⟨t, n, hhead, hp1, hn, hp2, happ, htick⟩ := progSelect_full cfg c _ _ ans ext' hrun'
          have hv1 : (machine cfg).toNet.view (.select c) s (.conn c .expSel) = s.q (.conn c .expSel) := by simp [Net.view, cS]
          have hv2 : (machine cfg).toNet.view (.select c) s (.conn c .msgs) = s.q (.conn c .msgs) := by simp [Net.view, cM]
          rw [hv1] at hhead
          rw [hv2] at hn happ
          have hsplit := take_one_eq _ _ hhead
          have e : bcOf cfg c ((machine cfg).toNet.fire (.select c) s) =
              { bcOf cfg c s with sel := (s.q (.conn c .expSel)).drop 1, msgs := (bcOf cfg c s).msgs.drop n,
                                  rcd := (bcOf cfg c s).rcd ++ recsOf (Int.ofNat (bcOf cfg c s).b) ((bcOf cfg c s).msgs.take n), b := (bcOf cfg c s).b + 1 } := by
            simp only [bcOf]
            rw [fire_q_eq cfg _ s _ res hs, fire_q_eq cfg _ s _ res hs, fire_q_eq cfg _ s _ res hs, fire_q_eq cfg _ s _ res hs,
                fire_priv_eq cfg _ s res hs, fire_priv_other (machine cfg).toNet (.select c) (.sched (cfg.dst c)) s (by simp)]
            subst hres
            simp only [pN, cN, pS, cS, pR, cR, pM, cM, Option.some.injEq, reduceCtorEq, if_false, if_true, List.drop_zero, List.append_nil, happ, hp1, hp2, htick]
          rw [e]
          exact (hi.select t n _ hsplit hn).2
        · by_cases h4 : r = .zip c
          · subst h4
            have hrun' : (progZip c (s.priv (.zip c))).run ((machine cfg).toNet.view (.zip c) s) (fun _ => 0) = some (ans, ext') := hrun
            obtain ⟨seq, s0, data, d, _, _, _, _, happ⟩ := progZip_arr c _ _ ans ext' hrun'
            have e : bcOf cfg c ((machine cfg).toNet.fire (.zip c) s) =
                { bcOf cfg c s with msgs := (bcOf cfg c s).msgs ++ [Val.rmsg seq s0 (zip_recv_sc TimeLike.rnd s0 d) d data] } := by
              simp only [bcOf]
              rw [fire_q_eq cfg _ s _ res hs, fire_q_eq cfg _ s _ res hs, fire_q_eq cfg _ s _ res hs, fire_q_eq cfg _ s _ res hs,
                  fire_priv_other (machine cfg).toNet (.zip c) (.sched (cfg.dst c)) s (by simp),
                  fire_priv_other (machine cfg).toNet (.zip c) (.select c) s (by simp)]
              subst hres
              simp only [pN, cN, pS, cS, pR, cR, pM, cM, Option.some.injEq, reduceCtorEq, if_false, if_true, List.drop_zero, List.append_nil, happ]
            rw [e]
            exact hi.zip seq s0 _ d data
          · have e : bcOf cfg c ((machine cfg).toNet.fire r s) = bcOf cfg c s := by
              simp only [bcOf]
              rw [fire_q_other (machine cfg).toNet r s (.conn c .nextStep) (by rw [pN]; exact Ne.symm h1) (by rw [cN]; intro h; exact h2 (Option.some.inj h).symm),
                  fire_q_other (machine cfg).toNet r s (.conn c .expSel) (by rw [pS]; exact Ne.symm h2) (by rw [cS]; intro h; exact h3 (Option.some.inj h).symm),
                  fire_q_other (machine cfg).toNet r s (.conn c .record) (by rw [pR]; exact Ne.symm h3) (by rw [cR]; simp),
                  fire_q_other (machine cfg).toNet r s (.conn c .msgs) (by rw [pM]; exact Ne.symm h4) (by rw [cM]; intro h; exact h3 (Option.some.inj h).symm),
                  fire_priv_other (machine cfg).toNet r (.sched (cfg.dst c)) s (Ne.symm h1),
                  fire_priv_other (machine cfg).toNet r (.select c) s (Ne.symm h3)]
            rw [e]; exact hi

theorem binv_run (cfg : Cfg T) (c : Nat) (cc : ConnCfg T) (nc : NodeCfg T) (hwf : WFBlocking cfg c cc nc) {s : MSt T} {σ : List Rule}
    {s' : MSt T} (h : Run (machine cfg).toNet.sys s σ s') (hi : BInv (blCount cfg cc) (bcOf cfg c s)) :
    BInv (blCount cfg cc) (bcOf cfg c s') := by
  induction h with
  | nil _ => exact hi
  | cons _ _ ih => exact ih (binv_fire cfg c cc nc hwf _ _ hi)

end Rex.Async
