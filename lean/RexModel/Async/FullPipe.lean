import RexModel.Async.Ticks

/-! End-to-end exactly-once / in-order for a connection (C03), under every schedule: the messages of connection `c`,
read along its pipeline (recorded as consumed, arrived, waiting for their delay, just sent), carry exactly the
sequence numbers of the sender's recorded steps, in order. Together with `TickInv` these are `0, 1, 2, …`: no message is
lost, duplicated or reordered anywhere between the sender's step and the receiver's record. Core Lean only. -/

namespace Rex.Async

open Rex.Net Rex.Conf

variable {T : Type} [TimeLike T]

/-- sequence numbers of just-sent messages (`msg`) in a queue -/
def msgSeqs : List (Val T) → List Int
  | [] => []
  | .msg seq _ _ :: r => seq :: msgSeqs r
  | _ :: r => msgSeqs r

theorem msgSeqs_append (a b : List (Val T)) : msgSeqs (a ++ b) = msgSeqs a ++ msgSeqs b := by
  induction a with
  | nil => rfl
  | cons x a ih => cases x <;> simp [msgSeqs, ih]

/-- all messages of connection `c`, oldest first, wherever they are in the connection's pipeline -/
def fullPipe (c : Nat) (s : MSt T) : List Int :=
  seqsRec (s.q (.conn c .record)) ++ seqsOf (s.q (.conn c .msgs)) ++ msgSeqs (s.q (.conn c .zipMsgs)) ++ msgSeqs (s.q (.conn c .inMsg))

/-- the configuration lists connection `c` exactly once among the outputs of its sender -/
def WFConn (cfg : Cfg T) (c : Nat) : Prop :=
  ∃ nc, cfg.node (cfg.src c) = some nc ∧ nc.outputs.count c = 1

theorem appsOf_outputs (c : Nat) (outs : List Nat) (m : List (Val T)) :
    appsOf (outs.map fun c' => (QId.conn c' .inMsg, m)) (QId.conn c .inMsg) = (List.replicate (outs.count c) m).flatten := by
  induction outs with
  | nil => rfl
  | cons a outs ih =>
    simp only [List.map_cons]
    by_cases h : a = c
    · subst h
      rw [appsOf_cons_eq' , ih]
      simp [List.count_cons_self, List.replicate_succ]
    · rw [appsOf_cons_ne _ _ _ _ (by simp [h]), ih]
      simp [List.count_cons, h]
where
  appsOf_cons_eq' {q : QId} {x : List (Val T)} {l : List (QId × List (Val T))} : appsOf ((q, x) :: l) q = x ++ appsOf l q := by
    unfold appsOf
    simp only [List.filter_cons, beq_self_eq_true, if_true, List.foldl_cons, List.nil_append]
    have key : ∀ (l : List (QId × List (Val T))) (a : List (Val T)),
        List.foldl (fun a x => a ++ x.2) a l = a ++ List.foldl (fun a x => a ++ x.2) [] l := by
      intro l
      induction l with
      | nil => intro a; simp
      | cons y l ih => intro a; simp only [List.foldl_cons, List.nil_append]; rw [ih (a ++ y.2), ih y.2]; simp
    rw [key]

theorem finishStep_both (cfg : Cfg T) (n c : Nat) (nc : NodeCfg T) (hc : nc.outputs.count c = 1) (p : Priv T) (tick : Int) (a b : T)
    (hdr : StepHdr T) (sin : StepIn T) (o : StepOut) :
    msgSeqs ((finishStep cfg n nc p tick a b hdr sin (some o)).2.2 (.conn c .inMsg)) = [tick] := by
  simp only [finishStep]
  rw [List.cons_append, List.cons_append, List.nil_append, appsOf_cons_ne _ _ _ _ (by simp), appsOf_cons_ne _ _ _ _ (by simp),
      appsOf_outputs, hc]
  simp [msgSeqs]

/-- what a firing of `push_step` of the sender does to its record and to connection `c`, simultaneously -/
theorem progStep_both (cfg : Cfg T) (n c : Nat) (nc : NodeCfg T) (hnode : cfg.node n = some nc) (hc : nc.outputs.count c = 1)
    (p : Priv T) (v : QId → List (Val T)) (ans : Ans T) (ext' : QId → Nat)
    (h : (progStep cfg n p).run v (fun _ => 0) = some (ans, ext')) :
    msgSeqs (ans.2.2 (.conn c .inMsg)) = recTicks (ans.2.2 (.node n .record)) := by
  unfold progStep at h
  simp only [hnode] at h
  cases hp : p.pending with
  | some x =>
    obtain ⟨tick, tsStart, delay, hdr, sin⟩ := x
    simp only [hp] at h
    obtain ⟨_, h1⟩ := Prog.run_take h
    split at h1
    · rename_i o heq
      have := Prog.run_done h1
      simp only [Prod.mk.injEq] at this
      obtain ⟨rfl, rfl⟩ := this
      dsimp only
      rw [finishStep_both cfg n c nc hc, (finishStep_record cfg n nc p tick tsStart delay hdr sin o).1]
    · simp [Prog.run] at h1
  | none =>
    simp only [hp] at h
    obtain ⟨_, h1⟩ := Prog.run_take h
    obtain ⟨hg, e2, h2, _⟩ := takeHeads_run' _ _ _ _ _ h1
    split at h2
    · rename_i tick tsStart delay hdr heq
      by_cases hs : n = cfg.sup
      · subst hs
        simp only [if_true] at h2
        have := Prog.run_done h2
        simp only [Prod.mk.injEq] at this
        obtain ⟨rfl, rfl⟩ := this
        dsimp only
        rw [appsOf_cons_ne _ _ _ _ (by simp), appsOf_nil, appsOf_cons_ne _ _ _ _ (by simp), appsOf_nil]
        rfl
      · simp only [hs, if_false] at h2
        have := Prog.run_done h2
        simp only [Prod.mk.injEq] at this
        obtain ⟨rfl, rfl⟩ := this
        dsimp only
        rw [finishStep_both cfg n c nc hc, (finishStep_record cfg n nc _ tick tsStart delay hdr _ _).1]
    · simp [Prog.run] at h2

/-- `push_input`: moves the oldest just-sent message to the zip queue -/
theorem progInp_effect (c : Nat) (p : Priv T) (v : QId → List (Val T)) (ans : Ans T) (ext' : QId → Nat)
    (h : (progInp c p).run v (fun _ => 0) = some (ans, ext')) :
    min (ans.2.1 (.conn c .inMsg)) (ext' (.conn c .inMsg)) = 1 ∧ ans.2.2 (.conn c .zipMsgs) = (v (.conn c .inMsg)).take 1 ∧
      1 ≤ (v (.conn c .inMsg)).length := by
  unfold progInp at h
  obtain ⟨hlen, h1⟩ := Prog.run_take h
  have := Prog.run_done h1
  simp only [Prod.mk.injEq] at this
  obtain ⟨rfl, rfl⟩ := this
  refine ⟨?_, ?_, hlen⟩
  · dsimp only
    rw [popsOf_cons, popsOf_nil]
    have := bump_self (fun _ => 0) (QId.conn c .inMsg) 1
    simp; omega
  · dsimp only
    rw [appsOf_cons_eq _ _ _ (appsOf_nil _)]

/-- `push_zip`: moves the oldest zipped message to the arrived queue, keeping its sequence number -/
theorem progZip_effect' (c : Nat) (p : Priv T) (v : QId → List (Val T)) (ans : Ans T) (ext' : QId → Nat)
    (h : (progZip c p).run v (fun _ => 0) = some (ans, ext')) :
    ∃ seq sent data, (v (.conn c .zipMsgs)).take 1 = [Val.msg seq sent data] ∧
      min (ans.2.1 (.conn c .zipMsgs)) (ext' (.conn c .zipMsgs)) = 1 ∧ seqsOf (ans.2.2 (.conn c .msgs)) = [seq] := by
  unfold progZip at h
  obtain ⟨_, h1⟩ := Prog.run_take h
  obtain ⟨_, h2⟩ := Prog.run_take h1
  split at h2
  · rename_i seq sent data d heq1 heq2
    have := Prog.run_done h2
    simp only [Prod.mk.injEq] at this
    obtain ⟨rfl, rfl⟩ := this
    refine ⟨seq, sent, data, heq1, ?_, ?_⟩
    · dsimp only
      rw [popsOf_cons, popsOf_cons, popsOf_nil]
      have h1 := bump_self (fun _ => 0) (QId.conn c .zipMsgs) 1
      have h2 := le_bump (bump (fun _ => 0) (QId.conn c .zipMsgs) 1) (QId.conn c .zipDelay) 1 (QId.conn c .zipMsgs)
      simp; omega
    · dsimp only
      rw [appsOf_cons_eq _ _ _ (appsOf_nil _)]
      simp [seqsOf]
  · simp [Prog.run] at h2

/-- **Pipeline invariant**: the messages of connection `c` along its pipeline carry exactly the recorded ticks of the sender. -/
def PipeInv (cfg : Cfg T) (c : Nat) (s : MSt T) : Prop :=
  fullPipe c s = recTicks (s.q (.node (cfg.src c) .record))

theorem pipeInv_init (cfg : Cfg T) (c : Nat) : PipeInv cfg c (initState cfg) := by
  simp [PipeInv, fullPipe, initState, seqsRec, seqsOf, msgSeqs, recTicks]

theorem pipeInv_fire (cfg : Cfg T) (c : Nat) (hwf : WFConn cfg c) (r : Rule) (s : MSt T) (hi : PipeInv cfg c s) :
    PipeInv cfg c ((machine cfg).toNet.fire r s) := by
  obtain ⟨nc, hnode, hcount⟩ := hwf
  have cRec : (machine cfg).toNet.cons (.conn c .record) = none := rfl
  have pRec : (machine cfg).toNet.prod (.conn c .record) = .select c := rfl
  have cM : (machine cfg).toNet.cons (.conn c .msgs) = some (.select c) := rfl
  have pM : (machine cfg).toNet.prod (.conn c .msgs) = .zip c := rfl
  have cZ : (machine cfg).toNet.cons (.conn c .zipMsgs) = some (.zip c) := rfl
  have pZ : (machine cfg).toNet.prod (.conn c .zipMsgs) = .inp c := rfl
  have cI : (machine cfg).toNet.cons (.conn c .inMsg) = some (.inp c) := rfl
  have pI : (machine cfg).toNet.prod (.conn c .inMsg) = .step (cfg.src c) := rfl
  have cN : (machine cfg).toNet.cons (.node (cfg.src c) .record) = none := rfl
  have pN : (machine cfg).toNet.prod (.node (cfg.src c) .record) = .step (cfg.src c) := rfl
  unfold PipeInv at hi ⊢
  cases hs : (machine cfg).toNet.step r (s.priv r) ((machine cfg).toNet.view r s) with
  | none => rw [fire_none cfg r s hs]; exact hi
  | some res =>
    obtain ⟨ans, ext', hrun, hres⟩ := toNet_step_some (machine cfg) r _ _ res hs
    unfold fullPipe at hi ⊢
    rw [fire_q_eq cfg r s _ res hs, fire_q_eq cfg r s _ res hs, fire_q_eq cfg r s _ res hs, fire_q_eq cfg r s _ res hs, fire_q_eq cfg r s _ res hs]
    subst hres
    by_cases h1 : r = .select c
    · subst h1
      have hrun' : (progSelect cfg c (s.priv (.select c))).run ((machine cfg).toNet.view (.select c) s) (fun _ => 0) = some (ans, ext') := hrun
      obtain ⟨n, hn, hpop, hrec⟩ := progSelect_effect cfg c _ _ ans ext' hrun'
      have hview : (machine cfg).toNet.view (.select c) s (.conn c .msgs) = s.q (.conn c .msgs) := by simp [Net.view, cM]
      rw [hview] at hrec
      simp only [cRec, pRec, cM, pM, cZ, pZ, cI, pI, cN, pN, reduceCtorEq, if_false, if_true, List.drop_zero, List.append_nil, hpop, Option.some.injEq]
      rw [seqsRec_append, hrec, ← hi]
      have : seqsOf (List.take n (s.q (.conn c .msgs))) ++ seqsOf (List.drop n (s.q (.conn c .msgs))) = seqsOf (s.q (.conn c .msgs)) := by
        rw [← seqsOf_append, List.take_append_drop]
      simp only [List.append_assoc]
      rw [← List.append_assoc (seqsOf (List.take n _)), this]
    · by_cases h2 : r = .zip c
      · subst h2
        have hrun' : (progZip c (s.priv (.zip c))).run ((machine cfg).toNet.view (.zip c) s) (fun _ => 0) = some (ans, ext') := hrun
        obtain ⟨seq, sent, data, hhead, hpop, hq⟩ := progZip_effect' c _ _ ans ext' hrun'
        have hview : (machine cfg).toNet.view (.zip c) s (.conn c .zipMsgs) = s.q (.conn c .zipMsgs) := by simp [Net.view, cZ]
        rw [hview] at hhead
        have e : msgSeqs (s.q (.conn c .zipMsgs)) = seq :: msgSeqs ((s.q (.conn c .zipMsgs)).drop 1) := by
          have := congrArg msgSeqs (take_one_eq _ _ hhead)
          simpa [msgSeqs] using this
        simp only [cRec, pRec, cM, pM, cZ, pZ, cI, pI, cN, pN, reduceCtorEq, if_false, if_true, List.drop_zero, List.append_nil, hpop, Option.some.injEq,
          Rule.zip.injEq, Rule.select.injEq, Rule.inp.injEq, Rule.step.injEq]
        rw [seqsOf_append, hq, ← hi, e]
        simp [List.append_assoc]
      · by_cases h3 : r = .inp c
        · subst h3
          have hrun' : (progInp c (s.priv (.inp c))).run ((machine cfg).toNet.view (.inp c) s) (fun _ => 0) = some (ans, ext') := hrun
          obtain ⟨hpop, hq, hlen⟩ := progInp_effect c _ _ ans ext' hrun'
          have hview : (machine cfg).toNet.view (.inp c) s (.conn c .inMsg) = s.q (.conn c .inMsg) := by simp [Net.view, cI]
          rw [hview] at hq
          simp only [cRec, pRec, cM, pM, cZ, pZ, cI, pI, cN, pN, reduceCtorEq, if_false, if_true, List.drop_zero, List.append_nil, hpop, Option.some.injEq,
            Rule.zip.injEq, Rule.select.injEq, Rule.inp.injEq, Rule.step.injEq]
          rw [msgSeqs_append, hq, ← hi]
          have : msgSeqs (List.take 1 (s.q (.conn c .inMsg))) ++ msgSeqs (List.drop 1 (s.q (.conn c .inMsg))) = msgSeqs (s.q (.conn c .inMsg)) := by
            rw [← msgSeqs_append, List.take_append_drop]
          simp only [List.append_assoc]
          rw [this]
        · by_cases h4 : r = .step (cfg.src c)
          · subst h4
            have hrun' : (progStep cfg (cfg.src c) (s.priv (.step (cfg.src c)))).run ((machine cfg).toNet.view (.step (cfg.src c)) s) (fun _ => 0) = some (ans, ext') := hrun
            have hboth := progStep_both cfg (cfg.src c) c nc hnode hcount _ _ ans ext' hrun'
            simp only [cRec, pRec, cM, pM, cZ, pZ, cI, pI, cN, pN, reduceCtorEq, if_false, if_true, List.drop_zero, List.append_nil, Option.some.injEq,
              Rule.zip.injEq, Rule.select.injEq, Rule.inp.injEq, Rule.step.injEq]
            rw [msgSeqs_append, recTicks_append, hboth, ← hi]
            simp [List.append_assoc]
          · have e1 : ¬ (Rule.select c = r) := fun h => h1 h.symm
            have e2 : ¬ (Rule.zip c = r) := fun h => h2 h.symm
            have e3 : ¬ (Rule.inp c = r) := fun h => h3 h.symm
            have e4 : ¬ (Rule.step (cfg.src c) = r) := fun h => h4 h.symm
            simp only [cRec, pRec, cM, pM, cZ, pZ, cI, pI, cN, pN, reduceCtorEq, if_false, List.drop_zero, List.append_nil, Option.some.injEq, e1, e2, e3, e4]
            exact hi

theorem pipeInv_run (cfg : Cfg T) (c : Nat) (hwf : WFConn cfg c) {s : MSt T} {σ : List Rule} {s' : MSt T}
    (h : Run (machine cfg).toNet.sys s σ s') (hi : PipeInv cfg c s) : PipeInv cfg c s' := by
  induction h with
  | nil _ => exact hi
  | cons _ _ ih => exact ih (pipeInv_fire cfg c hwf _ _ hi)

end Rex.Async
