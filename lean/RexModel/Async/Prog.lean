import RexModel.Async.Net

/-! Reader programs: a rule body written as a `Prog` can only look at *needed prefixes* of its input queues
(`take q n`: the first `n` elements; `upto q pred`: the shortest prefix ending in an element that satisfies
`pred`). `Prog.run_stable`: every such program is stable under appends to the queues, by induction on the
program — so a network whose rules are `Prog`s satisfies `Net.Stable` by construction. -/

namespace Rex.Net

inductive Prog (Q V A : Type) where
  | done (a : A)
  | fail
  | take (q : Q) (n : Nat) (k : List V → Prog Q V A)
  | upto (q : Q) (pred : V → Bool) (k : List V → Prog Q V A)

variable {Q V A : Type} [DecidableEq Q]

def bump (ext : Q → Nat) (q : Q) (n : Nat) : Q → Nat := fun q' => if q' = q then max (ext q') n else ext q'

/-- index of the first element satisfying `pred` -/
def firstIdx (pred : V → Bool) : List V → Option Nat
  | [] => none
  | x :: xs => if pred x then some 0 else (firstIdx pred xs).map (· + 1)

def Prog.run : Prog Q V A → (Q → List V) → (Q → Nat) → Option (A × (Q → Nat))
  | .done a, _, ext => some (a, ext)
  | .fail, _, _ => none
  | .take q n k, v, ext =>
      if n ≤ (v q).length then (k ((v q).take n)).run v (bump ext q n) else none
  | .upto q pred k, v, ext =>
      match firstIdx pred (v q) with
      | some i => (k ((v q).take (i + 1))).run v (bump ext q (i + 1))
      | none => none

theorem firstIdx_lt (pred : V → Bool) : ∀ (l : List V) i, firstIdx pred l = some i → i < l.length
  | [], _, h => by simp [firstIdx] at h
  | x :: xs, i, h => by
      simp only [firstIdx] at h
      split at h
      · cases h; simp
      · cases h2 : firstIdx pred xs with
        | none => simp [h2] at h
        | some j =>
          simp [h2] at h; subst h
          have := firstIdx_lt pred xs j h2
          simp; omega

theorem firstIdx_append (pred : V → Bool) : ∀ (l t : List V) i, firstIdx pred l = some i →
    firstIdx pred (l ++ t) = some i
  | [], _, _, h => by simp [firstIdx] at h
  | x :: xs, t, i, h => by
      simp only [firstIdx, List.cons_append] at h ⊢
      split
      · rename_i hp; simp [hp] at h; exact congrArg some h
      · rename_i hp
        simp only [hp] at h
        cases h2 : firstIdx pred xs with
        | none => simp [h2] at h
        | some j =>
          simp [h2] at h
          rw [firstIdx_append pred xs t j h2]; simp [h]

theorem take_prefix {l l' : List V} (h : l <+: l') {n : Nat} (hn : n ≤ l.length) : l'.take n = l.take n := by
  obtain ⟨t, rfl⟩ := h
  exact List.take_append_of_le_length hn

/-- **Stability by construction.** -/
theorem Prog.run_stable : ∀ (p : Prog Q V A) (v v' : Q → List V) (ext : Q → Nat),
    (∀ q, v q <+: v' q) → ∀ res, p.run v ext = some res → p.run v' ext = some res
  | .done a, _, _, _, _, _, h => h
  | .fail, _, _, _, _, _, h => by simp [Prog.run] at h
  | .take q n k, v, v', ext, hp, res, h => by
      simp only [Prog.run] at h ⊢
      split at h
      · rename_i hn
        have hlen : n ≤ (v' q).length := Nat.le_trans hn (hp q).length_le
        rw [if_pos hlen, take_prefix (hp q) hn]
        exact Prog.run_stable (k ((v q).take n)) v v' _ hp res h
      · cases h
  | .upto q pred k, v, v', ext, hp, res, h => by
      simp only [Prog.run] at h ⊢
      cases hf : firstIdx pred (v q) with
      | none => rw [hf] at h; cases h
      | some i =>
        rw [hf] at h
        simp only at h
        obtain ⟨t, ht⟩ := hp q
        have hf' : firstIdx pred (v' q) = some i := by rw [← ht]; exact firstIdx_append pred _ t i hf
        rw [hf']
        simp only
        have hi := firstIdx_lt pred _ i hf
        rw [take_prefix (hp q) (by omega : i + 1 ≤ (v q).length)]
        exact Prog.run_stable (k ((v q).take (i + 1))) v v' _ hp res h

theorem bump_le (ext : Q → Nat) (v : Q → List V) (q : Q) (n : Nat) (hn : n ≤ (v q).length)
    (h : ∀ q', ext q' ≤ (v q').length) : ∀ q', bump ext q n q' ≤ (v q').length := by
  intro q'
  unfold bump
  split
  · rename_i e; subst e; exact Nat.max_le.mpr ⟨h _, hn⟩
  · exact h q'

/-- the extent a program has read never exceeds what was there -/
theorem Prog.run_extent : ∀ (p : Prog Q V A) (v : Q → List V) (ext : Q → Nat),
    (∀ q, ext q ≤ (v q).length) → ∀ res, p.run v ext = some res → ∀ q, res.2 q ≤ (v q).length
  | .done a, _, _, he, _, h => by cases h; exact he
  | .fail, _, _, _, _, h => by simp [Prog.run] at h
  | .take q n k, v, ext, he, res, h => by
      simp only [Prog.run] at h
      split at h
      · rename_i hn
        exact Prog.run_extent (k ((v q).take n)) v _ (bump_le ext v q n hn he) res h
      · cases h
  | .upto q pred k, v, ext, he, res, h => by
      simp only [Prog.run] at h
      cases hf : firstIdx pred (v q) with
      | none => rw [hf] at h; cases h
      | some i =>
        rw [hf] at h
        have hi := firstIdx_lt pred _ i hf
        exact Prog.run_extent (k ((v q).take (i + 1))) v _ (bump_le ext v q (i + 1) (by omega) he) res h

theorem le_bump (ext : Q → Nat) (q : Q) (n : Nat) (q' : Q) : ext q' ≤ bump ext q n q' := by
  unfold bump; split <;> omega

theorem bump_self (ext : Q → Nat) (q : Q) (n : Nat) : n ≤ bump ext q n q := by
  unfold bump; simp; omega

/-- the extent only grows while a program runs -/
theorem Prog.run_mono : ∀ (p : Prog Q V A) (v : Q → List V) (ext : Q → Nat) res,
    p.run v ext = some res → ∀ q, ext q ≤ res.2 q
  | .done a, _, _, _, h => by cases h; intro q; exact Nat.le_refl _
  | .fail, _, _, _, h => by simp [Prog.run] at h
  | .take q n k, v, ext, res, h => by
      simp only [Prog.run] at h
      split at h
      · intro q'
        exact Nat.le_trans (le_bump ext q n q') (Prog.run_mono (k ((v q).take n)) v _ res h q')
      · cases h
  | .upto q pred k, v, ext, res, h => by
      simp only [Prog.run] at h
      cases hf : firstIdx pred (v q) with
      | none => rw [hf] at h; cases h
      | some i =>
        rw [hf] at h
        intro q'
        exact Nat.le_trans (le_bump ext q (i + 1) q') (Prog.run_mono (k ((v q).take (i + 1))) v _ res h q')

/-- inversion of a successful `take` -/
theorem Prog.run_take {q : Q} {n : Nat} {k : List V → Prog Q V A} {v : Q → List V} {ext : Q → Nat} {r : A × (Q → Nat)}
    (h : (Prog.take q n k).run v ext = some r) :
    n ≤ (v q).length ∧ (k ((v q).take n)).run v (bump ext q n) = some r := by
  simp only [Prog.run] at h
  split at h
  · rename_i hn; exact ⟨hn, h⟩
  · cases h

theorem Prog.run_done {a : A} {v : Q → List V} {ext : Q → Nat} {r : A × (Q → Nat)}
    (h : (Prog.done a : Prog Q V A).run v ext = some r) : r = (a, ext) := by
  simp only [Prog.run, Option.some.injEq] at h; exact h.symm

/-- A network given by reader programs. The answer of a program is (new private state, pops, appends); pops are
capped by what the program actually read. -/
structure PNet (Q R V P : Type) where
  prod : Q → R
  cons : Q → Option R
  prog : R → P → Prog Q V (P × (Q → Nat) × (Q → List V))

def PNet.toNet {R P : Type} (N : PNet Q R V P) : Net Q R V P :=
  { prod := N.prod, cons := N.cons
    step := fun r p v =>
      match (N.prog r p).run v (fun _ => 0) with
      | none => none
      | some (res, ext) => some (res.1, (fun q => min (res.2.1 q) (ext q)), res.2.2) }

theorem PNet.stable {R P : Type} (N : PNet Q R V P) : N.toNet.Stable := by
  constructor
  · intro r p v v' hp res h
    simp only [PNet.toNet] at h ⊢
    cases hr : (N.prog r p).run v (fun _ => 0) with
    | none => rw [hr] at h; cases h
    | some x =>
      rw [hr] at h
      rw [Prog.run_stable (N.prog r p) v v' _ hp x hr]
      exact h
  · intro r p v res h q
    simp only [PNet.toNet] at h
    cases hr : (N.prog r p).run v (fun _ => 0) with
    | none => rw [hr] at h; cases h
    | some x =>
      rw [hr] at h
      cases h
      have := Prog.run_extent (N.prog r p) v (fun _ => 0) (fun _ => Nat.zero_le _) x hr q
      exact Nat.le_trans (Nat.min_le_right _ _) this

end Rex.Net
