import RexModel.Async.Chain
import RexModel.Async.FullPipe

/-! The arrival law of a connection, under every schedule (C03 FIFO / causality, C04 arrival law). Core Lean only.

Reading the messages of connection `c` along its pipeline — recorded as consumed, arrived, waiting to be zipped with their sampled
delay, just sent, and (not sent yet) the sender's steps whose start has been computed — gives one list of send times. The invariant
`ArrInv` says that the delays stored along the pipeline are exactly those of the arrival recurrence
`recv_k = recv_sc rnd sent_k (commDelay k) recv_{k-1}` over these send times, that `push_ts_input` has processed a leading part of
them, and that every arrived or recorded message carries `zip_recv_sc rnd sent delay` as its receive time. -/

namespace Rex.Async

open Rex.Net Rex.Conf Rex.Gen.Async

variable {T : Type} [TimeLike T]

-- ---------------------------------------------------------------------------------------------------------------
-- projections of the queue contents

def sentRec : Val T → Option T | .msgRec r => some r.tsSent | _ => none
def sentRmsg : Val T → Option T | .rmsg _ s _ _ _ => some s | _ => none
def sentMsg : Val T → Option T | .msg _ s _ => some s | _ => none
def sentTs : Val T → Option T | .tickTs _ t => some t | _ => none
def delayRec : Val T → Option T | .msgRec r => some r.delay | _ => none
def delayRmsg : Val T → Option T | .rmsg _ _ _ d _ => some d | _ => none
def delayTime : Val T → Option T | .time d => some d | _ => none
def recvRec : Val T → Option T | .msgRec r => some r.tsRecv | _ => none

/-- the part of the machine state the arrival law of a connection talks about -/
structure AC (T : Type) where
  rcd : List (Val T)        -- recorded as consumed
  msgs : List (Val T)       -- arrived, not yet consumed
  zm : List (Val T)         -- waiting to be zipped with their delay
  im : List (Val T)         -- just sent
  zd : List (Val T)         -- sampled delays waiting for their message
  inTs : List (Val T)       -- announced end times `push_ts_input` has not processed yet
  start : List (Val T)      -- the sender's steps with a computed start
  pend : Option (Int × T × T × StepHdr T × StepIn T)   -- the supervisor's step waiting for the user's action
  idx : Nat                 -- `push_ts_input`: next sample index
  prev : T                  -- `push_ts_input`: previous receive time

def pendL (o : Option (Int × T × T × StepHdr T × StepIn T)) : List (StepT T) :=
  match o with | some x => [⟨x.1, x.2.1, x.2.2.1, x.2.2.2.1⟩] | none => []

theorem pendLine_eq (p : Priv T) : pendLine p = pendL p.pending := rfl

def endT (x : StepT T) : T := ts_end_sc x.tsStart x.delay

/-- send times of the sender's steps whose messages have not been sent yet (pending + start computed) -/
def AC.nodeSents (a : AC T) : List T := (pendL a.pend ++ startLine a.start).map endT

/-- send times of the messages that have arrived (recorded or waiting to be consumed) -/
def AC.sents1 (a : AC T) : List T := a.rcd.filterMap sentRec ++ a.msgs.filterMap sentRmsg

/-- send times of the messages still on their way, oldest first -/
def AC.sents2 (a : AC T) : List T := a.zm.filterMap sentMsg ++ a.im.filterMap sentMsg ++ a.nodeSents

/-- the communication delays stored along the pipeline, oldest first -/
def AC.delays (a : AC T) : List T := a.rcd.filterMap delayRec ++ a.msgs.filterMap delayRmsg ++ a.zd.filterMap delayTime

/-- how many messages on their way already have their delay -/
def AC.nWaiting (a : AC T) : Nat := (a.zd.filterMap delayTime).length

/-- send times `push_ts_input` has processed -/
def AC.processed (a : AC T) : List T := a.sents1 ++ a.sents2.take a.nWaiting

/-- the arrival recurrence: receive times of consecutive messages (sample index `i`, previous receive time `prev`) -/
def recvChain (cd : Nat → T) : Nat → T → List T → List T
  | _, _, [] => []
  | i, prev, s :: r => recv_sc TimeLike.rnd s (cd i) prev :: recvChain cd (i + 1) (recv_sc TimeLike.rnd s (cd i) prev) r

def lastOr (d : T) (l : List T) : T := l.getLast?.getD d

theorem recvChain_length (cd : Nat → T) (i : Nat) (prev : T) (l : List T) : (recvChain cd i prev l).length = l.length := by
  induction l generalizing i prev with
  | nil => rfl
  | cons s r ih => simp [recvChain, ih]

theorem recvChain_append (cd : Nat → T) (i : Nat) (prev : T) (a b : List T) :
    recvChain cd i prev (a ++ b) = recvChain cd i prev a ++ recvChain cd (i + a.length) (lastOr prev (recvChain cd i prev a)) b := by
  induction a generalizing i prev with
  | nil => simp [recvChain, lastOr]
  | cons s r ih =>
    simp only [List.cons_append, recvChain, List.length_cons]
    rw [ih]
    have e1 : i + 1 + r.length = i + (r.length + 1) := by omega
    have e2 : lastOr (recv_sc TimeLike.rnd s (cd i) prev) (recvChain cd (i + 1) (recv_sc TimeLike.rnd s (cd i) prev) r)
        = lastOr prev (recv_sc TimeLike.rnd s (cd i) prev :: recvChain cd (i + 1) (recv_sc TimeLike.rnd s (cd i) prev) r) := by
      cases hr : recvChain cd (i + 1) (recv_sc TimeLike.rnd s (cd i) prev) r with
      | nil => simp [lastOr]
      | cons x xs =>
        simp only [lastOr, List.getLast?_cons_cons]
        rw [List.getLast?_eq_some_getLast (List.cons_ne_nil x xs)]
        rfl
    rw [e1, e2]

/-- what an arrived or recorded message says about its receive time -/
def WfArr : Val T → Prop
  | .rmsg _ s r d _ => r = zip_recv_sc TimeLike.rnd s d
  | .msgRec m => m.tsRecv = zip_recv_sc TimeLike.rnd m.tsSent m.delay
  | _ => True

/-- **Arrival invariant** (on the components; `cd`: the connection's sampled delays) -/
structure AInv (cd : Nat → T) (a : AC T) : Prop where
  le : a.nWaiting ≤ a.sents2.length
  inTs : a.inTs.filterMap sentTs = a.sents2.drop a.nWaiting
  dl : a.delays = List.zipWith delay_sc (recvChain cd 0 zeroT a.processed) a.processed
  idx : a.idx = a.processed.length
  prev : a.prev = lastOr zeroT (recvChain cd 0 zeroT a.processed)
  wfM : ∀ v ∈ a.msgs, WfArr v
  wfR : ∀ v ∈ a.rcd, WfArr v

/-- the components of connection `c` in a machine state -/
def acOf (cfg : Cfg T) (c : Nat) (s : MSt T) : AC T :=
  { rcd := s.q (.conn c .record), msgs := s.q (.conn c .msgs), zm := s.q (.conn c .zipMsgs), im := s.q (.conn c .inMsg),
    zd := s.q (.conn c .zipDelay), inTs := s.q (.conn c .inTs), start := s.q (.node (cfg.src c) .start),
    pend := (s.priv (.step (cfg.src c))).pending, idx := (s.priv (.tsIn c)).sampleIdx, prev := (s.priv (.tsIn c)).prevRecv }

/-- **Arrival invariant** of connection `c` (with configuration `cc`). -/
def ArrInv (cfg : Cfg T) (c : Nat) (cc : ConnCfg T) (s : MSt T) : Prop := AInv cc.commDelay (acOf cfg c s)

theorem arrInv_init (cfg : Cfg T) (c : Nat) (cc : ConnCfg T) : ArrInv cfg c cc (initState cfg) := by
  have ea : acOf cfg c (initState cfg) =
      ({ rcd := [], msgs := [], zm := [], im := [], zd := [], inTs := [], start := [], pend := none, idx := 0, prev := zeroT } : AC T) := by
    simp only [acOf, initState]
    cases cfg.node (cfg.src c) <;> rfl
  unfold ArrInv
  rw [ea]
  refine ⟨?_, ?_, ?_, ?_, ?_, ?_, ?_⟩ <;>
    simp [AC.nWaiting, AC.sents2, AC.nodeSents, AC.delays, AC.processed, AC.sents1, pendL, startLine, recvChain, lastOr]

-- ---------------------------------------------------------------------------------------------------------------
-- effects of the rules

theorem appsOf_cons' (q q' : QId) (x : List (Val T)) (l : List (QId × List (Val T))) :
    appsOf ((q', x) :: l) q = (if q' == q then x else []) ++ appsOf l q := by
  unfold appsOf
  simp only [List.filter_cons]
  have key : ∀ (l : List (QId × List (Val T))) (a : List (Val T)),
      List.foldl (fun a x => a ++ x.2) a l = a ++ List.foldl (fun a x => a ++ x.2) [] l := by
    intro l
    induction l with
    | nil => intro a; simp
    | cons y l ih => intro a; simp only [List.foldl_cons, List.nil_append]; rw [ih (a ++ y.2), ih y.2]; simp
  split
  · simp only [List.foldl_cons, List.nil_append]; rw [key]
  · simp

theorem appsOf_map_kind (c : Nat) (k k' : Qc) (outs : List Nat) (m : List (Val T)) :
    appsOf (outs.map fun c' => (QId.conn c' k', m)) (QId.conn c k) = if k' = k then (List.replicate (outs.count c) m).flatten else [] := by
  induction outs with
  | nil => simp [appsOf_nil]
  | cons a outs ih =>
    simp only [List.map_cons, appsOf_cons', ih]
    by_cases hk : k' = k
    · subst hk
      by_cases h : a = c
      · subst h; simp [List.count_cons_self, List.replicate_succ]
      · have : (QId.conn a k' == QId.conn c k') = false := by simp [h]
        simp [this, List.count_cons, h]
    · have : (QId.conn a k' == QId.conn c k) = false := by simp [hk]
      simp [this, hk]

/-- `push_ts_input`: samples the next delay, computes the receive time from the previous one -/
theorem progTsIn_arr (cfg : Cfg T) (c : Nat) (cc : ConnCfg T) (hc : cfg.conn c = some cc) (p : Priv T) (v : QId → List (Val T))
    (ans : Ans T) (ext' : QId → Nat) (h : (progTsIn cfg c p).run v (fun _ => 0) = some (ans, ext')) :
    ∃ seq s, (v (.conn c .inTs)).take 1 = [Val.tickTs seq s] ∧ min (ans.2.1 (.conn c .inTs)) (ext' (.conn c .inTs)) = 1 ∧
      ans.2.2 (.conn c .zipDelay) = [Val.time (delay_sc (recv_sc TimeLike.rnd s (cc.commDelay p.sampleIdx) p.prevRecv) s)] ∧
      ans.1.prevRecv = recv_sc TimeLike.rnd s (cc.commDelay p.sampleIdx) p.prevRecv ∧ ans.1.sampleIdx = p.sampleIdx + 1 := by
  unfold progTsIn at h
  simp only [hc] at h
  obtain ⟨_, h1⟩ := Prog.run_take h
  split at h1
  · rename_i seq sent heq
    have := Prog.run_done h1
    simp only [Prod.mk.injEq] at this
    obtain ⟨rfl, rfl⟩ := this
    refine ⟨seq, sent, heq, ?_, ?_, rfl, rfl⟩
    · dsimp only
      rw [popsOf_cons, popsOf_nil]
      have := bump_self (fun _ => 0) (QId.conn c .inTs) 1
      simp; omega
    · dsimp only
      simp [appsOf_cons', appsOf_nil]
  · simp [Prog.run] at h1

/-- `push_zip`: joins the oldest message with the oldest delay -/
theorem progZip_arr (c : Nat) (p : Priv T) (v : QId → List (Val T)) (ans : Ans T) (ext' : QId → Nat)
    (h : (progZip c p).run v (fun _ => 0) = some (ans, ext')) :
    ∃ seq s data d, (v (.conn c .zipMsgs)).take 1 = [Val.msg seq s data] ∧ (v (.conn c .zipDelay)).take 1 = [Val.time d] ∧
      min (ans.2.1 (.conn c .zipMsgs)) (ext' (.conn c .zipMsgs)) = 1 ∧ min (ans.2.1 (.conn c .zipDelay)) (ext' (.conn c .zipDelay)) = 1 ∧
      ans.2.2 (.conn c .msgs) = [Val.rmsg seq s (zip_recv_sc TimeLike.rnd s d) d data] := by
  unfold progZip at h
  obtain ⟨_, h1⟩ := Prog.run_take h
  obtain ⟨_, h2⟩ := Prog.run_take h1
  split at h2
  · rename_i seq sent data d heq1 heq2
    have := Prog.run_done h2
    simp only [Prod.mk.injEq] at this
    obtain ⟨rfl, rfl⟩ := this
    refine ⟨seq, sent, data, d, heq1, heq2, ?_, ?_, ?_⟩
    · dsimp only
      rw [popsOf_cons, popsOf_cons, popsOf_nil]
      have h1 := bump_self (fun _ => 0) (QId.conn c .zipMsgs) 1
      have h2 := le_bump (bump (fun _ => 0) (QId.conn c .zipMsgs) 1) (QId.conn c .zipDelay) 1 (QId.conn c .zipMsgs)
      simp; omega
    · dsimp only
      rw [popsOf_cons, popsOf_cons, popsOf_nil]
      have h2 := bump_self (bump (fun _ => 0) (QId.conn c .zipMsgs) 1) (QId.conn c .zipDelay) 1
      simp; omega
    · dsimp only
      simp [appsOf_cons', appsOf_nil]
  · simp [Prog.run] at h2

theorem filterMap_recsOf_sent (tick : Int) (ms : List (Val T)) : (recsOf tick ms).filterMap sentRec = ms.filterMap sentRmsg := by
  induction ms with
  | nil => rfl
  | cons x ms ih => cases x <;> simp [recsOf, sentRec, sentRmsg, ih, List.filterMap_cons]

theorem filterMap_recsOf_delay (tick : Int) (ms : List (Val T)) : (recsOf tick ms).filterMap delayRec = ms.filterMap delayRmsg := by
  induction ms with
  | nil => rfl
  | cons x ms ih => cases x <;> simp [recsOf, delayRec, delayRmsg, ih, List.filterMap_cons]

theorem wfArr_recsOf (tick : Int) (ms : List (Val T)) (h : ∀ v ∈ ms, WfArr v) : ∀ v ∈ recsOf tick ms, WfArr v := by
  induction ms with
  | nil => intro v hv; cases hv
  | cons x ms ih =>
    have hx := h x List.mem_cons_self
    have hr := ih (fun v hv => h v (List.mem_cons_of_mem _ hv))
    cases x <;> simp only [recsOf] <;> try exact hr
    intro v hv
    rcases List.mem_cons.mp hv with rfl | hv
    · exact hx
    · exact hr v hv

/-- `push_selection`: records exactly the `n` oldest arrived messages -/
theorem progSelect_arr (cfg : Cfg T) (c : Nat) (p : Priv T) (v : QId → List (Val T)) (ans : Ans T) (ext' : QId → Nat)
    (h : (progSelect cfg c p).run v (fun _ => 0) = some (ans, ext')) :
    ∃ n tick, n ≤ (v (.conn c .msgs)).length ∧ min (ans.2.1 (.conn c .msgs)) (ext' (.conn c .msgs)) = n ∧
      ans.2.2 (.conn c .record) = recsOf tick ((v (.conn c .msgs)).take n) := by
  unfold progSelect at h
  cases hc : cfg.conn c with
  | none => simp [hc, Prog.run] at h
  | some cc =>
    simp only [hc, Prog.run] at h
    split at h
    · split at h
      · rename_i t n heq
        simp only [Prog.run] at h
        split at h
        · rename_i hn
          simp only [Prog.run, Option.some.injEq, Prod.mk.injEq] at h
          obtain ⟨rfl, rfl⟩ := h
          refine ⟨n, (p.tick : Int), hn, ?_, ?_⟩
          · simp only [popsOf_select_msgs]
            have : n ≤ bump (bump (fun _ => 0) (QId.conn c .expSel) 1) (QId.conn c .msgs) n (QId.conn c .msgs) := by
              simp [bump]
            omega
          · simp only [appsOf_select_record]
        · cases h
      · simp [Prog.run] at h
    · cases h

theorem appsOf_append' (q : QId) (a b : List (QId × List (Val T))) : appsOf (a ++ b) q = appsOf a q ++ appsOf b q := by
  induction a with
  | nil => simp [appsOf_nil]
  | cons x a ih => obtain ⟨q', y⟩ := x; simp only [List.cons_append, appsOf_cons', ih, List.append_assoc]

theorem shift_apps_start (n : Nat) (X Y : Val T) (outs nblk : List Nat) (m1 m2 : List (Val T)) :
    appsOf ([(QId.node n .start, [X]), (QId.node n .endPrev, [Y])] ++ (outs.map fun c => (QId.conn c .inTs, m1))
      ++ (nblk.map fun c => (QId.conn c .nextStep, m2))) (QId.node n .start) = [X] := by
  rw [List.append_assoc, appsOf_append_nil, appsOf_cons_eq]
  · rw [appsOf_cons_ne _ _ _ _ (by simp), appsOf_nil]
  · rw [appsOf_append_nil]
    · exact appsOf_map_conn _ (by intro c k; simp) _ _ (fun c => ⟨.inTs, rfl⟩)
    · exact appsOf_map_conn _ (by intro c k; simp) _ _ (fun c => ⟨.nextStep, rfl⟩)

theorem shift_apps_inTs (n c : Nat) (X Y : Val T) (outs nblk : List Nat) (m1 m2 : List (Val T)) (hc : outs.count c = 1) :
    appsOf ([(QId.node n .start, [X]), (QId.node n .endPrev, [Y])] ++ (outs.map fun c => (QId.conn c .inTs, m1))
      ++ (nblk.map fun c => (QId.conn c .nextStep, m2))) (QId.conn c .inTs) = m1 := by
  simp only [appsOf_append', appsOf_cons', appsOf_nil, appsOf_map_kind, hc]
  simp

/-- `push_phase_shift` of the sender: the step whose start it computes is announced to connection `c` with its end time -/
theorem progShift_arr (cfg : Cfg T) (n c : Nat) (nc : NodeCfg T) (hnode : cfg.node n = some nc) (hc : nc.outputs.count c = 1)
    (p : Priv T) (v : QId → List (Val T)) (ans : Ans T) (ext' : QId → Nat)
    (h : (progShift cfg n p).run v (fun _ => 0) = some (ans, ext')) :
    ∃ x : StepT T, startLine (ans.2.2 (.node n .start)) = [x] ∧
      (ans.2.2 (.conn c .inTs)).filterMap sentTs = [ts_output x.tsStart x.delay] := by
  unfold progShift at h
  simp only [hnode] at h
  obtain ⟨_, h1⟩ := Prog.run_take h
  obtain ⟨_, h2⟩ := Prog.run_take h1
  obtain ⟨hm, e3, h3, _⟩ := takeHeads_run' _ _ _ _ _ h2
  split at h3
  · rename_i tick tsSched tsEndPrev heq1 heq2
    have := Prog.run_done h3
    simp only [Prod.mk.injEq] at this
    obtain ⟨rfl, rfl⟩ := this
    refine ⟨⟨tick, ?a, ?b, ?hh⟩, ?g1, ?g2⟩
    case g1 =>
      dsimp only
      rw [shift_apps_start]
      rfl
    case g2 =>
      dsimp only
      rw [shift_apps_inTs _ _ _ _ _ _ _ _ hc]
      rfl
  · simp [Prog.run] at h3

theorem finishStep_inMsg (cfg : Cfg T) (n c : Nat) (nc : NodeCfg T) (hc : nc.outputs.count c = 1) (p : Priv T) (tick : Int) (a b : T)
    (hdr : StepHdr T) (sin : StepIn T) (o : StepOut) :
    ((finishStep cfg n nc p tick a b hdr sin (some o)).2.2 (.conn c .inMsg)).filterMap sentMsg = [ts_end_sc a b] := by
  simp only [finishStep]
  simp only [appsOf_append', appsOf_cons', appsOf_nil, appsOf_map_kind, hc]
  simp [sentMsg]

/-- `push_step` of the sender keeps the send times of connection `c` in order: the step it runs moves from the node's own line to
the just-sent messages, with its end time as send time -/
theorem progStep_sents (cfg : Cfg T) (n c : Nat) (nc : NodeCfg T) (hnode : cfg.node n = some nc) (hc : nc.outputs.count c = 1)
    (p : Priv T) (v : QId → List (Val T)) (ans : Ans T) (ext' : QId → Nat)
    (h : (progStep cfg n p).run v (fun _ => 0) = some (ans, ext')) :
    (pendLine p ++ startLine (v (.node n .start))).map (fun x => ts_end_sc x.tsStart x.delay)
      = (ans.2.2 (.conn c .inMsg)).filterMap sentMsg ++
        (pendLine ans.1 ++ startLine ((v (.node n .start)).drop (min (ans.2.1 (.node n .start)) (ext' (.node n .start))))).map
          (fun x => ts_end_sc x.tsStart x.delay) := by
  unfold progStep at h
  simp only [hnode] at h
  cases hp : p.pending with
  | some x =>
    obtain ⟨tick, tsStart, delay, hdr, sin⟩ := x
    simp only [hp] at h
    obtain ⟨_, h1⟩ := Prog.run_take h
    split at h1
    · rename_i o heq
      have := Prog.run_done h1
      simp only [Prod.mk.injEq] at this
      obtain ⟨rfl, _⟩ := this
      dsimp only
      rw [finishStep_inMsg cfg n c nc hc]
      have e0 : min (popsOf [(QId.node n Qn.act, 1)] (QId.node n Qn.start)) (ext' (QId.node n Qn.start)) = 0 := by
        rw [popsOf_cons, popsOf_nil]; simp
      rw [e0]
      simp only [pendLine, hp, (finishStep_record cfg n nc p tick tsStart delay hdr sin o).2, List.drop_zero, List.nil_append,
        List.cons_append, List.map_cons]
    · simp [Prog.run] at h1
  | none =>
    simp only [hp] at h
    obtain ⟨_, h1⟩ := Prog.run_take h
    obtain ⟨hg, e2, h2, hle2⟩ := takeHeads_run' _ _ _ _ _ h1
    have hext : 1 ≤ e2 (.node n .start) := Nat.le_trans (bump_self (fun _ => 0) (QId.node n .start) 1) (hle2 _)
    split at h2
    · rename_i tick tsStart delay hdr heq
      have hsplit := take_one_eq _ _ heq
      have e : startLine (v (.node n .start)) = ⟨tick, tsStart, delay, hdr⟩ :: startLine ((v (.node n .start)).drop 1) := by
        have := congrArg startLine hsplit
        simpa [startLine] using this
      by_cases hs : n = cfg.sup
      · subst hs
        simp only [if_true] at h2
        have := Prog.run_done h2
        simp only [Prod.mk.injEq] at this
        obtain ⟨rfl, hE⟩ := this
        dsimp only
        have e1 : min (popsOf ((QId.node cfg.sup Qn.start, 1) :: List.map (fun c => (QId.conn c Qc.grouped, 1)) nc.inputs) (QId.node cfg.sup Qn.start))
            (ext' (QId.node cfg.sup Qn.start)) = 1 := by
          rw [popsOf_cons, popsOf_map_conn _ (by intro c k; simp) _ _ (fun c => ⟨.grouped, rfl⟩)]
          rw [← hE] at hext
          simp; omega
        rw [e1, e]
        simp [pendLine, hp, appsOf_cons', appsOf_nil]
      · simp only [hs, if_false] at h2
        have := Prog.run_done h2
        simp only [Prod.mk.injEq] at this
        obtain ⟨rfl, hE⟩ := this
        dsimp only
        have e1 : min (popsOf ((QId.node n Qn.start, 1) :: List.map (fun c => (QId.conn c Qc.grouped, 1)) nc.inputs) (QId.node n Qn.start))
            (ext' (QId.node n Qn.start)) = 1 := by
          rw [popsOf_cons, popsOf_map_conn _ (by intro c k; simp) _ _ (fun c => ⟨.grouped, rfl⟩)]
          rw [← hE] at hext
          simp; omega
        rw [e1, e, finishStep_inMsg cfg n c nc hc]
        simp only [pendLine, hp, (finishStep_record cfg n nc _ tick tsStart delay hdr _ _).2, List.nil_append, List.map_cons,
          List.cons_append]
    · simp [Prog.run] at h2

-- ---------------------------------------------------------------------------------------------------------------
-- list facts

theorem take_succ_of_drop {β : Type} (l : List β) (m : Nat) (x : β) (tl : List β) (h : l.drop m = x :: tl) :
    l.take (m + 1) = l.take m ++ [x] ∧ l.drop (m + 1) = tl ∧ m < l.length := by
  induction l generalizing m with
  | nil => simp at h
  | cons a l ih =>
    cases m with
    | zero => simp at h; obtain ⟨rfl, rfl⟩ := h; simp
    | succ m =>
      simp only [List.drop_succ_cons] at h
      obtain ⟨h1, h2, h3⟩ := ih m h
      refine ⟨?_, ?_, ?_⟩
      · simp only [List.take_succ_cons, h1, List.cons_append]
      · simpa using h2
      · simp; omega

theorem lastOr_append_one (d x : T) (l : List T) : lastOr d (l ++ [x]) = x := by simp [lastOr]

-- ---------------------------------------------------------------------------------------------------------------
-- the invariant is preserved by each kind of transition (on the components)

variable {cd : Nat → T}

/-- `push_ts_input` processes the oldest announced end time -/
theorem AInv.tsIn {a : AC T} (hi : AInv cd a) (seq : Int) (s0 : T) (tl : List (Val T)) (h : a.inTs = Val.tickTs seq s0 :: tl) :
    AInv cd { a with inTs := tl, zd := a.zd ++ [Val.time (delay_sc (recv_sc TimeLike.rnd s0 (cd a.idx) a.prev) s0)], idx := a.idx + 1, prev := recv_sc TimeLike.rnd s0 (cd a.idx) a.prev } := by
  have hin := hi.inTs
  rw [h] at hin
  simp only [List.filterMap_cons, sentTs] at hin
  obtain ⟨ht, hd, hlt⟩ := take_succ_of_drop _ _ _ _ hin.symm
  have eW : ({ a with inTs := tl, zd := a.zd ++ [Val.time (delay_sc (recv_sc TimeLike.rnd s0 (cd a.idx) a.prev) s0)], idx := a.idx + 1, prev := recv_sc TimeLike.rnd s0 (cd a.idx) a.prev } : AC T).nWaiting = a.nWaiting + 1 := by
    simp [AC.nWaiting, delayTime]
  have eP : ({ a with inTs := tl, zd := a.zd ++ [Val.time (delay_sc (recv_sc TimeLike.rnd s0 (cd a.idx) a.prev) s0)], idx := a.idx + 1, prev := recv_sc TimeLike.rnd s0 (cd a.idx) a.prev } : AC T).processed = a.processed ++ [s0] := by
    simp only [AC.processed, eW]
    show a.sents1 ++ a.sents2.take (a.nWaiting + 1) = a.sents1 ++ a.sents2.take a.nWaiting ++ [s0]
    rw [ht, List.append_assoc]
  have eC : recvChain cd 0 zeroT (a.processed ++ [s0]) =
      recvChain cd 0 zeroT a.processed ++ [recv_sc TimeLike.rnd s0 (cd a.idx) a.prev] := by
    rw [recvChain_append, ← hi.prev, Nat.zero_add, ← hi.idx]
    rfl
  refine ⟨?_, ?_, ?_, ?_, ?_, hi.wfM, hi.wfR⟩
  · rw [eW]; show a.nWaiting + 1 ≤ a.sents2.length; omega
  · rw [eW]; show tl.filterMap sentTs = a.sents2.drop (a.nWaiting + 1); rw [hd]
  · rw [eP, eC]
    rw [List.zipWith_append (by rw [recvChain_length])]
    show a.rcd.filterMap delayRec ++ a.msgs.filterMap delayRmsg ++ (a.zd ++ [_]).filterMap delayTime = _
    rw [← hi.dl]
    simp [AC.delays, delayTime, List.filterMap_append]
  · rw [eP]; show a.idx + 1 = (a.processed ++ [s0]).length; rw [hi.idx]; simp
  · rw [eP, eC, lastOr_append_one]

/-- `push_zip` joins the oldest waiting message with the oldest waiting delay -/
theorem AInv.zip {a : AC T} (hi : AInv cd a) (seq : Int) (s0 d : T) (data : Int) (zm' zd' : List (Val T))
    (h1 : a.zm = Val.msg seq s0 data :: zm') (h2 : a.zd = Val.time d :: zd') :
    AInv cd { a with zm := zm', zd := zd', msgs := a.msgs ++ [Val.rmsg seq s0 (zip_recv_sc TimeLike.rnd s0 d) d data] } := by
  have hW : a.nWaiting = (zd'.filterMap delayTime).length + 1 := by simp [AC.nWaiting, h2, delayTime]
  have hS : a.sents2 = s0 :: (zm'.filterMap sentMsg ++ a.im.filterMap sentMsg ++ a.nodeSents) := by
    simp [AC.sents2, h1, sentMsg]
  have eW : ({ a with zm := zm', zd := zd', msgs := a.msgs ++ [Val.rmsg seq s0 (zip_recv_sc TimeLike.rnd s0 d) d data] } : AC T).nWaiting
      = (zd'.filterMap delayTime).length := rfl
  have eS2 : ({ a with zm := zm', zd := zd', msgs := a.msgs ++ [Val.rmsg seq s0 (zip_recv_sc TimeLike.rnd s0 d) d data] } : AC T).sents2
      = zm'.filterMap sentMsg ++ a.im.filterMap sentMsg ++ a.nodeSents := rfl
  have eP : ({ a with zm := zm', zd := zd', msgs := a.msgs ++ [Val.rmsg seq s0 (zip_recv_sc TimeLike.rnd s0 d) d data] } : AC T).processed
      = a.processed := by
    simp only [AC.processed, eW, eS2, hW, hS, List.take_succ_cons]
    simp [AC.sents1, sentRmsg, List.filterMap_append]
  have eD : ({ a with zm := zm', zd := zd', msgs := a.msgs ++ [Val.rmsg seq s0 (zip_recv_sc TimeLike.rnd s0 d) d data] } : AC T).delays
      = a.delays := by
    simp [AC.delays, h2, delayRmsg, delayTime, List.filterMap_append]
  refine ⟨?_, ?_, ?_, ?_, ?_, ?_, hi.wfR⟩
  · rw [eW, eS2]; have := hi.le; rw [hW, hS] at this; simpa using this
  · rw [eW, eS2]; have := hi.inTs; rw [hW, hS] at this; simpa using this
  · rw [eD, eP]; exact hi.dl
  · rw [eP]; exact hi.idx
  · rw [eP]; exact hi.prev
  · intro v hv
    rcases List.mem_append.mp hv with hv | hv
    · exact hi.wfM v hv
    · simp only [List.mem_singleton] at hv; subst hv; rfl

/-- `push_input` hands the oldest just-sent message to the zip stage -/
theorem AInv.inp {a : AC T} (hi : AInv cd a) : AInv cd { a with im := a.im.drop 1, zm := a.zm ++ a.im.take 1 } := by
  have eS2 : ({ a with im := a.im.drop 1, zm := a.zm ++ a.im.take 1 } : AC T).sents2 = a.sents2 := by
    show (a.zm ++ a.im.take 1).filterMap sentMsg ++ (a.im.drop 1).filterMap sentMsg ++ a.nodeSents = _
    rw [List.filterMap_append, List.append_assoc ((a.zm).filterMap sentMsg), ← List.filterMap_append, List.take_append_drop]
    rfl
  have eP : ({ a with im := a.im.drop 1, zm := a.zm ++ a.im.take 1 } : AC T).processed = a.processed := by
    simp only [AC.processed, eS2]; rfl
  exact ⟨by rw [eS2]; exact hi.le, by rw [eS2]; exact hi.inTs, by rw [eP]; exact hi.dl, by rw [eP]; exact hi.idx,
    by rw [eP]; exact hi.prev, hi.wfM, hi.wfR⟩

/-- `push_selection` records the `n` oldest arrived messages -/
theorem AInv.select {a : AC T} (hi : AInv cd a) (n : Nat) (tick : Int) :
    AInv cd { a with msgs := a.msgs.drop n, rcd := a.rcd ++ recsOf tick (a.msgs.take n) } := by
  have eS1 : ({ a with msgs := a.msgs.drop n, rcd := a.rcd ++ recsOf tick (a.msgs.take n) } : AC T).sents1 = a.sents1 := by
    show (a.rcd ++ recsOf tick (a.msgs.take n)).filterMap sentRec ++ (a.msgs.drop n).filterMap sentRmsg = _
    rw [List.filterMap_append, filterMap_recsOf_sent, List.append_assoc, ← List.filterMap_append, List.take_append_drop]
    rfl
  have eD : ({ a with msgs := a.msgs.drop n, rcd := a.rcd ++ recsOf tick (a.msgs.take n) } : AC T).delays = a.delays := by
    show (a.rcd ++ recsOf tick (a.msgs.take n)).filterMap delayRec ++ (a.msgs.drop n).filterMap delayRmsg ++ a.zd.filterMap delayTime = _
    rw [List.filterMap_append, filterMap_recsOf_delay, List.append_assoc (a.rcd.filterMap delayRec), ← List.filterMap_append,
      List.take_append_drop]
    rfl
  have eP : ({ a with msgs := a.msgs.drop n, rcd := a.rcd ++ recsOf tick (a.msgs.take n) } : AC T).processed = a.processed := by
    simp only [AC.processed, eS1]; rfl
  refine ⟨hi.le, hi.inTs, by rw [eD, eP]; exact hi.dl, by rw [eP]; exact hi.idx, by rw [eP]; exact hi.prev, ?_, ?_⟩
  · intro v hv; exact hi.wfM v (List.mem_of_mem_drop hv)
  · intro v hv
    rcases List.mem_append.mp hv with hv | hv
    · exact hi.wfR v hv
    · exact wfArr_recsOf tick _ (fun v hv => hi.wfM v (List.mem_of_mem_take hv)) v hv

/-- `push_step` of the sender moves its oldest step to the just-sent messages -/
theorem AInv.step {a : AC T} (hi : AInv cd a) (apps start' : List (Val T)) (pend' : Option (Int × T × T × StepHdr T × StepIn T))
    (h : (pendL a.pend ++ startLine a.start).map endT = apps.filterMap sentMsg ++ (pendL pend' ++ startLine start').map endT) :
    AInv cd { a with im := a.im ++ apps, start := start', pend := pend' } := by
  have eS2 : ({ a with im := a.im ++ apps, start := start', pend := pend' } : AC T).sents2 = a.sents2 := by
    show a.zm.filterMap sentMsg ++ (a.im ++ apps).filterMap sentMsg ++ (pendL pend' ++ startLine start').map endT = _
    rw [List.filterMap_append, List.append_assoc, List.append_assoc, ← h]
    simp [AC.sents2, AC.nodeSents, List.append_assoc]
  have eP : ({ a with im := a.im ++ apps, start := start', pend := pend' } : AC T).processed = a.processed := by
    simp only [AC.processed, eS2]; rfl
  exact ⟨by rw [eS2]; exact hi.le, by rw [eS2]; exact hi.inTs, by rw [eP]; exact hi.dl, by rw [eP]; exact hi.idx,
    by rw [eP]; exact hi.prev, hi.wfM, hi.wfR⟩

/-- `push_phase_shift` of the sender announces a new step -/
theorem AInv.shift {a : AC T} (hi : AInv cd a) (appsS appsT : List (Val T)) (x : StepT T) (h1 : startLine appsS = [x])
    (h2 : appsT.filterMap sentTs = [ts_output x.tsStart x.delay]) :
    AInv cd { a with start := a.start ++ appsS, inTs := a.inTs ++ appsT } := by
  have eS2 : ({ a with start := a.start ++ appsS, inTs := a.inTs ++ appsT } : AC T).sents2 = a.sents2 ++ [endT x] := by
    show a.zm.filterMap sentMsg ++ a.im.filterMap sentMsg ++ (pendL a.pend ++ startLine (a.start ++ appsS)).map endT = _
    rw [startLine_append, h1]
    simp [AC.sents2, AC.nodeSents, List.append_assoc]
  have hle := hi.le
  have eP : ({ a with start := a.start ++ appsS, inTs := a.inTs ++ appsT } : AC T).processed = a.processed := by
    simp only [AC.processed, eS2]
    show a.sents1 ++ (a.sents2 ++ [endT x]).take a.nWaiting = _
    rw [List.take_append_of_le_length hle]
  refine ⟨?_, ?_, by rw [eP]; exact hi.dl, by rw [eP]; exact hi.idx, by rw [eP]; exact hi.prev, hi.wfM, hi.wfR⟩
  · rw [eS2]; show a.nWaiting ≤ (a.sents2 ++ [endT x]).length; simp; omega
  · rw [eS2]
    show (a.inTs ++ appsT).filterMap sentTs = (a.sents2 ++ [endT x]).drop a.nWaiting
    rw [List.filterMap_append, h2, hi.inTs, List.drop_append_of_le_length hle]
    rfl

-- ---------------------------------------------------------------------------------------------------------------
-- the machine preserves the invariant

theorem arrInv_fire (cfg : Cfg T) (c : Nat) (cc : ConnCfg T) (hcc : cfg.conn c = some cc) (hwf : WFConn cfg c) (r : Rule) (s : MSt T)
    (hi : ArrInv cfg c cc s) : ArrInv cfg c cc ((machine cfg).toNet.fire r s) := by
  obtain ⟨nc, hnode, hcount⟩ := hwf
  have cR : (machine cfg).toNet.cons (.conn c .record) = none := rfl
  have pR : (machine cfg).toNet.prod (.conn c .record) = .select c := rfl
  have cM : (machine cfg).toNet.cons (.conn c .msgs) = some (.select c) := rfl
  have pM : (machine cfg).toNet.prod (.conn c .msgs) = .zip c := rfl
  have cZM : (machine cfg).toNet.cons (.conn c .zipMsgs) = some (.zip c) := rfl
  have pZM : (machine cfg).toNet.prod (.conn c .zipMsgs) = .inp c := rfl
  have cZD : (machine cfg).toNet.cons (.conn c .zipDelay) = some (.zip c) := rfl
  have pZD : (machine cfg).toNet.prod (.conn c .zipDelay) = .tsIn c := rfl
  have cIM : (machine cfg).toNet.cons (.conn c .inMsg) = some (.inp c) := rfl
  have pIM : (machine cfg).toNet.prod (.conn c .inMsg) = .step (cfg.src c) := rfl
  have cIT : (machine cfg).toNet.cons (.conn c .inTs) = some (.tsIn c) := rfl
  have pIT : (machine cfg).toNet.prod (.conn c .inTs) = .shift (cfg.src c) := rfl
  have cST : (machine cfg).toNet.cons (.node (cfg.src c) .start) = some (.step (cfg.src c)) := rfl
  have pST : (machine cfg).toNet.prod (.node (cfg.src c) .start) = .shift (cfg.src c) := rfl
  cases hs : (machine cfg).toNet.step r (s.priv r) ((machine cfg).toNet.view r s) with
  | none => rw [fire_none cfg r s hs]; exact hi
  | some res =>
    obtain ⟨ans, ext', hrun, hres⟩ := toNet_step_some (machine cfg) r _ _ res hs
    unfold ArrInv at hi ⊢
    by_cases h1 : r = .tsIn c
    · subst h1
      have hrun' : (progTsIn cfg c (s.priv (.tsIn c))).run ((machine cfg).toNet.view (.tsIn c) s) (fun _ => 0) = some (ans, ext') := hrun
      obtain ⟨seq, s0, hhead, hpop, hzd, hprev, hidx⟩ := progTsIn_arr cfg c cc hcc _ _ ans ext' hrun'
      have hview : (machine cfg).toNet.view (.tsIn c) s (.conn c .inTs) = s.q (.conn c .inTs) := by simp [Net.view, cIT]
      rw [hview] at hhead
      have hsplit := take_one_eq _ _ hhead
      have e : acOf cfg c ((machine cfg).toNet.fire (.tsIn c) s) =
          { acOf cfg c s with inTs := (s.q (.conn c .inTs)).drop 1, zd := (acOf cfg c s).zd ++ [Val.time (delay_sc (recv_sc TimeLike.rnd s0 (cc.commDelay (acOf cfg c s).idx) (acOf cfg c s).prev) s0)], idx := (acOf cfg c s).idx + 1, prev := recv_sc TimeLike.rnd s0 (cc.commDelay (acOf cfg c s).idx) (acOf cfg c s).prev } := by
        simp only [acOf]
        rw [fire_q_eq cfg _ s _ res hs, fire_q_eq cfg _ s _ res hs, fire_q_eq cfg _ s _ res hs, fire_q_eq cfg _ s _ res hs,
            fire_q_eq cfg _ s _ res hs, fire_q_eq cfg _ s _ res hs, fire_q_eq cfg _ s _ res hs, fire_priv_eq cfg _ s res hs,
            fire_priv_other (machine cfg).toNet (.tsIn c) (.step (cfg.src c)) s (by simp)]
        subst hres
        simp only [cR, pR, cM, pM, cZM, pZM, cZD, pZD, cIM, pIM, cIT, pIT, cST, pST, reduceCtorEq, if_false, if_true, List.drop_zero,
          List.append_nil, Option.some.injEq, hpop, hzd, hprev, hidx]
      rw [e]
      exact hi.tsIn seq s0 _ hsplit
    · by_cases h2 : r = .zip c
      · subst h2
        have hrun' : (progZip c (s.priv (.zip c))).run ((machine cfg).toNet.view (.zip c) s) (fun _ => 0) = some (ans, ext') := hrun
        obtain ⟨seq, s0, data, d, hh1, hh2, hp1, hp2, happ⟩ := progZip_arr c _ _ ans ext' hrun'
        have hv1 : (machine cfg).toNet.view (.zip c) s (.conn c .zipMsgs) = s.q (.conn c .zipMsgs) := by simp [Net.view, cZM]
        have hv2 : (machine cfg).toNet.view (.zip c) s (.conn c .zipDelay) = s.q (.conn c .zipDelay) := by simp [Net.view, cZD]
        rw [hv1] at hh1
        rw [hv2] at hh2
        have e : acOf cfg c ((machine cfg).toNet.fire (.zip c) s) =
            { acOf cfg c s with zm := (s.q (.conn c .zipMsgs)).drop 1, zd := (s.q (.conn c .zipDelay)).drop 1, msgs := (acOf cfg c s).msgs ++ [Val.rmsg seq s0 (zip_recv_sc TimeLike.rnd s0 d) d data] } := by
          simp only [acOf]
          rw [fire_q_eq cfg _ s _ res hs, fire_q_eq cfg _ s _ res hs, fire_q_eq cfg _ s _ res hs, fire_q_eq cfg _ s _ res hs,
              fire_q_eq cfg _ s _ res hs, fire_q_eq cfg _ s _ res hs, fire_q_eq cfg _ s _ res hs,
              fire_priv_other (machine cfg).toNet (.zip c) (.tsIn c) s (by simp),
              fire_priv_other (machine cfg).toNet (.zip c) (.step (cfg.src c)) s (by simp)]
          subst hres
          simp only [cR, pR, cM, pM, cZM, pZM, cZD, pZD, cIM, pIM, cIT, pIT, cST, pST, reduceCtorEq, if_false, if_true, List.drop_zero,
            List.append_nil, Option.some.injEq, hp1, hp2, happ]
        rw [e]
        exact hi.zip seq s0 d data _ _ (take_one_eq _ _ hh1) (take_one_eq _ _ hh2)
      · by_cases h3 : r = .inp c
        · subst h3
          have hrun' : (progInp c (s.priv (.inp c))).run ((machine cfg).toNet.view (.inp c) s) (fun _ => 0) = some (ans, ext') := hrun
          obtain ⟨hpop, happ, _⟩ := progInp_effect c _ _ ans ext' hrun'
          have hv1 : (machine cfg).toNet.view (.inp c) s (.conn c .inMsg) = s.q (.conn c .inMsg) := by simp [Net.view, cIM]
          rw [hv1] at happ
          have e : acOf cfg c ((machine cfg).toNet.fire (.inp c) s) =
              { acOf cfg c s with im := (acOf cfg c s).im.drop 1, zm := (acOf cfg c s).zm ++ (acOf cfg c s).im.take 1 } := by
            simp only [acOf]
            rw [fire_q_eq cfg _ s _ res hs, fire_q_eq cfg _ s _ res hs, fire_q_eq cfg _ s _ res hs, fire_q_eq cfg _ s _ res hs,
              fire_q_eq cfg _ s _ res hs, fire_q_eq cfg _ s _ res hs, fire_q_eq cfg _ s _ res hs,
                fire_priv_other (machine cfg).toNet (.inp c) (.tsIn c) s (by simp),
                fire_priv_other (machine cfg).toNet (.inp c) (.step (cfg.src c)) s (by simp)]
            subst hres
            simp only [cR, pR, cM, pM, cZM, pZM, cZD, pZD, cIM, pIM, cIT, pIT, cST, pST, reduceCtorEq, if_false, if_true, List.drop_zero,
            List.append_nil, Option.some.injEq, hpop, happ]
          rw [e]
          exact hi.inp
        · by_cases h4 : r = .select c
          · subst h4
            have hrun' : (progSelect cfg c (s.priv (.select c))).run ((machine cfg).toNet.view (.select c) s) (fun _ => 0) = some (ans, ext') := hrun
            obtain ⟨n, tick, hn, hpop, happ⟩ := progSelect_arr cfg c _ _ ans ext' hrun'
            have hv1 : (machine cfg).toNet.view (.select c) s (.conn c .msgs) = s.q (.conn c .msgs) := by simp [Net.view, cM]
            rw [hv1] at happ
            have e : acOf cfg c ((machine cfg).toNet.fire (.select c) s) =
                { acOf cfg c s with msgs := (acOf cfg c s).msgs.drop n, rcd := (acOf cfg c s).rcd ++ recsOf tick ((acOf cfg c s).msgs.take n) } := by
              simp only [acOf]
              rw [fire_q_eq cfg _ s _ res hs, fire_q_eq cfg _ s _ res hs, fire_q_eq cfg _ s _ res hs, fire_q_eq cfg _ s _ res hs,
              fire_q_eq cfg _ s _ res hs, fire_q_eq cfg _ s _ res hs, fire_q_eq cfg _ s _ res hs,
                  fire_priv_other (machine cfg).toNet (.select c) (.tsIn c) s (by simp),
                  fire_priv_other (machine cfg).toNet (.select c) (.step (cfg.src c)) s (by simp)]
              subst hres
              simp only [cR, pR, cM, pM, cZM, pZM, cZD, pZD, cIM, pIM, cIT, pIT, cST, pST, reduceCtorEq, if_false, if_true, List.drop_zero,
            List.append_nil, Option.some.injEq, hpop, happ]
            rw [e]
            exact hi.select n tick
          · by_cases h5 : r = .step (cfg.src c)
            · subst h5
              have hrun' : (progStep cfg (cfg.src c) (s.priv (.step (cfg.src c)))).run ((machine cfg).toNet.view (.step (cfg.src c)) s) (fun _ => 0) = some (ans, ext') := hrun
              have hsent := progStep_sents cfg (cfg.src c) c nc hnode hcount _ _ ans ext' hrun'
              have hv1 : (machine cfg).toNet.view (.step (cfg.src c)) s (.node (cfg.src c) .start) = s.q (.node (cfg.src c) .start) := by simp [Net.view, cST]
              rw [hv1] at hsent
              have e : acOf cfg c ((machine cfg).toNet.fire (.step (cfg.src c)) s) =
                  { acOf cfg c s with im := (acOf cfg c s).im ++ ans.2.2 (.conn c .inMsg), start := (s.q (.node (cfg.src c) .start)).drop (min (ans.2.1 (.node (cfg.src c) .start)) (ext' (.node (cfg.src c) .start))), pend := ans.1.pending } := by
                simp only [acOf]
                rw [fire_q_eq cfg _ s _ res hs, fire_q_eq cfg _ s _ res hs, fire_q_eq cfg _ s _ res hs, fire_q_eq cfg _ s _ res hs,
              fire_q_eq cfg _ s _ res hs, fire_q_eq cfg _ s _ res hs, fire_q_eq cfg _ s _ res hs,
                    fire_priv_other (machine cfg).toNet (.step (cfg.src c)) (.tsIn c) s (by simp),
                    fire_priv_eq cfg _ s res hs]
                subst hres
                simp only [cR, pR, cM, pM, cZM, pZM, cZD, pZD, cIM, pIM, cIT, pIT, cST, pST, reduceCtorEq, if_false, if_true, List.drop_zero,
            List.append_nil, Option.some.injEq]
              rw [e]
              exact hi.step _ _ _ hsent
            · by_cases h6 : r = .shift (cfg.src c)
              · subst h6
                have hrun' : (progShift cfg (cfg.src c) (s.priv (.shift (cfg.src c)))).run ((machine cfg).toNet.view (.shift (cfg.src c)) s) (fun _ => 0) = some (ans, ext') := hrun
                obtain ⟨x, hx1, hx2⟩ := progShift_arr cfg (cfg.src c) c nc hnode hcount _ _ ans ext' hrun'
                have e : acOf cfg c ((machine cfg).toNet.fire (.shift (cfg.src c)) s) =
                    { acOf cfg c s with start := (acOf cfg c s).start ++ ans.2.2 (.node (cfg.src c) .start), inTs := (acOf cfg c s).inTs ++ ans.2.2 (.conn c .inTs) } := by
                  simp only [acOf]
                  rw [fire_q_eq cfg _ s _ res hs, fire_q_eq cfg _ s _ res hs, fire_q_eq cfg _ s _ res hs, fire_q_eq cfg _ s _ res hs,
              fire_q_eq cfg _ s _ res hs, fire_q_eq cfg _ s _ res hs, fire_q_eq cfg _ s _ res hs,
                      fire_priv_other (machine cfg).toNet (.shift (cfg.src c)) (.tsIn c) s (by simp),
                      fire_priv_other (machine cfg).toNet (.shift (cfg.src c)) (.step (cfg.src c)) s (by simp)]
                  subst hres
                  simp only [cR, pR, cM, pM, cZM, pZM, cZD, pZD, cIM, pIM, cIT, pIT, cST, pST, reduceCtorEq, if_false, if_true, List.drop_zero,
            List.append_nil, Option.some.injEq]
                rw [e]
                exact hi.shift _ _ x hx1 hx2
              · -- any other rule touches none of the components
                have e : acOf cfg c ((machine cfg).toNet.fire r s) = acOf cfg c s := by
                  simp only [acOf]
                  rw [fire_q_other (machine cfg).toNet r s (.conn c .record) (by rw [pR]; exact Ne.symm h4) (by rw [cR]; simp),
                      fire_q_other (machine cfg).toNet r s (.conn c .msgs) (by rw [pM]; exact Ne.symm h2) (by rw [cM]; intro h; exact h4 (Option.some.inj h).symm),
                      fire_q_other (machine cfg).toNet r s (.conn c .zipMsgs) (by rw [pZM]; exact Ne.symm h3) (by rw [cZM]; intro h; exact h2 (Option.some.inj h).symm),
                      fire_q_other (machine cfg).toNet r s (.conn c .inMsg) (by rw [pIM]; exact Ne.symm h5) (by rw [cIM]; intro h; exact h3 (Option.some.inj h).symm),
                      fire_q_other (machine cfg).toNet r s (.conn c .zipDelay) (by rw [pZD]; exact Ne.symm h1) (by rw [cZD]; intro h; exact h2 (Option.some.inj h).symm),
                      fire_q_other (machine cfg).toNet r s (.conn c .inTs) (by rw [pIT]; exact Ne.symm h6) (by rw [cIT]; intro h; exact h1 (Option.some.inj h).symm),
                      fire_q_other (machine cfg).toNet r s (.node (cfg.src c) .start) (by rw [pST]; exact Ne.symm h6) (by rw [cST]; intro h; exact h5 (Option.some.inj h).symm),
                      fire_priv_other (machine cfg).toNet r (.tsIn c) s (Ne.symm h1),
                      fire_priv_other (machine cfg).toNet r (.step (cfg.src c)) s (Ne.symm h5)]
                rw [e]
                exact hi

theorem arrInv_run (cfg : Cfg T) (c : Nat) (cc : ConnCfg T) (hcc : cfg.conn c = some cc) (hwf : WFConn cfg c) {s : MSt T} {σ : List Rule}
    {s' : MSt T} (h : Run (machine cfg).toNet.sys s σ s') (hi : ArrInv cfg c cc s) : ArrInv cfg c cc s' := by
  induction h with
  | nil _ => exact hi
  | cons _ _ ih => exact ih (arrInv_fire cfg c cc hcc hwf _ _ hi)

-- ---------------------------------------------------------------------------------------------------------------
-- what the invariant says about the recorded messages

theorem filterMap_rec_lengths (l : List (Val T)) :
    (l.filterMap delayRec).length = (l.filterMap sentRec).length ∧ (l.filterMap recvRec).length = (l.filterMap sentRec).length := by
  induction l with
  | nil => simp
  | cons x l ih => cases x <;> simp [delayRec, sentRec, recvRec, List.filterMap_cons, ih.1, ih.2]

/-- the recorded delays are those of the arrival recurrence over the recorded send times -/
theorem AInv.recorded_delays {a : AC T} (hi : AInv cd a) :
    a.rcd.filterMap delayRec
      = List.zipWith delay_sc (recvChain cd 0 zeroT (a.rcd.filterMap sentRec)) (a.rcd.filterMap sentRec) := by
  have h := hi.dl
  have eP : a.processed = a.rcd.filterMap sentRec ++ (a.msgs.filterMap sentRmsg ++ a.sents2.take a.nWaiting) := by
    simp [AC.processed, AC.sents1, List.append_assoc]
  have eD : a.delays = a.rcd.filterMap delayRec ++ (a.msgs.filterMap delayRmsg ++ a.zd.filterMap delayTime) := by
    simp [AC.delays, List.append_assoc]
  rw [eP, eD, recvChain_append, List.zipWith_append (by rw [recvChain_length])] at h
  have hl : (a.rcd.filterMap delayRec).length
      = (List.zipWith delay_sc (recvChain cd 0 zeroT (a.rcd.filterMap sentRec)) (a.rcd.filterMap sentRec)).length := by
    rw [List.length_zipWith, recvChain_length, (filterMap_rec_lengths a.rcd).1]; simp
  exact (List.append_inj h hl).1

/-- each recorded receive time is `zip_recv_sc` of its send time and recorded delay -/
theorem recorded_recv (l : List (Val T)) (h : ∀ v ∈ l, WfArr v) :
    l.filterMap recvRec = List.zipWith (zip_recv_sc TimeLike.rnd) (l.filterMap sentRec) (l.filterMap delayRec) := by
  induction l with
  | nil => rfl
  | cons x l ih =>
    have hx := h x List.mem_cons_self
    have hr := ih (fun v hv => h v (List.mem_cons_of_mem _ hv))
    cases x <;> simp only [List.filterMap_cons, recvRec, sentRec, delayRec, hr] <;> try rfl
    rename_i m
    simp only [List.zipWith_cons_cons]
    congr 1

end Rex.Async
