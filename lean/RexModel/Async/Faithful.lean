import RexModel.Async.Chain

/-! The step record is faithful, under every schedule (C13, C01): every recorded step's output is the node's step function applied to
exactly what the record says the step used (sequence number, start time, state before, input windows, rng index), and the state
recorded before a step is the state the previous recorded step returned (the node's initial state for the first). For the supervisor
the step's result travels through the user (`obs` → `act`); the invariant carries it through that handshake. Core Lean only. -/

namespace Rex.Async

open Rex.Net Rex.Conf

variable {T : Type} [TimeLike T]

/-- what the record says the step used -/
def sinOf (n : Nat) (r : StepRec T) : StepIn T :=
  { node := n, call := r.call, seq := r.seq, ts := r.tsStart, state := r.stateBefore, windows := r.windows }

def stepsOf : List (Val T) → List (StepRec T) := List.filterMap fun v => match v with | .stepRec r => some r | _ => none

/-- the recorded output is the step function's output on the recorded inputs -/
def FaithfulRec (cfg : Cfg T) (n : Nat) (r : StepRec T) : Prop := r.output = some (cfg.f (sinOf n r)).output

/-- the state the recorded step returned -/
def retState (cfg : Cfg T) (n : Nat) (r : StepRec T) : Int := (cfg.f (sinOf n r)).state

/-- each recorded "state before" is the state returned by the previous recorded step -/
def StateChain (cfg : Cfg T) (n : Nat) : Int → List (StepRec T) → Prop
  | _, [] => True
  | init, r :: rest => r.stateBefore = init ∧ StateChain cfg n (retState cfg n r) rest

def lastState (cfg : Cfg T) (n : Nat) (init : Int) (l : List (StepRec T)) : Int := l.foldl (fun _ r => retState cfg n r) init

theorem stateChain_append_one (cfg : Cfg T) (n : Nat) (init : Int) (l : List (StepRec T)) (r : StepRec T)
    (h : StateChain cfg n init l) (hr : r.stateBefore = lastState cfg n init l) : StateChain cfg n init (l ++ [r]) := by
  induction l generalizing init with
  | nil => exact ⟨hr, trivial⟩
  | cons a l ih =>
    obtain ⟨h1, h2⟩ := h
    exact ⟨h1, ih _ h2 hr⟩

theorem lastState_append_one (cfg : Cfg T) (n : Nat) (init : Int) (l : List (StepRec T)) (r : StepRec T) :
    lastState cfg n init (l ++ [r]) = retState cfg n r := by
  simp [lastState]

/-- the part of the machine state the invariant talks about -/
structure FC (T : Type) where
  rcd : List (Val T)
  obs : List (Val T)
  act : List (Val T)
  pend : Option (Int × T × T × StepHdr T × StepIn T)
  state : Int

/-- **Faithfulness invariant** of node `n` (initial state `init`) -/
structure FInv (cfg : Cfg T) (n : Nat) (init : Int) (a : FC T) : Prop where
  faithful : ∀ r ∈ stepsOf a.rcd, FaithfulRec cfg n r
  chain : StateChain cfg n init (stepsOf a.rcd)
  cur : a.state = lastState cfg n init (stepsOf a.rcd)
  pendOk : match a.pend with
    | none => n = cfg.sup → a.obs = [] ∧ a.act = []
    | some x => n = cfg.sup ∧ x.2.2.2.2.node = n ∧ x.2.2.2.2.seq = x.1 ∧ x.2.2.2.2.ts = x.2.1 ∧ x.2.2.2.2.state = a.state ∧
        ((a.obs = [Val.obs x.2.2.2.2] ∧ a.act = []) ∨ (a.obs = [] ∧ a.act = [Val.act (cfg.f x.2.2.2.2)]))

theorem stepsOf_append (a b : List (Val T)) : stepsOf (a ++ b) = stepsOf a ++ stepsOf b := by
  simp [stepsOf, List.filterMap_append]

/-- a step that runs to completion in one go (not the supervisor) -/
theorem FInv.finish {cfg : Cfg T} {n : Nat} {init : Int} {a : FC T} (hi : FInv cfg n init a) (hp : a.pend = none) (hn : n ≠ cfg.sup)
    (r : StepRec T) (hs : r.stateBefore = a.state) (hf : FaithfulRec cfg n r) (obs' act' : List (Val T)) :
    FInv cfg n init { rcd := a.rcd ++ [Val.stepRec r], obs := obs', act := act', pend := none, state := retState cfg n r } := by
  refine ⟨?_, ?_, ?_, ?_⟩
  · intro x hx
    simp only [stepsOf_append, List.mem_append] at hx
    rcases hx with hx | hx
    · exact hi.faithful x hx
    · simp [stepsOf] at hx; rw [hx]; exact hf
  · simp only [stepsOf_append]
    exact stateChain_append_one cfg n init _ r hi.chain (by rw [hs, hi.cur])
  · simp only [stepsOf_append]
    show retState cfg n r = lastState cfg n init (stepsOf a.rcd ++ stepsOf [Val.stepRec r])
    have : stepsOf [Val.stepRec r] = [r] := rfl
    rw [this, lastState_append_one]
  · simp only
    intro h; exact absurd h hn

/-- the supervisor's step publishes its observation and waits for the action -/
theorem FInv.pend {cfg : Cfg T} {n : Nat} {init : Int} {a : FC T} (hi : FInv cfg n init a) (hp : a.pend = none) (hn : n = cfg.sup)
    (tick : Int) (ts d : T) (hdr : StepHdr T) (sin : StepIn T) (h1 : sin.node = n) (h2 : sin.seq = tick) (h3 : sin.ts = ts)
    (h4 : sin.state = a.state) :
    FInv cfg n init { a with pend := some (tick, ts, d, hdr, sin), obs := a.obs ++ [Val.obs sin] } := by
  have hq := hi.pendOk
  rw [hp] at hq
  obtain ⟨ho, ha⟩ := hq hn
  refine ⟨hi.faithful, hi.chain, hi.cur, ?_⟩
  simp only
  exact ⟨hn, h1, h2, h3, h4, Or.inl ⟨by rw [ho]; rfl, ha⟩⟩

/-- the user answers the observation with the step function's result -/
theorem FInv.user {cfg : Cfg T} {n : Nat} {init : Int} {a : FC T} (hi : FInv cfg n init a) (sin : StepIn T) (tl : List (Val T))
    (h : a.obs = Val.obs sin :: tl) :
    FInv cfg n init { a with obs := tl, act := a.act ++ [Val.act (cfg.f sin)] } := by
  refine ⟨hi.faithful, hi.chain, hi.cur, ?_⟩
  have hq := hi.pendOk
  cases hp : a.pend with
  | none =>
    rw [hp] at hq
    simp only
    intro hn
    obtain ⟨ho, _⟩ := hq hn
    rw [ho] at h; cases h
  | some x =>
    rw [hp] at hq
    obtain ⟨hn, g1, g2, g3, g4, hd⟩ := hq
    simp only
    refine ⟨hn, g1, g2, g3, g4, ?_⟩
    rcases hd with ⟨ho, ha⟩ | ⟨ho, _⟩
    · rw [ho] at h
      simp only [List.cons.injEq, Val.obs.injEq] at h
      obtain ⟨rfl, rfl⟩ := h
      exact Or.inr ⟨rfl, by rw [ha]; rfl⟩
    · rw [ho] at h; cases h

/-- the supervisor's step receives the action and is recorded -/
theorem FInv.act {cfg : Cfg T} {n : Nat} {init : Int} {a : FC T} (hi : FInv cfg n init a)
    (x : Int × T × T × StepHdr T × StepIn T) (hp : a.pend = some x) (o : StepOut) (tl : List (Val T)) (h : a.act = Val.act o :: tl)
    (r : StepRec T) (hr1 : r.seq = x.1) (hr2 : r.tsStart = x.2.1) (hr3 : r.call = x.2.2.2.2.call) (hr4 : r.stateBefore = x.2.2.2.2.state)
    (hr5 : r.windows = x.2.2.2.2.windows) (hr6 : r.output = some o.output) :
    o = cfg.f x.2.2.2.2 ∧
    FInv cfg n init { rcd := a.rcd ++ [Val.stepRec r], obs := a.obs, act := tl, pend := none, state := o.state } := by
  have hq := hi.pendOk
  rw [hp] at hq
  obtain ⟨hn, g1, g2, g3, g4, hd⟩ := hq
  rcases hd with ⟨_, ha⟩ | ⟨ho, ha⟩
  · rw [ha] at h; cases h
  · rw [ha] at h
    simp only [List.cons.injEq, Val.act.injEq] at h
    obtain ⟨ho', htl⟩ := h
    have hsin : sinOf n r = x.2.2.2.2 := by
      obtain ⟨tick, ts, d, hdr, sin⟩ := x
      simp only at g1 g2 g3 g4 hr1 hr2 hr3 hr4 hr5 ⊢
      cases sin
      simp only [sinOf] at *
      subst_vars
      rfl
    refine ⟨ho'.symm, ?_, ?_, ?_, ?_⟩
    · intro y hy
      simp only [stepsOf_append, List.mem_append] at hy
      rcases hy with hy | hy
      · exact hi.faithful y hy
      · simp [stepsOf] at hy
        rw [hy]
        show r.output = some (cfg.f (sinOf n r)).output
        rw [hr6, hsin, ← ho']
    · simp only [stepsOf_append]
      exact stateChain_append_one cfg n init _ r hi.chain (by rw [hr4, g4, hi.cur])
    · simp only [stepsOf_append]
      have : stepsOf [Val.stepRec r] = [r] := rfl
      rw [this, lastState_append_one]
      show o.state = (cfg.f (sinOf n r)).state
      rw [hsin, ← ho']
    · simp only
      intro _
      exact ⟨ho, htl.symm⟩

-- ---------------------------------------------------------------------------------------------------------------
-- effects of the rules

theorem finishStep_rec (cfg : Cfg T) (n : Nat) (nc : NodeCfg T) (p : Priv T) (tick : Int) (a b : T) (hdr : StepHdr T)
    (sin : StepIn T) (o : StepOut) :
    (finishStep cfg n nc p tick a b hdr sin (some o)).2.2 (.node n .record)
      = [Val.stepRec { seq := tick, tsStart := a, tsEnd := Rex.Gen.Async.ts_end_sc a b, delay := b, hdr := hdr, call := sin.call,
                       stateBefore := sin.state, windows := sin.windows, output := some o.output }] ∧
    (finishStep cfg n nc p tick a b hdr sin (some o)).2.2 (.node n .obs) = [] ∧
    (finishStep cfg n nc p tick a b hdr sin (some o)).1.state = o.state ∧
    (finishStep cfg n nc p tick a b hdr sin (some o)).1.pending = none := by
  refine ⟨?_, ?_, by simp [finishStep], by simp [finishStep]⟩
  · simp only [finishStep]
    rw [appsOf_append_nil, appsOf_cons_eq]
    · simp
    · rw [appsOf_cons_ne _ _ _ _ (by simp), appsOf_nil]
    · exact appsOf_map_conn _ (by intro c k; simp) _ _ (fun c => ⟨.inMsg, rfl⟩)
  · simp only [finishStep]
    rw [appsOf_append_nil, appsOf_cons_ne _ _ _ _ (by simp), appsOf_cons_ne _ _ _ _ (by simp), appsOf_nil]
    exact appsOf_map_conn _ (by intro c k; simp) _ _ (fun c => ⟨.inMsg, rfl⟩)

/-- what `push_step` does to the record, the observation and action queues, the pending step and the node state -/
theorem progStep_faith (cfg : Cfg T) (n : Nat) (nc : NodeCfg T) (hnode : cfg.node n = some nc) (p : Priv T) (v : QId → List (Val T))
    (ans : Ans T) (ext' : QId → Nat) (h : (progStep cfg n p).run v (fun _ => 0) = some (ans, ext')) :
    (p.pending = none ∧ n ≠ cfg.sup ∧ min (ans.2.1 (.node n .act)) (ext' (.node n .act)) = 0 ∧ ans.2.2 (.node n .obs) = [] ∧
      ∃ r, ans.2.2 (.node n .record) = [Val.stepRec r] ∧ r.stateBefore = p.state ∧ FaithfulRec cfg n r ∧
        ans.1.state = retState cfg n r ∧ ans.1.pending = none) ∨
    (p.pending = none ∧ n = cfg.sup ∧ min (ans.2.1 (.node n .act)) (ext' (.node n .act)) = 0 ∧ ans.2.2 (.node n .record) = [] ∧
      ans.1.state = p.state ∧
      ∃ tick ts d hdr sin, ans.1.pending = some (tick, ts, d, hdr, sin) ∧ sin.node = n ∧ sin.seq = tick ∧ sin.ts = ts ∧
        sin.state = p.state ∧ ans.2.2 (.node n .obs) = [Val.obs sin]) ∨
    (∃ x o, p.pending = some x ∧ (v (.node n .act)).take 1 = [Val.act o] ∧ min (ans.2.1 (.node n .act)) (ext' (.node n .act)) = 1 ∧
      ans.2.2 (.node n .obs) = [] ∧ ans.1.state = o.state ∧ ans.1.pending = none ∧
      ∃ r, ans.2.2 (.node n .record) = [Val.stepRec r] ∧ r.seq = x.1 ∧ r.tsStart = x.2.1 ∧ r.call = x.2.2.2.2.call ∧
        r.stateBefore = x.2.2.2.2.state ∧ r.windows = x.2.2.2.2.windows ∧ r.output = some o.output) := by
  unfold progStep at h
  simp only [hnode] at h
  cases hp : p.pending with
  | some x =>
    right; right
    obtain ⟨tick, tsStart, delay, hdr, sin⟩ := x
    simp only [hp] at h
    obtain ⟨_, h1⟩ := Prog.run_take h
    split at h1
    · rename_i o heq
      have := Prog.run_done h1
      simp only [Prod.mk.injEq] at this
      obtain ⟨rfl, hE⟩ := this
      obtain ⟨e1, e2, e3, e4⟩ := finishStep_rec cfg n nc p tick tsStart delay hdr sin o
      refine ⟨_, o, rfl, heq, ?_, e2, e3, e4, _, e1, rfl, rfl, rfl, rfl, rfl, rfl⟩
      dsimp only
      rw [popsOf_cons, popsOf_nil]
      have := bump_self (fun _ => 0) (QId.node n .act) 1
      rw [hE]
      simp; omega
    · simp [Prog.run] at h1
  | none =>
    simp only [hp] at h
    obtain ⟨_, h1⟩ := Prog.run_take h
    obtain ⟨hg, e2, h2, hle2⟩ := takeHeads_run' _ _ _ _ _ h1
    split at h2
    · rename_i tick tsStart delay hdr heq
      have hpop0 : ∀ (x : QId → Nat), min (popsOf ((QId.node n Qn.start, 1) :: List.map (fun c => (QId.conn c Qc.grouped, 1)) nc.inputs) (QId.node n Qn.act)) (x (QId.node n Qn.act)) = 0 := by
        intro x
        rw [popsOf_cons, popsOf_map_conn _ (by intro c k; simp) _ _ (fun c => ⟨.grouped, rfl⟩)]
        simp
      by_cases hs : n = cfg.sup
      · right; left
        simp only [hs, if_true] at h2
        have := Prog.run_done h2
        simp only [Prod.mk.injEq] at this
        obtain ⟨rfl, _⟩ := this
        subst hs
        refine ⟨rfl, rfl, hpop0 _, ?_, rfl, _, _, _, _, _, rfl, rfl, rfl, rfl, rfl, ?_⟩
        · dsimp only
          rw [appsOf_cons_ne _ _ _ _ (by simp), appsOf_nil]
        · dsimp only
          rw [appsOf_cons_eq _ _ _ (appsOf_nil _)]
      · left
        simp only [hs, if_false] at h2
        have := Prog.run_done h2
        simp only [Prod.mk.injEq] at this
        obtain ⟨rfl, _⟩ := this
        obtain ⟨e1, e2', e3, e4⟩ := finishStep_rec cfg n nc { p with windows := pushGroups p.windows (groupsOf hg) } tick tsStart delay hdr
          { node := n, call := p.calls, seq := tick, ts := tsStart, state := p.state, windows := pushGroups p.windows (groupsOf hg) }
          (cfg.f { node := n, call := p.calls, seq := tick, ts := tsStart, state := p.state, windows := pushGroups p.windows (groupsOf hg) })
        refine ⟨rfl, hs, hpop0 _, e2', _, e1, rfl, rfl, e3, e4⟩
    · simp [Prog.run] at h2

/-- the user pops the observation and answers with the step function's result -/
theorem progUser_faith (cfg : Cfg T) (p : Priv T) (v : QId → List (Val T)) (ans : Ans T) (ext' : QId → Nat)
    (h : (progUser cfg p).run v (fun _ => 0) = some (ans, ext')) :
    ∃ sin, (v (.node cfg.sup .obs)).take 1 = [Val.obs sin] ∧ min (ans.2.1 (.node cfg.sup .obs)) (ext' (.node cfg.sup .obs)) = 1 ∧
      ans.2.2 (.node cfg.sup .act) = [Val.act (cfg.f sin)] ∧ ∀ n, n ≠ cfg.sup → ans.2.2 (.node n .act) = [] := by
  unfold progUser at h
  split at h
  · obtain ⟨_, h1⟩ := Prog.run_take h
    split at h1
    · rename_i sin heq
      have := Prog.run_done h1
      simp only [Prod.mk.injEq] at this
      obtain ⟨rfl, hE⟩ := this
      refine ⟨sin, heq, ?_, ?_, ?_⟩
      · dsimp only
        rw [popsOf_cons, popsOf_nil]
        have := bump_self (fun _ => 0) (QId.node cfg.sup .obs) 1
        rw [hE]
        simp; omega
      · dsimp only
        rw [appsOf_cons_eq _ _ _ (appsOf_nil _)]
      · intro n hn
        dsimp only
        rw [appsOf_cons_ne _ _ _ _ (by simp; exact fun h => hn h.symm), appsOf_nil]
    · simp [Prog.run] at h1
  · simp [Prog.run] at h

-- ---------------------------------------------------------------------------------------------------------------
-- the machine preserves the invariant

def fcOf (n : Nat) (s : MSt T) : FC T :=
  { rcd := s.q (.node n .record), obs := s.q (.node n .obs), act := s.q (.node n .act), pend := (s.priv (.step n)).pending,
    state := (s.priv (.step n)).state }

theorem finv_init (cfg : Cfg T) (n : Nat) (nc : NodeCfg T) (hnode : cfg.node n = some nc) :
    FInv cfg n nc.initState (fcOf n (initState cfg)) := by
  have e : fcOf n (initState cfg) = ({ rcd := [], obs := [], act := [], pend := none, state := nc.initState } : FC T) := by
    simp only [fcOf, initState, hnode]
  rw [e]
  exact ⟨by intro r hr; simp [stepsOf] at hr, trivial, rfl, fun _ => ⟨rfl, rfl⟩⟩

theorem finv_fire (cfg : Cfg T) (n : Nat) (nc : NodeCfg T) (hnode : cfg.node n = some nc) (r : Rule) (s : MSt T)
    (hi : FInv cfg n nc.initState (fcOf n s)) : FInv cfg n nc.initState (fcOf n ((machine cfg).toNet.fire r s)) := by
  have cRec : (machine cfg).toNet.cons (.node n .record) = none := rfl
  have pRec : (machine cfg).toNet.prod (.node n .record) = .step n := rfl
  have cObs : (machine cfg).toNet.cons (.node n .obs) = if n = cfg.sup then some Rule.user else none := rfl
  have pObs : (machine cfg).toNet.prod (.node n .obs) = .step n := rfl
  have cAct : (machine cfg).toNet.cons (.node n .act) = some (.step n) := rfl
  have pAct : (machine cfg).toNet.prod (.node n .act) = .user := rfl
  have hObsStep : (machine cfg).toNet.cons (.node n .obs) ≠ some (.step n) := by rw [cObs]; split <;> simp
  cases hs : (machine cfg).toNet.step r (s.priv r) ((machine cfg).toNet.view r s) with
  | none => rw [fire_none cfg r s hs]; exact hi
  | some res =>
    obtain ⟨ans, ext', hrun, hres⟩ := toNet_step_some (machine cfg) r _ _ res hs
    by_cases h1 : r = .step n
    · subst h1
      have hrun' : (progStep cfg n (s.priv (.step n))).run ((machine cfg).toNet.view (.step n) s) (fun _ => 0) = some (ans, ext') := hrun
      have hview : (machine cfg).toNet.view (.step n) s (.node n .act) = s.q (.node n .act) := by simp [Net.view, cAct]
      have e0 : fcOf n ((machine cfg).toNet.fire (.step n) s) =
          { rcd := s.q (.node n .record) ++ ans.2.2 (.node n .record), obs := s.q (.node n .obs) ++ ans.2.2 (.node n .obs),
            act := (s.q (.node n .act)).drop (min (ans.2.1 (.node n .act)) (ext' (.node n .act))), pend := ans.1.pending, state := ans.1.state } := by
        simp only [fcOf]
        rw [fire_q_eq cfg _ s _ res hs, fire_q_eq cfg _ s _ res hs, fire_q_eq cfg _ s _ res hs, fire_priv_eq cfg _ s res hs]
        subst hres
        simp only [cRec, pRec, pObs, cAct, pAct, hObsStep, reduceCtorEq, if_false, if_true, List.drop_zero, List.append_nil]
      rw [e0]
      rcases progStep_faith cfg n nc hnode _ _ ans ext' hrun' with
        ⟨hp, hn, hpop, hobs, rr, hrec, hsb, hf, hst, hpe⟩ | ⟨hp, hn, hpop, hrec, hst, tick, ts, d, hdr, sin, hpe, g1, g2, g3, g4, hobs⟩ |
        ⟨x, o, hp, hhead, hpop, hobs, hst, hpe, rr, hrec, q1, q2, q3, q4, q5, q6⟩
      · rw [hrec, hobs, hpop, hst, hpe]
        exact hi.finish hp hn rr hsb hf _ _
      · rw [hrec, hobs, hpop, hst, hpe]
        have := hi.pend hp hn tick ts d hdr sin g1 g2 g3 g4
        simpa [fcOf] using this
      · rw [hview] at hhead
        rw [hrec, hobs, hpop, hst, hpe]
        have hsplit := take_one_eq _ _ hhead
        have := (hi.act x hp o _ hsplit rr q1 q2 q3 q4 q5 q6).2
        simpa [fcOf] using this
    · by_cases h2 : r = .user
      · subst h2
        have hrun' : (progUser cfg (s.priv .user)).run ((machine cfg).toNet.view .user s) (fun _ => 0) = some (ans, ext') := hrun
        obtain ⟨sin, hhead, hpop, happ, hoth⟩ := progUser_faith cfg _ _ ans ext' hrun'
        by_cases hn : n = cfg.sup
        · subst hn
          have hview : (machine cfg).toNet.view .user s (.node cfg.sup .obs) = s.q (.node cfg.sup .obs) := by simp [Net.view, cObs]
          rw [hview] at hhead
          have e0 : fcOf cfg.sup ((machine cfg).toNet.fire .user s) =
              { fcOf cfg.sup s with obs := (s.q (.node cfg.sup .obs)).drop 1, act := s.q (.node cfg.sup .act) ++ [Val.act (cfg.f sin)] } := by
            simp only [fcOf]
            rw [fire_q_eq cfg _ s _ res hs, fire_q_eq cfg _ s _ res hs, fire_q_eq cfg _ s _ res hs,
                fire_priv_other (machine cfg).toNet .user (.step cfg.sup) s (by simp)]
            subst hres
            simp only [cRec, pRec, cObs, pObs, cAct, pAct, Option.some.injEq, reduceCtorEq, if_false, if_true, List.drop_zero, List.append_nil, hpop, happ]
          rw [e0]
          exact hi.user sin _ (take_one_eq _ _ hhead)
        · have e0 : fcOf n ((machine cfg).toNet.fire .user s) = fcOf n s := by
            simp only [fcOf]
            rw [fire_q_eq cfg _ s _ res hs, fire_q_eq cfg _ s _ res hs, fire_q_eq cfg _ s _ res hs,
                fire_priv_other (machine cfg).toNet .user (.step n) s (by simp)]
            subst hres
            simp only [cRec, pRec, cObs, pObs, cAct, pAct, hn, Option.some.injEq, reduceCtorEq, if_false, if_true, List.drop_zero, List.append_nil, hoth n hn]
          rw [e0]; exact hi
      · have e0 : fcOf n ((machine cfg).toNet.fire r s) = fcOf n s := by
          simp only [fcOf]
          rw [fire_q_other (machine cfg).toNet r s (.node n .record) (by rw [pRec]; exact Ne.symm h1) (by rw [cRec]; simp),
              fire_q_other (machine cfg).toNet r s (.node n .obs) (by rw [pObs]; exact Ne.symm h1)
                (by rw [cObs]; split <;> simp; exact fun h => h2 h.symm),
              fire_q_other (machine cfg).toNet r s (.node n .act) (by rw [pAct]; exact Ne.symm h2)
                (by rw [cAct]; intro h; exact h1 (Option.some.inj h).symm),
              fire_priv_other (machine cfg).toNet r (.step n) s (Ne.symm h1)]
        rw [e0]; exact hi

theorem finv_run (cfg : Cfg T) (n : Nat) (nc : NodeCfg T) (hnode : cfg.node n = some nc) {s : MSt T} {σ : List Rule} {s' : MSt T}
    (h : Run (machine cfg).toNet.sys s σ s') (hi : FInv cfg n nc.initState (fcOf n s)) : FInv cfg n nc.initState (fcOf n s') := by
  induction h with
  | nil _ => exact hi
  | cons _ _ ih => exact ih (finv_fire cfg n nc hnode _ _ hi)

end Rex.Async
