import RexModel.Async.Records

/-! Machine-level recurrences of a node's timing (C04), under every schedule: along the node's steps in sequence order
(recorded, pending, with a computed start), each step's "previous end" is the end of its predecessor (0 for the first), its
accumulated schedule shift follows the FREQUENCY / PHASE recurrence (0 for the first), and its scheduled time is
`round(tick/rate + phase, 6)`. Core Lean only. -/

namespace Rex.Async

open Rex.Net Rex.Conf Rex.Gen.Async

variable {T : Type} [TimeLike T]

/-- a step as the timing recurrences see it -/
structure StepT (T : Type) where
  tick : Int
  tsStart : T
  delay : T
  hdr : StepHdr T

def recLine : List (Val T) → List (StepT T)
  | [] => []
  | .stepRec r :: l => ⟨r.seq, r.tsStart, r.delay, r.hdr⟩ :: recLine l
  | _ :: l => recLine l

def startLine : List (Val T) → List (StepT T)
  | [] => []
  | .start k a b h :: l => ⟨k, a, b, h⟩ :: startLine l
  | _ :: l => startLine l

def pendLine (p : Priv T) : List (StepT T) := match p.pending with | some x => [⟨x.1, x.2.1, x.2.2.1, x.2.2.2.1⟩] | none => []

theorem recLine_append (a b : List (Val T)) : recLine (a ++ b) = recLine a ++ recLine b := by
  induction a with
  | nil => rfl
  | cons x a ih => cases x <;> simp [recLine, ih]

theorem startLine_append (a b : List (Val T)) : startLine (a ++ b) = startLine a ++ startLine b := by
  induction a with
  | nil => rfl
  | cons x a ih => cases x <;> simp [startLine, ih]

/-- the node's steps in sequence order -/
def stepLine (n : Nat) (s : MSt T) : List (StepT T) :=
  recLine (s.q (.node n .record)) ++ pendLine (s.priv (.step n)) ++ startLine (s.q (.node n .start))

/-- end time of a step as `push_phase_shift` computes it for the next one -/
def endOf (x : StepT T) : T := ts_output x.tsStart x.delay

/-- the schedule shift `push_phase_shift` stores after a step -/
def driftAfter (nc : NodeCfg T) (x : StepT T) : T :=
  if sched_is_frequency nc.scheduling then phase_scheduled_freq x.hdr.phaseScheduled x.hdr.phaseLast x.hdr.phaseScheduled
  else phase_scheduled_phase

/-- adjacent steps satisfy the recurrences -/
def Linked (nc : NodeCfg T) : List (StepT T) → Prop
  | [] => True
  | [_] => True
  | a :: b :: l => b.hdr.tsEndPrev = endOf a ∧ b.hdr.phaseScheduled = driftAfter nc a ∧ Linked nc (b :: l)

def lastEnd (l : List (StepT T)) : T := match l.getLast? with | some x => endOf x | none => zeroT
def lastDrift (nc : NodeCfg T) (l : List (StepT T)) : T := match l.getLast? with | some x => driftAfter nc x | none => zeroT

def FirstOk (l : List (StepT T)) : Prop :=
  match l.head? with | some x => x.hdr.tsEndPrev = zeroT ∧ x.hdr.phaseScheduled = zeroT | none => True

theorem linked_append_one (nc : NodeCfg T) (l : List (StepT T)) (x : StepT T) (hl : Linked nc l)
    (h1 : x.hdr.tsEndPrev = lastEnd l) (h2 : x.hdr.phaseScheduled = lastDrift nc l) (hne : l ≠ []) : Linked nc (l ++ [x]) := by
  induction l with
  | nil => exact absurd rfl hne
  | cons a l ih =>
    cases l with
    | nil =>
      simp only [List.cons_append, List.nil_append, Linked]
      simp only [lastEnd, lastDrift, List.getLast?_singleton] at h1 h2
      exact ⟨h1, h2, trivial⟩
    | cons b l =>
      simp only [List.cons_append, Linked] at hl ⊢
      refine ⟨hl.1, hl.2.1, ?_⟩
      apply ih hl.2.2
      · simpa [lastEnd, List.getLast?_cons_cons] using h1
      · simpa [lastDrift, List.getLast?_cons_cons] using h2
      · simp

/-- effect of `push_phase_shift` with all the data the recurrences need -/
theorem progShift_chain (cfg : Cfg T) (n : Nat) (nc : NodeCfg T) (hnode : cfg.node n = some nc) (p : Priv T) (v : QId → List (Val T))
    (ans : Ans T) (ext' : QId → Nat) (h : (progShift cfg n p).run v (fun _ => 0) = some (ans, ext')) :
    ∃ (x : StepT T) (tsSched e : T),
      (v (.node n .sched)).take 1 = [Val.tickTs x.tick tsSched] ∧ (v (.node n .endPrev)).take 1 = [Val.time e] ∧
      min (ans.2.1 (.node n .endPrev)) (ext' (.node n .endPrev)) = 1 ∧
      startLine (ans.2.2 (.node n .start)) = [x] ∧ ans.2.2 (.node n .endPrev) = [Val.time (endOf x)] ∧
      x.hdr.tsScheduled = tsSched ∧ x.hdr.tsEndPrev = e ∧ x.hdr.phaseScheduled = p.phaseSched ∧ ans.1.phaseSched = driftAfter nc x := by
  unfold progShift at h
  simp only [hnode] at h
  obtain ⟨_, h1⟩ := Prog.run_take h
  obtain ⟨_, h2⟩ := Prog.run_take h1
  obtain ⟨hm, e3, h3, hle3⟩ := takeHeads_run' _ _ _ _ _ h2
  have hext : 1 ≤ e3 (.node n .endPrev) := Nat.le_trans (bump_self _ (QId.node n .endPrev) 1) (hle3 _)
  split at h3
  · rename_i tick tsSched tsEndPrev heq1 heq2
    have := Prog.run_done h3
    simp only [Prod.mk.injEq] at this
    obtain ⟨rfl, rfl⟩ := this
    refine ⟨⟨tick, ?a, ?b, ?hh⟩, tsSched, tsEndPrev, heq1, heq2, ?g1, ?g2, ?g3, ?g4, ?g5, ?g6, ?g7⟩
    case g2 =>
      dsimp only
      rw [List.append_assoc, appsOf_append_nil, appsOf_cons_eq]
      · rfl
      · rw [appsOf_cons_ne _ _ _ _ (by simp), appsOf_nil]
      · rw [appsOf_append_nil]
        · exact appsOf_map_conn _ (by intro c k; simp) _ _ (fun c => ⟨.inTs, rfl⟩)
        · exact appsOf_map_conn _ (by intro c k; simp) _ _ (fun c => ⟨.nextStep, rfl⟩)
    case g1 =>
      dsimp only
      rw [popsOf_append, popsOf_cons, popsOf_cons, popsOf_nil,
          popsOf_map_conn _ (by intro c k; simp) _ _ (fun c => ⟨.tsMax, rfl⟩)]
      simp; omega
    case g3 =>
      dsimp only
      rw [List.append_assoc, appsOf_append_nil, appsOf_cons_ne _ _ _ _ (by simp), appsOf_cons_eq _ _ _ (appsOf_nil _)]
      · rfl
      · rw [appsOf_append_nil]
        · exact appsOf_map_conn _ (by intro c k; simp) _ _ (fun c => ⟨.inTs, rfl⟩)
        · exact appsOf_map_conn _ (by intro c k; simp) _ _ (fun c => ⟨.nextStep, rfl⟩)
    case g4 => rfl
    case g5 => rfl
    case g6 => rfl
    case g7 => rfl
  · simp [Prog.run] at h3

theorem finishStep_line (cfg : Cfg T) (n : Nat) (nc : NodeCfg T) (p : Priv T) (tick : Int) (a b : T) (hdr : StepHdr T)
    (sin : StepIn T) (o : StepOut) :
    recLine ((finishStep cfg n nc p tick a b hdr sin (some o)).2.2 (.node n .record)) = [⟨tick, a, b, hdr⟩] := by
  simp only [finishStep]
  rw [appsOf_append_nil, appsOf_cons_eq]
  · simp [recLine]
  · rw [appsOf_cons_ne _ _ _ _ (by simp), appsOf_nil]
  · exact appsOf_map_conn _ (by intro c k; simp) _ _ (fun c => ⟨.inMsg, rfl⟩)

/-- effect of `push_step`: moves the oldest step with a computed start (or the pending one) into the record, unchanged -/
theorem progStep_line (cfg : Cfg T) (n : Nat) (p : Priv T) (v : QId → List (Val T)) (ans : Ans T) (ext' : QId → Nat)
    (h : (progStep cfg n p).run v (fun _ => 0) = some (ans, ext')) :
    (p.pending = none ∧ ∃ tick a b c, (v (.node n .start)).take 1 = [Val.start tick a b c] ∧
        min (ans.2.1 (.node n .start)) (ext' (.node n .start)) = 1 ∧
        recLine (ans.2.2 (.node n .record)) ++ pendLine ans.1 = [⟨tick, a, b, c⟩]) ∨
    (∃ x, p.pending = some x ∧ min (ans.2.1 (.node n .start)) (ext' (.node n .start)) = 0 ∧
        recLine (ans.2.2 (.node n .record)) = [⟨x.1, x.2.1, x.2.2.1, x.2.2.2.1⟩] ∧ pendLine ans.1 = []) := by
  unfold progStep at h
  cases hnode : cfg.node n with
  | none => simp [hnode, Prog.run] at h
  | some nc =>
    simp only [hnode] at h
    cases hp : p.pending with
    | some x =>
      right
      obtain ⟨tick, tsStart, delay, hdr, sin⟩ := x
      simp only [hp] at h
      obtain ⟨_, h1⟩ := Prog.run_take h
      split at h1
      · rename_i o heq
        have := Prog.run_done h1
        simp only [Prod.mk.injEq] at this
        obtain ⟨rfl, rfl⟩ := this
        refine ⟨_, rfl, ?_, ?_, ?_⟩
        · dsimp only
          rw [popsOf_cons, popsOf_nil]; simp
        · exact finishStep_line cfg n nc p tick tsStart delay hdr sin o
        · simp only [pendLine, (finishStep_record cfg n nc p tick tsStart delay hdr sin o).2]
      · simp [Prog.run] at h1
    | none =>
      left
      refine ⟨rfl, ?_⟩
      simp only [hp] at h
      obtain ⟨_, h1⟩ := Prog.run_take h
      obtain ⟨hg, e2, h2, hle2⟩ := takeHeads_run' _ _ _ _ _ h1
      have hext : 1 ≤ e2 (.node n .start) := Nat.le_trans (bump_self (fun _ => 0) (QId.node n .start) 1) (hle2 _)
      split at h2
      · rename_i tick tsStart delay hdr heq
        refine ⟨tick, tsStart, delay, hdr, heq, ?_⟩
        by_cases hs : n = cfg.sup
        · subst hs
          simp only [if_true] at h2
          have := Prog.run_done h2
          simp only [Prod.mk.injEq] at this
          obtain ⟨rfl, rfl⟩ := this
          refine ⟨?_, ?_⟩
          · dsimp only
            rw [popsOf_cons, popsOf_map_conn _ (by intro c k; simp) _ _ (fun c => ⟨.grouped, rfl⟩)]
            simp; omega
          · dsimp only
            rw [appsOf_cons_ne _ _ _ _ (by simp), appsOf_nil]
            simp [recLine, pendLine]
        · simp only [hs, if_false] at h2
          have := Prog.run_done h2
          simp only [Prod.mk.injEq] at this
          obtain ⟨rfl, rfl⟩ := this
          refine ⟨?_, ?_⟩
          · dsimp only
            rw [popsOf_cons, popsOf_map_conn _ (by intro c k; simp) _ _ (fun c => ⟨.grouped, rfl⟩)]
            simp; omega
          · dsimp only
            rw [finishStep_line cfg n nc _ tick tsStart delay hdr _ _]
            simp only [pendLine]
            rw [(finishStep_record cfg n nc _ tick tsStart delay hdr _ _).2]
            rfl
      · simp [Prog.run] at h2

/-- `push_scheduled_ts` queues `round(tick/rate + phase)` for the tick it numbers -/
theorem progSched_ts (cfg : Cfg T) (n : Nat) (nc : NodeCfg T) (hnode : cfg.node n = some nc) (p : Priv T) (v : QId → List (Val T))
    (ans : Ans T) (ext' : QId → Nat) (h : (progSched cfg n p).run v (fun _ => 0) = some (ans, ext')) :
    ans.2.2 (.node n .sched) = [Val.tickTs p.tick (scheduled_ts TimeLike.rnd p.tick nc.rate nc.phase)] := by
  unfold progSched at h
  simp only [hnode, Prog.run] at h
  split at h
  · simp only [Prog.run, Option.some.injEq, Prod.mk.injEq] at h
    obtain ⟨rfl, _⟩ := h
    dsimp only
    rw [appsOf_cons_eq]
    exact appsOf_map_conn _ (by intro c k; simp) _ _ (fun c => ⟨.nextStep, rfl⟩)
  · cases h

def SchedWf (nc : NodeCfg T) : Val T → Prop
  | .tickTs k ts => ts = scheduled_ts TimeLike.rnd k nc.rate nc.phase
  | _ => True

def LineSched (nc : NodeCfg T) (l : List (StepT T)) : Prop :=
  ∀ x ∈ l, x.hdr.tsScheduled = scheduled_ts TimeLike.rnd x.tick nc.rate nc.phase

/-- the chain invariant of node `n` -/
structure ChainInv (cfg : Cfg T) (n : Nat) (nc : NodeCfg T) (s : MSt T) : Prop where
  linked : Linked nc (stepLine n s)
  first : FirstOk (stepLine n s)
  endq : s.q (.node n .endPrev) = [Val.time (lastEnd (stepLine n s))]
  drift : (s.priv (.shift n)).phaseSched = lastDrift nc (stepLine n s)
  schedq : ∀ x ∈ s.q (.node n .sched), SchedWf nc x
  sched : LineSched nc (stepLine n s)

theorem chainInv_init (cfg : Cfg T) (n : Nat) (nc : NodeCfg T) : ChainInv cfg n nc (initState cfg) := by
  have e : stepLine n (initState cfg) = [] := by
    simp only [stepLine, initState]
    cases cfg.node n <;> simp [recLine, startLine, pendLine]
  refine ⟨?_, ?_, ?_, ?_, ?_, ?_⟩
  · rw [e]; trivial
  · rw [e]; trivial
  · rw [e]; rfl
  · rw [e]; rfl
  · intro x hx; simp [initState] at hx
  · rw [e]; intro x hx; cases hx

theorem lastEnd_append_one (l : List (StepT T)) (x : StepT T) : lastEnd (l ++ [x]) = endOf x := by
  simp [lastEnd]

theorem lastDrift_append_one (nc : NodeCfg T) (l : List (StepT T)) (x : StepT T) : lastDrift nc (l ++ [x]) = driftAfter nc x := by
  simp [lastDrift]

theorem firstOk_append_one (l : List (StepT T)) (x : StepT T) (hf : FirstOk l)
    (h1 : x.hdr.tsEndPrev = lastEnd l) (h2 : x.hdr.phaseScheduled = lastDrift (T := T) nc l) : FirstOk (l ++ [x]) := by
  cases l with
  | nil => simpa [FirstOk, lastEnd, lastDrift] using ⟨h1, h2⟩
  | cons a l => simpa [FirstOk] using hf

theorem chainInv_fire (cfg : Cfg T) (n : Nat) (nc : NodeCfg T) (hnode : cfg.node n = some nc) (r : Rule) (s : MSt T)
    (hi : ChainInv cfg n nc s) : ChainInv cfg n nc ((machine cfg).toNet.fire r s) := by
  have cR : (machine cfg).toNet.cons (.node n .record) = none := rfl
  have pR : (machine cfg).toNet.prod (.node n .record) = .step n := rfl
  have cS : (machine cfg).toNet.cons (.node n .start) = some (.step n) := rfl
  have pS : (machine cfg).toNet.prod (.node n .start) = .shift n := rfl
  have cC : (machine cfg).toNet.cons (.node n .sched) = some (.shift n) := rfl
  have pC : (machine cfg).toNet.prod (.node n .sched) = .sched n := rfl
  have cE : (machine cfg).toNet.cons (.node n .endPrev) = some (.shift n) := rfl
  have pE : (machine cfg).toNet.prod (.node n .endPrev) = .shift n := rfl
  cases hs : (machine cfg).toNet.step r (s.priv r) ((machine cfg).toNet.view r s) with
  | none => rw [fire_none cfg r s hs]; exact hi
  | some res =>
    obtain ⟨ans, ext', hrun, hres⟩ := toNet_step_some (machine cfg) r _ _ res hs
    by_cases h1 : r = .sched n
    · subst h1
      have hrun' : (progSched cfg n (s.priv (.sched n))).run ((machine cfg).toNet.view (.sched n) s) (fun _ => 0) = some (ans, ext') := hrun
      have hq := progSched_ts cfg n nc hnode _ _ ans ext' hrun'
      have eL : stepLine n ((machine cfg).toNet.fire (.sched n) s) = stepLine n s := by
        unfold stepLine
        rw [fire_q_other (machine cfg).toNet _ s (.node n .record) (by rw [pR]; simp) (by rw [cR]; simp),
            fire_q_other (machine cfg).toNet _ s (.node n .start) (by rw [pS]; simp) (by rw [cS]; simp),
            fire_priv_other (machine cfg).toNet _ (.step n) s (by simp)]
      refine ⟨?_, ?_, ?_, ?_, ?_, ?_⟩
      · rw [eL]; exact hi.linked
      · rw [eL]; exact hi.first
      · rw [eL, fire_q_other (machine cfg).toNet _ s (.node n .endPrev) (by rw [pE]; simp) (by rw [cE]; simp)]; exact hi.endq
      · rw [eL, fire_priv_other (machine cfg).toNet _ (.shift n) s (by simp)]; exact hi.drift
      · rw [fire_q_eq cfg _ s _ res hs]
        subst hres
        simp only [cC, pC, reduceCtorEq, if_false, if_true, List.drop_zero, Option.some.injEq]
        intro x hx
        rcases List.mem_append.mp hx with h | h
        · exact hi.schedq x h
        · rw [hq] at h
          simp only [List.mem_singleton] at h
          subst h
          rfl
      · rw [eL]; exact hi.sched
    · by_cases h2 : r = .shift n
      · subst h2
        have hrun' : (progShift cfg n (s.priv (.shift n))).run ((machine cfg).toNet.view (.shift n) s) (fun _ => 0) = some (ans, ext') := hrun
        obtain ⟨x, tsSched, e, hhead, hehead, hpop, hstart, hend, hx1, hx2, hx3, hx4⟩ := progShift_chain cfg n nc hnode _ _ ans ext' hrun'
        have hview : (machine cfg).toNet.view (.shift n) s (.node n .sched) = s.q (.node n .sched) := by simp [Net.view, cC]
        have hviewE : (machine cfg).toNet.view (.shift n) s (.node n .endPrev) = s.q (.node n .endPrev) := by simp [Net.view, cE]
        rw [hview] at hhead
        rw [hviewE, hi.endq] at hehead
        have he : e = lastEnd (stepLine n s) := by
          simp only [List.take, List.cons.injEq, Val.time.injEq, and_true] at hehead
          exact hehead.symm
        have eL : stepLine n ((machine cfg).toNet.fire (.shift n) s) = stepLine n s ++ [x] := by
          unfold stepLine
          rw [fire_q_other (machine cfg).toNet _ s (.node n .record) (by rw [pR]; simp) (by rw [cR]; simp),
              fire_priv_other (machine cfg).toNet _ (.step n) s (by simp), fire_q_eq cfg _ s _ res hs]
          subst hres
          simp only [cS, pS, reduceCtorEq, if_false, if_true, List.drop_zero, Option.some.injEq]
          rw [startLine_append, hstart]
          simp [List.append_assoc]
        have hx2' : x.hdr.tsEndPrev = lastEnd (stepLine n s) := by rw [hx2, he]
        have hx3' : x.hdr.phaseScheduled = lastDrift nc (stepLine n s) := by rw [hx3, hi.drift]
        have hsw : SchedWf nc (Val.tickTs x.tick tsSched) := by
          apply hi.schedq
          have := take_one_eq _ _ hhead
          rw [this]; exact List.mem_cons_self
        refine ⟨?_, ?_, ?_, ?_, ?_, ?_⟩
        · rw [eL]
          by_cases hne : stepLine n s = []
          · rw [hne]; trivial
          · exact linked_append_one nc _ x hi.linked hx2' hx3' hne
        · rw [eL]; exact firstOk_append_one _ x hi.first hx2' hx3'
        · rw [eL, lastEnd_append_one, fire_q_eq cfg _ s _ res hs]
          subst hres
          simp only [cE, pE, if_true, hpop, hi.endq, hend]
          rfl
        · rw [eL, lastDrift_append_one, fire_priv_eq cfg _ s res hs]
          subst hres
          exact hx4
        · rw [fire_q_eq cfg _ s _ res hs]
          subst hres
          simp only [cC, pC, reduceCtorEq, if_false, if_true, List.append_nil, Option.some.injEq, Rule.sched.injEq, Rule.shift.injEq]
          intro y hy
          exact hi.schedq y (List.mem_of_mem_drop hy)
        · rw [eL]
          intro y hy
          rcases List.mem_append.mp hy with h | h
          · exact hi.sched y h
          · simp only [List.mem_singleton] at h
            subst h
            rw [hx1]; exact hsw
      · by_cases h3 : r = .step n
        · subst h3
          have hrun' : (progStep cfg n (s.priv (.step n))).run ((machine cfg).toNet.view (.step n) s) (fun _ => 0) = some (ans, ext') := hrun
          have hview : (machine cfg).toNet.view (.step n) s (.node n .start) = s.q (.node n .start) := by simp [Net.view, cS]
          have eL : stepLine n ((machine cfg).toNet.fire (.step n) s) = stepLine n s := by
            unfold stepLine
            rw [fire_q_eq cfg _ s _ res hs, fire_q_eq cfg _ s _ res hs, fire_priv_eq cfg _ s res hs]
            subst hres
            simp only [cR, pR, cS, pS, reduceCtorEq, if_false, if_true, List.drop_zero, List.append_nil, Option.some.injEq]
            rcases progStep_line cfg n _ _ ans ext' hrun' with ⟨hp, tick, a, b, c, hhead, hpop, hq⟩ | ⟨y, hp, hpop, hq, hpend⟩
            · rw [hview] at hhead
              have hsplit := take_one_eq _ _ hhead
              have e : startLine (s.q (.node n .start)) = ⟨tick, a, b, c⟩ :: startLine ((s.q (.node n .start)).drop 1) := by
                have := congrArg startLine hsplit
                simpa [startLine] using this
              rw [hpop, recLine_append, e]
              have hp0 : pendLine (s.priv (.step n)) = [] := by simp [pendLine, hp]
              rw [hp0]
              simp only [List.append_nil, List.append_assoc]
              rw [← List.append_assoc (recLine (ans.2.2 (.node n .record))), hq]
              simp
            · rw [hpop, recLine_append, hq, hpend]
              simp [pendLine, hp, List.append_assoc]
          refine ⟨?_, ?_, ?_, ?_, ?_, ?_⟩
          · rw [eL]; exact hi.linked
          · rw [eL]; exact hi.first
          · rw [eL, fire_q_other (machine cfg).toNet _ s (.node n .endPrev) (by rw [pE]; simp) (by rw [cE]; simp)]; exact hi.endq
          · rw [eL, fire_priv_other (machine cfg).toNet _ (.shift n) s (by simp)]; exact hi.drift
          · rw [fire_q_other (machine cfg).toNet _ s (.node n .sched) (by rw [pC]; simp) (by rw [cC]; simp)]; exact hi.schedq
          · rw [eL]; exact hi.sched
        · have eL : stepLine n ((machine cfg).toNet.fire r s) = stepLine n s := by
            unfold stepLine
            rw [fire_q_other (machine cfg).toNet r s (.node n .record) (by rw [pR]; exact Ne.symm h3) (by rw [cR]; simp),
                fire_q_other (machine cfg).toNet r s (.node n .start) (by rw [pS]; exact Ne.symm h2) (by rw [cS]; intro h; exact h3 (Option.some.inj h).symm),
                fire_priv_other (machine cfg).toNet r (.step n) s (Ne.symm h3)]
          refine ⟨?_, ?_, ?_, ?_, ?_, ?_⟩
          · rw [eL]; exact hi.linked
          · rw [eL]; exact hi.first
          · rw [eL, fire_q_other (machine cfg).toNet r s (.node n .endPrev) (by rw [pE]; exact Ne.symm h2) (by rw [cE]; intro h; exact h2 (Option.some.inj h).symm)]; exact hi.endq
          · rw [eL, fire_priv_other (machine cfg).toNet r (.shift n) s (Ne.symm h2)]; exact hi.drift
          · rw [fire_q_other (machine cfg).toNet r s (.node n .sched) (by rw [pC]; exact Ne.symm h1) (by rw [cC]; intro h; exact h2 (Option.some.inj h).symm)]; exact hi.schedq
          · rw [eL]; exact hi.sched

theorem chainInv_run (cfg : Cfg T) (n : Nat) (nc : NodeCfg T) (hnode : cfg.node n = some nc) {s : MSt T} {σ : List Rule} {s' : MSt T}
    (h : Run (machine cfg).toNet.sys s σ s') (hi : ChainInv cfg n nc s) : ChainInv cfg n nc s' := by
  induction h with
  | nil _ => exact hi
  | cons _ _ ih => exact ih (chainInv_fire cfg n nc hnode _ _ hi)

theorem linked_getElem (nc : NodeCfg T) (l : List (StepT T)) (hl : Linked nc l) (i : Nat) (a b : StepT T)
    (ha : l[i]? = some a) (hb : l[i + 1]? = some b) :
    b.hdr.tsEndPrev = endOf a ∧ b.hdr.phaseScheduled = driftAfter nc a := by
  induction l generalizing i with
  | nil => simp at ha
  | cons x l ih =>
    cases l with
    | nil => simp at hb
    | cons y l =>
      obtain ⟨h1, h2, h3⟩ := hl
      cases i with
      | zero =>
        simp only [List.getElem?_cons_zero, Option.some.injEq] at ha
        simp only [Nat.zero_add, List.getElem?_cons_succ, List.getElem?_cons_zero, Option.some.injEq] at hb
        subst ha; subst hb
        exact ⟨h1, h2⟩
      | succ i =>
        rw [List.getElem?_cons_succ] at ha hb
        exact ih h3 i ha hb

/-- the recorded steps are the front of the node's step line -/
theorem recLine_getElem_stepLine (n : Nat) (s : MSt T) (i : Nat) (a : StepT T)
    (h : (recLine (s.q (.node n .record)))[i]? = some a) : (stepLine n s)[i]? = some a := by
  unfold stepLine
  rw [List.append_assoc]
  have hlt : i < (recLine (s.q (.node n .record))).length := by
    rcases Nat.lt_or_ge i (recLine (s.q (.node n .record))).length with hh | hh
    · exact hh
    · rw [List.getElem?_eq_none hh] at h; cases h
  rw [List.getElem?_append_left hlt]
  exact h

theorem mem_recLine_stepRec (l : List (Val T)) (x : StepT T) (h : x ∈ recLine l) :
    ∃ r : StepRec T, Val.stepRec r ∈ l ∧ x = ⟨r.seq, r.tsStart, r.delay, r.hdr⟩ := by
  induction l with
  | nil => cases h
  | cons v l ih =>
    cases v with
    | stepRec r =>
      simp only [recLine, List.mem_cons] at h
      rcases h with h | h
      · exact ⟨r, List.mem_cons_self, h⟩
      · obtain ⟨r', hm, he⟩ := ih h
        exact ⟨r', List.mem_cons_of_mem _ hm, he⟩
    | _ =>
      simp only [recLine] at h
      obtain ⟨r', hm, he⟩ := ih h
      exact ⟨r', List.mem_cons_of_mem _ hm, he⟩

end Rex.Async
