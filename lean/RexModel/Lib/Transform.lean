import RexModel.Gen.Transform

/-! Model of `rex.base` parameter transforms (C17). Core Lean only.

A parameter pytree is modelled by its flattened leaves. JAX's `tree_map` over trees of equal structure is
`List.map` / `zipWith` over the leaf lists; a "partial" tree (leaves that are `None`, possibly standing for a
whole subtree of the base tree) is a list of `Option` leaves aligned with the base tree's leaves. -/

namespace Rex.Transform

open Rex.Gen.Transform

/-- A transform on parameter values of type `P`: `apply` and `inv`. -/
structure T (P : Type) where
  apply : P → P
  inv   : P → P

/-- `Chain.apply`: `for t in <iter>: x = t.apply(x)` where `<iter>` is what the source iterates over. -/
def chainApplyOver {P} (iter : List (T P)) (x : P) : P := iter.foldl (fun acc t => t.apply acc) x
/-- `Chain.inv`: `for t in <iter>: x = t.inv(x)`. -/
def chainInvOver {P} (iter : List (T P)) (x : P) : P := iter.foldl (fun acc t => t.inv acc) x

/-- leafwise Denormalize on flattened trees -/
def denormInit {α} [Add α] [Sub α] [Div α] [NatCast α] (mins maxs : List α) : List (α × α) :=
  List.zipWith (fun mn mx => (denorm_scale mn mx, denorm_offset mn mx)) mins maxs

def denormApply {α} [Add α] [Mul α] (so : List (α × α)) (xs : List α) : List α :=
  List.zipWith (fun x (p : α × α) => denorm_denormalize x p.2 p.1) xs so

def denormInv {α} [Sub α] [Div α] (so : List (α × α)) (xs : List α) : List α :=
  List.zipWith (fun x (p : α × α) => denorm_normalize x p.2 p.1) xs so

/-- `Extend.extend`: leaves supplied (`some`) are kept, missing ones (`none`) come from the base tree. -/
def extend {α} (base : List α) (opt : List (Option α)) : List α :=
  List.zipWith (fun b o => match o with | none => b | some v => v) base opt

/-- `Extend.init`'s mask: which leaves were supplied. -/
def maskOf {α} (opt : List (Option α)) : List Bool := opt.map Option.isSome

/-- `Extend.filter`: keep exactly the masked leaves. -/
def filter {α} (mask : List Bool) (ext : List α) : List (Option α) :=
  List.zipWith (fun m x => if m then some x else none) mask ext

/-- `Shared.apply`/`inv` through `eqx.tree_at(where, params, new)`: replace the leaf at index `i`. -/
def treeAt {β} (i : Nat) (xs : List β) (new : β) : List β := xs.set i new

def sharedApply {α} (i j : Nat) (xs : List (Option α)) : List (Option α) := treeAt i xs (xs.getD j none)
def sharedInv {α} (i : Nat) (xs : List (Option α)) : List (Option α) := treeAt i xs none

end Rex.Transform
