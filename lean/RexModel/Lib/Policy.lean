import RexModel.Gen.Policy

/-! Model of the exported PPO policy (`rex/ppo.py` `Policy`, `PPOResult.policy`), of the `Actor` network it re-implements
(`rex/actor_critic.py`) and of the two places where `ppo.train` evaluates that network (C20). Core Lean only.

Only plumbing lives here: every arithmetic / lookup / index / flag expression is a generated kernel of
`RexModel/Gen/Policy.lean`.  Trusted (DESIGN §3.4): flax `Dense` (an abstract `dense : L → V → V`), flax's auto-naming of the
k-th `nn.Dense` created in a compact `__call__` as `"Dense_k"`, the activation functions behind the names `nn.tanh` … (an
abstract `interp : String → V → V`; both files import `flax.linen as nn`), distrax's `MultivariateNormalDiag(loc, scale)`
(`mean() = loc`, `sample(seed)` an abstract function of `(loc, scale, seed)`), numpy broadcasting (leafwise `zipWith`).
A Python exception (KeyError / ValueError / sampling with `seed=None`) is `none`. -/

namespace Rex.Policy

open Rex.Gen.Policy

/-! ### parameter dict of an Actor with a gaussian head and a state-independent std -/

/-- `"Dense_i"` -/
def denseKey (i : Nat) : String := "Dense_" ++ toString i
def logStdKey : String := "log_std"

/-- `params["actor"]`: `dense[i]` is stored under `"Dense_i"`, the std parameter under `"log_std"`. -/
structure ActorParams (L S : Type) where
  dense : List L
  logStd : S

variable {L S V ρ : Type}

def ActorParams.keys (p : ActorParams L S) : List String :=
  (List.range p.dense.length).map denseKey ++ [logStdKey]

/-- `actor_params[f"Dense_{i}"]` for an integer `i`; a missing key (also `"Dense_-1"`) is a KeyError. -/
def ActorParams.getDense (p : ActorParams L S) (i : Int) : Option L :=
  if i < 0 then none else p.dense[i.toNat]?

/-- `TABLE[name]` followed by the (trusted) meaning of the function's name; a missing name is an error. -/
def actOf (interp : String → V → V) (table : List (String × String)) (name : String) : Option (V → V) :=
  (table.lookup name).map interp

/-- `for i in range(m): x = f(x, i)` where `f` may raise. -/
def loopOpt {σ : Type} (f : σ → Nat → Option σ) (m : Nat) (x : σ) : Option σ :=
  (List.range m).foldl (fun st i => st.bind (f · i)) (some x)

/-! ### `Policy.apply_actor`: the hand-written forward pass -/

/-- `num_layers = sum([<pa_is_dense_key> for k in actor_params.keys()])` -/
def numLayers (strIn : String → String → Bool) (p : ActorParams L S) : Int :=
  ((p.keys.filter (pa_is_dense_key strIn)).length : Int)

/-- loop body: `hl = actor_params[f"Dense_{i}"]; x = Dense(hl)(x); x = ACTIVATIONS[self.hidden_activation](x)` -/
def policyHiddenStep (dense : L → V → V) (interp : String → V → V) (name : String) (p : ActorParams L S) (x : V) (i : Nat) :
    Option V :=
  (p.getDense (pa_hidden_key (i : Int))).bind fun hl =>
    let x := pa_hidden_dense (dense hl x)
    (actOf interp pa_act_table name).map fun act => pa_hidden_act act x

/-- `x_mean` of `Policy.apply_actor` -/
def policyMean (strIn : String → String → Bool) (dense : L → V → V) (interp : String → V → V) (name : String)
    (p : ActorParams L S) (norm_obs : V) : Option V :=
  let x := pa_x0 norm_obs
  let num_layers := numLayers strIn p
  (loopOpt (policyHiddenStep dense interp name p) (pa_range num_layers).toNat x).bind fun x =>
    (p.getDense (pa_final_key num_layers)).map fun hl => pa_mean (dense hl x)

/-- `distrax.MultivariateNormalDiag(loc, scale_diag)` -/
structure Gaussian (V S : Type) where
  loc : V
  scale : S

/-! ### `Actor.__call__` on the same parameter dict -/

/-- one iteration of the Actor's hidden loop; the state carries the number of `nn.Dense` modules created so far, which is
the index flax uses for the next one's name. -/
def actorHiddenStep (dense : L → V → V) (interp : String → V → V) (name : String) (p : ActorParams L S)
    (st : V × Nat) (_ : Nat) : Option (V × Nat) :=
  (p.getDense (st.2 : Int)).bind fun l =>
    let x := ac_hidden_dense (dense l st.1)
    (actOf interp ac_act_table name).map fun act => (act x, st.2 + 1)

/-- mean of the distribution returned by `Actor(num_hidden_layers = n, …).apply({"params": p}, x)` -/
def actorMean (dense : L → V → V) (interp : String → V → V) (name : String) (p : ActorParams L S) (n : Int) (x : V) :
    Option V :=
  (loopOpt (actorHiddenStep dense interp name p) (ac_range n).toNat (x, 0)).bind fun st =>
    (p.getDense (st.2 : Int)).map fun l => ac_mean (dense l st.1)

/-- what the network is meant to compute: a fold over the hidden layers, then the output layer -/
def mlp (dense : L → V → V) (act : V → V) (hidden : List L) (out : L) (x : V) : V :=
  dense out (hidden.foldl (fun x l => act (dense l x)) x)

/-- specification with exceptions: with no hidden layer the activation is never looked up; otherwise it must exist -/
def mlpO (dense : L → V → V) (ao : Option (V → V)) (hidden : List L) (out : L) (x : V) : Option V :=
  match hidden with
  | [] => some (dense out x)
  | _ :: _ => ao.map fun act => mlp dense act hidden out x

/-- What is assumed of Python's substring test `a in b` (an abstract `strIn a b`) on the keys of an Actor's parameter dict:
`"Dense" in "Dense_i"`, `not ("Dense" in "log_std")`, `k in k`. -/
structure StrInOk (strIn : String → String → Bool) : Prop where
  dense : ∀ i, strIn "Dense" (denseKey i) = true
  logStd : strIn "Dense" logStdKey = false
  refl : ∀ k, strIn k k = true

/-! ### observation normalisation and action squashing (leafwise) -/

structure NormState (α : Type) where
  mean : List α
  var : List α
  clip : α

section Scalar
variable {α : Type} [Add α] [Sub α] [Mul α] [Div α] [Neg α] [NatCast α] [Max α] [Min α]

/-! ### the gaussian head on both sides (`log_std` is a vector of scalars; `jnp.exp` acts leafwise) -/

/-- the gaussian head of `Policy.apply_actor`: sample when an rng is given, the mean otherwise
(`pi.sample(seed=None)` raises) -/
def policyHead (sample : Gaussian V (List α) → ρ → V) (exp : α → α) (logStd : List α) (x_mean : V) (rng : Option ρ) :
    Option V :=
  if pa_use_rng rng.isSome then
    rng.map fun r => pa_return (pa_sampled (sample ⟨pa_loc x_mean, logStd.map (pa_scale exp)⟩ r))
  else some (pa_return (pa_det x_mean))

def applyActor (strIn : String → String → Bool) (dense : L → V → V) (interp : String → V → V)
    (sample : Gaussian V (List α) → ρ → V) (exp : α → α) (name : String) (p : ActorParams L (List α)) (norm_obs : V)
    (rng : Option ρ) : Option V :=
  (policyMean strIn dense interp name p norm_obs).bind fun m => policyHead sample exp p.logStd m rng

/-- the distribution `pi` returned by the Actor -/
def actorPi (dense : L → V → V) (interp : String → V → V) (exp : α → α) (name : String) (p : ActorParams L (List α))
    (n : Int) (x : V) : Option (Gaussian V (List α)) :=
  (actorMean dense interp name p n x).map fun m => ac_return ⟨ac_loc m, p.logStd.map (ac_scale exp)⟩

/-- `NormalizeVec.normalize` on one leaf -/
def normalizeScalar (sqrt : α → α) (mean var c : α) (clip submean : Bool) (x : α) : α :=
  let x := if nv_if_submean submean then nv_sub x mean else x
  let x := nv_div sqrt x var
  let x := if nv_if_clip clip then nv_clip x c else x
  nv_return x

def normalize (sqrt : α → α) (ns : NormState α) (obs : List α) (clip submean : Bool) : List α :=
  List.zipWith (fun x (mv : α × α) => normalizeScalar sqrt mv.1 mv.2 ns.clip clip submean x) obs (List.zip ns.mean ns.var)

structure SquashState (α : Type) where
  low : List α
  high : List α
  squash : Bool

/-- `SquashState.unsquash` on one leaf -/
def unsquashScalar (tanh : α → α) (squash : Bool) (low high x : α) : α :=
  if us_if_squash squash then us_return (us_scale (us_tanh tanh x) low high) else us_return (us_clip x low high)

def unsquash (tanh : α → α) (s : SquashState α) (x : List α) : List α :=
  List.zipWith (fun x (lh : α × α) => unsquashScalar tanh s.squash lh.1 lh.2 x) x (List.zip s.low s.high)

/-! ### `Policy.get_action` and the training-time paths of `ppo.train` -/

/-- the exported policy object -/
structure Policy (α L : Type) where
  actScaling : Option (SquashState α)
  obsScaling : Option (NormState α)
  model : Option (ActorParams L (List α))
  hiddenActivation : String

/-- the abstract environment of the network: Python substring test, flax Dense, activation names, distrax sampling,
`jnp.exp`, `jnp.sqrt`, `jnp.tanh`. -/
structure Env (α L ρ : Type) where
  strIn : String → String → Bool
  dense : L → List α → List α
  interp : String → List α → List α
  sample : Gaussian (List α) (List α) → ρ → List α
  exp : α → α
  sqrt : α → α
  tanh : α → α

/-- `Policy.get_action(obs, rng)`; `none` = an exception. `zeros` is the `jnp.zeros((action_dim,))` of the model-less branch. -/
def getAction (E : Env α L ρ) (π : Policy α L) (zeros : List α) (obs : List α) (rng : Option ρ) : Option (List α) :=
  let normalizeO : Option (List α) → Bool → Bool → Option (List α) := fun o c s =>
    o.bind fun o => π.obsScaling.map fun ns => normalize E.sqrt ns o c s
  let norm_obs := ga_norm_obs normalizeO π.obsScaling.isSome (some obs)
  let applyO : Option (List α) → Option ρ → Option (List α) := fun o r =>
    o.bind fun o => π.model.bind fun p => applyActor E.strIn E.dense E.interp E.sample E.exp π.hiddenActivation p o r
  let action := ga_action0 applyO π.model.isSome norm_obs rng (some zeros)
  let unsquashO : Option (List α) → Option (List α) := fun a =>
    a.bind fun a => π.actScaling.map fun s => unsquash E.tanh s a
  let action := ga_action1 unsquashO π.actScaling.isSome action
  ga_return action

/-- What `ppo.train`'s in-training evaluation (`_evaluate_env_step`) feeds to the wrapped base environment for a raw
observation `obs`, with the final parameters `p`, the Actor built with `num_hidden_layers = n` and activation `name`, the
normalisation state `ns` (present iff `NORMALIZE_ENV`) and the action scaling `sq` stored by `SquashActionWrapper`:
normalise with the call-site flags, `pi = Actor(...)`, `action = pi.mean()`, `vec_env.step` → `SquashActionWrapper.step`. -/
def evalPathAction (E : Env α L ρ) (name : String) (n : Int) (p : ActorParams L (List α)) (ns : Option (NormState α))
    (sq : SquashState α) (obs : List α) : Option (List α) :=
  let last_obs := match ns with
    | some ns => normalize E.sqrt ns obs ev_norm_clip ev_norm_submean
    | none => obs
  (actorPi E.dense E.interp E.exp name p n last_obs).map fun pi =>
    wr_step_action (unsquash E.tanh sq) (ev_action pi.loc)

/-- What trajectory collection (`_env_step`) feeds to the wrapped base environment when the base environment produced the
raw observation `obs`: `NormalizeVecObservationWrapper.step` normalises it with its call-site flags (only under
`NORMALIZE_ENV`), `action = pi.sample(seed=rng)`, `env.step` → `SquashActionWrapper.step`. -/
def trainPathAction (E : Env α L ρ) (name : String) (n : Int) (p : ActorParams L (List α)) (ns : Option (NormState α))
    (sq : SquashState α) (obs : List α) (rng : ρ) : Option (List α) :=
  let last_obs := match ns with
    | some ns => normalize E.sqrt ns obs wr_norm_clip wr_norm_submean
    | none => obs
  (actorPi E.dense E.interp E.exp name p n last_obs).map fun pi =>
    wr_step_action (unsquash E.tanh sq) (tr_action (E.sample pi rng))

end Scalar

end Rex.Policy
