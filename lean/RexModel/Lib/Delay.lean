import RexModel.Gen.Delay

/-! Model of `TrainableDist.apply_delay` with zero-order hold (C10). Core Lean only. -/

namespace Rex.Delay

open Rex.Gen.Delay

structure Msg (α : Type) where
  seq : Int
  sent : α
  recv : α
  data : Int
deriving Repr

section
variable {α : Type} [Add α] [LT α] [DecidableLT α] [NatCast α] [IntCast α]

/-- receive time of a window entry under the trainable delay `d` (dummy entries keep their recorded time) -/
def recv' (d : α) (m : Msg α) : α := zoh_recv_masked m.seq m.recv (zoh_recv m.sent d)

/-- `jnp.argwhere(ts_recv > ts_start, size=1, fill_value=cum_window)[0, 0]`: index of the first entry still in flight -/
def idxMax (d start : α) (L : List (Msg α)) : Nat :=
  (L.takeWhile fun m => !zoh_future (recv' d m) start).length

/-- `jax.lax.dynamic_slice` start index: negative indices are wrapped by the dimension size, then clamped into range -/
def sliceStart (cum window : Nat) (idxMin : Int) : Nat :=
  let i := if idxMin < 0 then idxMin + cum else idxMin
  (max 0 (min i ((cum : Int) - window))).toNat

/-- zero-order hold: the `window` entries ending just before the first entry still in flight -/
def applyDelayZoh (d start : α) (window : Nat) (L : List (Msg α)) : List (Msg α) :=
  (L.drop (sliceStart L.length window (zoh_idx_min (idxMax d start L) window))).take window

end

end Rex.Delay
