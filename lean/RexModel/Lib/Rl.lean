import RexModel.Gen.Rl

/-! Model of the RL environment wrappers of `rex/rl.py` (C19). Core Lean only.

Every arithmetic expression, comparison, clip and branch is a *generated* kernel (`RexModel/Gen/Rl.lean`, regenerated from the
current source on every run); this file only contains the plumbing: record fields, folds over histories, the order in which
the kernels feed each other (which mirrors the data flow of the Python statements, checked by the extractor through the
declared parameter names of every kernel).

Arrays are modelled per coordinate: a vector observation / action is handled one coordinate at a time (all JAX operations
involved are elementwise or reductions along the batch axis), the batch axis of the vectorised wrappers is a `List`. -/

namespace Rex.Rl

open Rex.Gen.Rl

section
variable {α : Type} [Add α] [Sub α] [Mul α] [Div α] [Neg α] [LT α] [LE α] [DecidableLT α] [DecidableLE α]
  [BEq α] [Max α] [Min α] [NatCast α] [IntCast α]

/-- a boolean entering arithmetic (`1 - done`, `x * done`): JAX promotes `False/True` to `0/1`. -/
def b2n (b : Bool) : α := if b then (Nat.cast 1 : α) else (Nat.cast 0 : α)

/-! ## LogWrapper -/

/-- `rl.LogState` -/
structure LogState (α : Type) where
  ret  : α   -- episode_returns
  len  : α   -- episode_lengths
  rret : α   -- returned_episode_returns
  rlen : α   -- returned_episode_lengths
  t    : α   -- timestep

/-- what the wrapped environment's step returned, as far as the log wrapper looks at it -/
structure Step (α : Type) where
  reward     : α
  terminated : Bool
  truncated  : Bool

/-- `LogWrapper.reset` -/
def logInit : LogState α :=
  { ret := log_init_ret, len := log_init_len, rret := log_init_rret, rlen := log_init_rlen, t := log_init_t }

/-- `LogWrapper.step`: the new log state -/
def logStep (s : LogState α) (x : Step α) : LogState α :=
  let done : α := b2n (log_done x.terminated x.truncated)
  let newRet := log_new_return s.ret x.reward
  let newLen := log_new_length s.len
  { ret := log_ret newRet done, len := log_len newLen done,
    rret := log_rret s.rret done newRet, rlen := log_rlen s.rlen done newLen, t := log_timestep s.t }

/-- the four `info[...]` entries written by `LogWrapper.step` -/
structure LogInfo (α : Type) where
  returns  : α
  lengths  : α
  timestep : α
  returned : α

def logInfo (s : LogState α) (x : Step α) : LogInfo α :=
  let s' := logStep s x
  { returns := log_info_returns s'.rret, lengths := log_info_lengths s'.rlen, timestep := log_info_timestep s'.t,
    returned := log_info_done (b2n (log_done x.terminated x.truncated)) }

def logRun (s : LogState α) (h : List (Step α)) : LogState α := h.foldl logStep s

/-- the `info` of every step of a history -/
def logInfos (s : LogState α) : List (Step α) → List (LogInfo α)
  | [] => []
  | x :: h => logInfo s x :: logInfos (logStep s x) h

/-! ## squash / clip (one coordinate, and coordinatewise over an action vector) -/

def unsquashVec (tanh : α → α) (squash : Bool) (xs lows highs : List α) : List α :=
  List.zipWith (fun x (lh : α × α) => sq_unsquash tanh squash x lh.1 lh.2) xs (List.zip lows highs)

def scaleVec (arctanh : α → α) (squash : Bool) (xs lows highs : List α) : List α :=
  List.zipWith (fun x (lh : α × α) => sq_scale arctanh squash x lh.1 lh.2) xs (List.zip lows highs)

/-- `SquashActionWrapper`: `reset` stores (`low`, `high`, `squash`) of the wrapped action space, `step` hands
`unsquash(action)` to the wrapped environment. -/
def squashWrapperStep {G Ret : Type} (tanh : α → α) (wrapperSquash : Bool) (spaceLow spaceHigh : List α)
    (envStep : G → List α → Ret) (gs : G) (action : List α) : Ret :=
  let lows := spaceLow.map sqw_low
  let highs := spaceHigh.map sqw_high
  let sq := sqw_squash wrapperSquash
  sqw_step (unsquashVec tanh sq · lows highs) envStep (lows, highs, sq) gs action

/-- `ClipActionWrapper.step` -/
def clipWrapperStep {G Ret : Type} (spaceLow spaceHigh : List α) (envStep : G → List α → Ret) (gs : G) (action : List α) : Ret :=
  envStep gs ((List.zipWith (fun x (lh : α × α) => clip_action x lh.1 lh.2) action (List.zip spaceLow spaceHigh)).map clip_step_action)

/-! ## running moments -/

/-- the (`mean`, `var`, `count`) part of `rl.NormalizeVec`, one feature coordinate -/
structure Moments (α : Type) where
  mean  : α
  var   : α
  count : α

/-- the update in `NormalizeVecObservationWrapper.reset` -/
def chanObs0 (m : Moments α) (batchMean batchVar batchCount : α) : Moments α :=
  let delta := obs0_delta batchMean m.mean
  let tot := obs0_tot_count m.count batchCount
  let newMean := obs0_new_mean m.mean delta batchCount tot
  let mA := obs0_m_a m.var m.count
  let mB := obs0_m_b batchVar batchCount
  let m2 := obs0_M2 mA mB delta m.count batchCount tot
  { mean := obs0_out_mean newMean, var := obs0_out_var (obs0_new_var m2 tot), count := obs0_out_count (obs0_new_count tot) }

/-- the update in `NormalizeVecObservationWrapper.step` -/
def chanObs (m : Moments α) (batchMean batchVar batchCount : α) : Moments α :=
  let delta := obs_delta batchMean m.mean
  let tot := obs_tot_count m.count batchCount
  let newMean := obs_new_mean m.mean delta batchCount tot
  let mA := obs_m_a m.var m.count
  let mB := obs_m_b batchVar batchCount
  let m2 := obs_M2 mA mB delta m.count batchCount tot
  { mean := obs_out_mean newMean, var := obs_out_var (obs_new_var m2 tot), count := obs_out_count (obs_new_count tot) }

/-- the update in `NormalizeVecReward.step` -/
def chanRew (m : Moments α) (batchMean batchVar batchCount : α) : Moments α :=
  let delta := rew_delta batchMean m.mean
  let tot := rew_tot_count m.count batchCount
  let newMean := rew_new_mean m.mean delta batchCount tot
  let mA := rew_m_a m.var m.count
  let mB := rew_m_b batchVar batchCount
  let m2 := rew_M2 mA mB delta m.count batchCount tot
  { mean := rew_out_mean newMean, var := rew_out_var (rew_new_var m2 tot), count := rew_out_count (rew_new_count tot) }

def sumL (xs : List α) : α := xs.foldr (· + ·) (Nat.cast 0 : α)

/-- `jnp.mean(xs, axis=0)` -/
def batchMean (xs : List α) : α := sumL xs / (Nat.cast xs.length : α)

/-- `jnp.var(xs, axis=0)`: the population variance (`ddof = 0`) -/
def batchVar (xs : List α) : α :=
  sumL (xs.map fun x => (x - batchMean xs) * (x - batchMean xs)) / (Nat.cast xs.length : α)

/-- the prior `NormalizeVecObservationWrapper.reset` starts from -/
def obsPrior : Moments α := { mean := obs0_prior_mean, var := obs0_prior_var, count := obs0_prior_count }

/-- `NormalizeVecObservationWrapper.reset` on the batch of initial observations (one feature coordinate) -/
def obsReset (batch : List α) : Moments α :=
  chanObs0 obsPrior (batchMean (batch.map obs0_mean_of)) (batchVar (batch.map obs0_var_of)) (obs0_count_of (Nat.cast batch.length : α))

/-- `NormalizeVecObservationWrapper.step` on the batch of new observations -/
def obsStep (m : Moments α) (batch : List α) : Moments α :=
  chanObs m (batchMean (batch.map obs_mean_of)) (batchVar (batch.map obs_var_of)) (obs_count_of (Nat.cast batch.length : α))

def obsRun (b0 : List α) (bs : List (List α)) : Moments α := bs.foldl obsStep (obsReset b0)

/-- the observation handed out by `reset` / `step`: normalised with the *updated* statistics -/
def obsOut0 (sqrt : α → α) (m' : Moments α) (clipv : α) (x : α) : α :=
  nv_normalize sqrt obs0_norm_clip obs0_norm_submean (obs0_norm_arg x) m'.mean m'.var clipv

def obsOut (sqrt : α → α) (m' : Moments α) (clipv : α) (x : α) : α :=
  nv_normalize sqrt obs_norm_clip obs_norm_submean (obs_norm_arg x) m'.mean m'.var clipv

/-- `NormalizeVecReward`: moments of the discounted-return accumulators plus the accumulators (one per environment) -/
structure RewState (α : Type) where
  m  : Moments α
  rv : List α

def rewPrior (nEnvs : Nat) : RewState α :=
  { m := { mean := rew_prior_mean, var := rew_prior_var, count := rew_prior_count }, rv := List.replicate nEnvs rew_prior_return_val }

/-- one environment's accumulator -/
def rewAcc (gamma : α) (prev : α) (x : Step α) : α :=
  rew_return_val prev gamma (b2n (rew_done x.terminated x.truncated)) x.reward

/-- `NormalizeVecReward.step`; `xs` = the wrapped vector environment's rewards / flags, one per environment -/
def rewStep (gamma : α) (s : RewState α) (xs : List (Step α)) : RewState α :=
  let rv := List.zipWith (rewAcc gamma) s.rv xs
  { m := chanRew s.m (batchMean (rv.map rew_mean_of)) (batchVar (rv.map rew_var_of)) (rew_count_of (Nat.cast xs.length : α)),
    rv := rv.map rew_out_return_val }

def rewRun (gamma : α) (nEnvs : Nat) (h : List (List (Step α))) : RewState α := h.foldl (rewStep gamma) (rewPrior nEnvs)

/-- the reward handed out by `step` -/
def rewOut (sqrt : α → α) (m' : Moments α) (clipv : α) (r : α) : α :=
  nv_normalize sqrt rew_norm_clip rew_norm_submean (rew_norm_arg r) m'.mean m'.var clipv

end

/-! ## AutoResetWrapper -/

section AutoReset
variable {G O R I A : Type}

/-- (graph_state, observation, reward, terminated, truncated, info) -/
abbrev StepRet (G O R I : Type) := G × O × R × Bool × Bool × I

/-- `AutoResetWrapper.step` after `self._env.step` returned `inner`. (`initGs`, `initObs`, `initInfo`) is the initial state the
wrapper selects on `done`: with `fixed_init` the stored one (graph state carrying the current rng and the current `aux`),
otherwise the result of a fresh `self._env.reset(rng_init)` (carrying the current `aux`). -/
def arStep (inner : StepRet G O R I) (initGs : G) (initObs : O) (initInfo : I) : StepRet G O R I :=
  match inner with
  | (gs, obs, reward, terminated, truncated, info) =>
    let done := ar_done terminated truncated
    let nxt := ar_select done (ar_is_done initGs initObs initInfo) (ar_not_done gs obs info)
    ar_return nxt.1 nxt.2.1 reward terminated truncated nxt.2.2

/-- the wrapped environment: `f` = inner step, `mkInit gs'` = the initial state selected when the inner step returned the
graph state `gs'` (see `arStep`). -/
def arEnvStep (f : G → A → StepRet G O R I) (mkInit : G → G × O × I) (gs : G) (a : A) : StepRet G O R I :=
  let r := f gs a
  let ini := mkInit r.1
  arStep r ini.1 ini.2.1 ini.2.2

/-- outputs of a whole action sequence through the wrapped environment -/
def arRun (f : G → A → StepRet G O R I) (mkInit : G → G × O × I) : G → List A → List (StepRet G O R I)
  | _, [] => []
  | gs, a :: as => arEnvStep f mkInit gs a :: arRun f mkInit (arEnvStep f mkInit gs a).1 as

end AutoReset

end Rex.Rl
