import RexModel.Gen.PadStack

/-! # Model of rex's graph / record containers (C14)

Plumbing around the kernels of `RexModel/Gen/PadStack.lean` (regenerated from `rex/base.py` and `rex/utils.py`):

* a Python `dict` is a list of keys (insertion order, no duplicates) plus a total lookup function that is only
  meaningful on those keys;
* a 1-D numpy array is a `List α`, a stacked (episode × time) array is a `List (List α)`; integer (`seq`) and
  float (`ts`) arrays share the carrier `α` (`-1` and `-1.0` are the same element `-(1 : α)`);
* `jax.tree_util.tree_map(f, *trees)` over `Graph`/`EpisodeRecord` pytrees is "apply `f` to the list of
  corresponding leaves", written out per field.

Core Lean only (the driver compiles this file). -/

namespace Rex.PadStack

open Rex.Gen.PadStack

/-! ## arrays -/

/-- `onp.pad(arr, (before, after), constant_values=fill)` along the leading axis. -/
def padArr {β : Type} (w : Int × Int) (fill : β) (xs : List β) : List β :=
  List.replicate w.1.toNat fill ++ xs ++ List.replicate w.2.toNat fill

/-- `max(len(arr) for arr in arrays)` (0 for no arrays; Python raises there, `stack` is never reached). -/
def maxLen {β : Type} (xs : List (List β)) : Nat := (xs.map List.length).foldl max 0

/-- columns of a list of equally long rows -/
def transposeRows {β : Type} (rows : List (List β)) : List (List β) :=
  (List.range (maxLen rows)).map fun j => rows.filterMap fun r => r[j]?

/-- `onp.stack(rows, axis=axis)` for 1-D rows of one length: axis 0 keeps the rows, axis 1 transposes. -/
def stackAxis {β : Type} (axis : Int) (rows : List (List β)) : List (List β) :=
  if axis == 0 then rows else transposeRows rows

/-- `onp.array(x)` succeeds on a tuple of arrays iff they all have the same shape. -/
def allSameLen {β : Type} (xs : List (List β)) : Bool := xs.all fun a => a.length == maxLen xs

section
variable {α : Type} [Add α] [Sub α] [Mul α] [Div α] [Neg α] [LT α] [LE α] [DecidableLT α] [DecidableLE α]
  [BEq α] [Max α] [Min α] [NatCast α] [IntCast α]

/-- `Graph.stack._stack(*leaves)`: pad every episode's array to the longest one, then stack. -/
def stackLeaf (xs : List (List α)) : List (List α) :=
  stackAxis gstack_axis (xs.map fun arr => padArr (gstack_pad_width (maxLen xs : Nat) (arr.length : Nat)) gstack_fill arr)

/-- `ExperimentRecord._padded_stack._pad(*leaves)` with `fill_value = fill`: `onp.array(x)` when that works,
otherwise pad the leading axis and convert. -/
def rpadLeaf (fill : α) (xs : List (List α)) : List (List α) :=
  if allSameLen xs then xs
  else xs.map fun arr => padArr (rpad_width (maxLen xs : Nat) (arr.length : Nat)) (rpad_fill fill) arr

/-- the array `arr` followed by `n` padding entries -/
def padCol (n : Nat) (c : List α) : List α := c ++ List.replicate n (gstack_fill : α)

end

/-! ## containers -/

/-- `rex.base.Vertex` with columns of type `C` -/
structure Vertex (C : Type) where
  seq : C
  tsStart : C
  tsEnd : C

/-- `rex.base.Edge` -/
structure Edge (C : Type) where
  seqOut : C
  seqIn : C
  tsRecv : C

/-- `rex.base.MessageRecord` -/
structure Msgs (C : Type) where
  seqOut : C
  seqIn : C
  tsSent : C
  tsRecv : C
  delay : C

def Vertex.map {C D : Type} (f : C → D) (v : Vertex C) : Vertex D := ⟨f v.seq, f v.tsStart, f v.tsEnd⟩
def Edge.map {C D : Type} (f : C → D) (e : Edge C) : Edge D := ⟨f e.seqOut, f e.seqIn, f e.tsRecv⟩
def Msgs.map {C D : Type} (f : C → D) (m : Msgs C) : Msgs D := ⟨f m.seqOut, f m.seqIn, f m.tsSent, f m.tsRecv, f m.delay⟩

/-- `rex.base.Graph`: `vertices : Dict[str, Vertex]`, `edges : Dict[(str, str), Edge]` -/
structure Graph (κ C : Type) where
  vkeys : List κ
  v : κ → Vertex C
  ekeys : List (κ × κ)
  e : κ × κ → Edge C

def Graph.map {κ C D : Type} (f : C → D) (g : Graph κ C) : Graph κ D :=
  ⟨g.vkeys, fun k => (g.v k).map f, g.ekeys, fun k => (g.e k).map f⟩

/-- The time-indexed part of `rex.base.EpisodeRecord` that C14 is about: per node the step columns
(`steps.seq/ts_start/ts_end`), the keys of `inputs` and of `info.inputs`, per connection the message columns. -/
structure Record (κ C : Type) where
  nkeys : List κ
  steps : κ → Vertex C
  ikeys : κ → List κ
  infoKeys : κ → List κ
  msgs : κ × κ → Msgs C

def Record.map {κ C D : Type} (f : C → D) (r : Record κ C) : Record κ D :=
  ⟨r.nkeys, fun k => (r.steps k).map f, r.ikeys, r.infoKeys, fun k => (r.msgs k).map f⟩

/-- the `nodes` argument of the filters: the selected names (dict keys) and, per selected node object, the keys of
its `inputs` dict (the *input names*: the output node's name unless `connect(..., name=...)` was used). -/
structure Sel (κ : Type) where
  names : List κ
  inputs : κ → List κ

section
variable {κ : Type} [DecidableEq κ]
variable {α : Type} [Add α] [Sub α] [Mul α] [Div α] [Neg α] [LT α] [LE α] [DecidableLT α] [DecidableLE α]
  [BEq α] [Max α] [Min α] [NatCast α] [IntCast α]

/-! ## stack / index / len -/

def stackV (vs : List (Vertex (List α))) : Vertex (List (List α)) :=
  ⟨stackLeaf (vs.map (·.seq)), stackLeaf (vs.map (·.tsStart)), stackLeaf (vs.map (·.tsEnd))⟩

def stackE (es : List (Edge (List α))) : Edge (List (List α)) :=
  ⟨stackLeaf (es.map (·.seqOut)), stackLeaf (es.map (·.seqIn)), stackLeaf (es.map (·.tsRecv))⟩

/-- `Graph.stack(graphs)` = `tree_map(_stack, *graphs)`; the result has the dict structure of the first graph
(jax raises unless all graphs have that structure). `none` for an empty list (jax raises). -/
def stack (gs : List (Graph κ (List α))) : Option (Graph κ (List (List α))) :=
  match gs with
  | [] => none
  | g0 :: _ => some ⟨g0.vkeys, fun k => stackV (gs.map (·.v k)), g0.ekeys, fun k => stackE (gs.map (·.e k))⟩

/-- row `i` of a stacked array: `v[val]` -/
def rowAt {β : Type} (i : Nat) (c : List (List β)) : List β := ggetitem_leaf (c.getD i [])

/-- `Graph.__getitem__(i)` of a stacked graph (`ndim = 2`); `none` = the `raise` branches -/
def getEp (g : Graph κ (List (List α))) (i : Nat) : Option (Graph κ (List α)) :=
  match g.vkeys with
  | [] => none  -- next(iter(...)) raises StopIteration
  | _ :: _ => if ggetitem_unbatched 2 then none else some (g.map (rowAt i))

/-- `Graph.__len__` of a stacked graph: `shape = (episodes, time)`; `none` = StopIteration on a graph without vertices -/
def lenStacked (g : Graph κ (List (List α))) : Option Int :=
  match g.vkeys with
  | [] => none
  | k :: _ => some (if glen_batched 2 then glen_then ((g.v k).seq.length : Nat) else glen_else)

/-- `Graph.__len__` of a single-episode graph: `shape = (time,)` -/
def lenSingle (g : Graph κ (List α)) : Option Int :=
  match g.vkeys with
  | [] => none
  | k :: _ => some (if glen_batched 1 then glen_then ((g.v k).seq.length : Nat) else glen_else)

def Vertex.pad (n : Nat) (v : Vertex (List α)) : Vertex (List α) := ⟨padCol n v.seq, padCol n v.tsStart, padCol n v.tsEnd⟩
def Edge.pad (n : Nat) (e : Edge (List α)) : Edge (List α) := ⟨padCol n e.seqOut, padCol n e.seqIn, padCol n e.tsRecv⟩
def Msgs.pad (n : Nat) (m : Msgs (List α)) : Msgs (List α) :=
  ⟨padCol n m.seqOut, padCol n m.seqIn, padCol n m.tsSent, padCol n m.tsRecv, padCol n m.delay⟩

/-- a graph whose vertex `k` got `nv k` and whose edge `k` got `ne k` trailing padding rows -/
def Graph.pad (nv : κ → Nat) (ne : κ × κ → Nat) (g : Graph κ (List α)) : Graph κ (List α) :=
  ⟨g.vkeys, fun k => (g.v k).pad (nv k), g.ekeys, fun k => (g.e k).pad (ne k)⟩

/-! ## records -/

def stackRV (fill : α) (vs : List (Vertex (List α))) : Vertex (List (List α)) :=
  ⟨rpadLeaf fill (vs.map (·.seq)), rpadLeaf fill (vs.map (·.tsStart)), rpadLeaf fill (vs.map (·.tsEnd))⟩

def stackRM (fill : α) (ms : List (Msgs (List α))) : Msgs (List (List α)) :=
  ⟨rpadLeaf fill (ms.map (·.seqOut)), rpadLeaf fill (ms.map (·.seqIn)), rpadLeaf fill (ms.map (·.tsSent)),
   rpadLeaf fill (ms.map (·.tsRecv)), rpadLeaf fill (ms.map (·.delay))⟩

/-- `ExperimentRecord.stack("padded")` = `_padded_stack(fill_value=rstack_fill)` = `tree_map(_pad, *episodes)` -/
def paddedStack (rs : List (Record κ (List α))) : Option (Record κ (List (List α))) :=
  match rs with
  | [] => none
  | r0 :: _ => some ⟨r0.nkeys, fun k => stackRV rstack_fill (rs.map (·.steps k)), r0.ikeys, r0.infoKeys,
                     fun k => stackRM rstack_fill (rs.map (·.msgs k))⟩

/-- `EpisodeRecord.__getitem__(i)` of a stacked record -/
def Record.getEp (r : Record κ (List (List α))) (i : Nat) : Record κ (List α) :=
  r.map fun c => rgetitem_leaf (c.getD i [])

/-- the Edge that `to_graph` builds from a message record: `seq_out`, `seq_in`, `ts_recv` (not `ts_sent`, not `delay`) -/
def edgeOfMsgs {C : Type} (m : Msgs C) : Edge C := ⟨m.seqOut, m.seqIn, m.tsRecv⟩

/-- the `(key, Edge)` items that `EpisodeRecord.to_graph` writes into `edges`, in order -/
def toGraphEdges {C : Type} (r : Record κ C) : List ((κ × κ) × Edge C) :=
  r.nkeys.flatMap fun n2 => (r.ikeys n2).map fun n1 =>
    let m := r.msgs (n1, n2)
    let seq_in := tg_seq_in m.seqIn
    let seq_out := tg_seq_out m.seqOut
    let ts_recv := tg_ts_recv m.tsRecv
    (tg_edge_key n1 n2,
      ⟨tg_edge_seq_out seq_out seq_in ts_recv, tg_edge_seq_in seq_out seq_in ts_recv, tg_edge_ts_recv seq_out seq_in ts_recv⟩)

/-- Python dict semantics of repeated `d[k] = v`: the last write wins -/
def lookupLast {K V : Type} [DecidableEq K] (l : List (K × V)) (k : K) : Option V :=
  (l.reverse.find? fun p => p.1 == k).map (·.2)

/-- `EpisodeRecord.to_graph()`; `dflt` is the (never observed) value of the lookup function outside the keys -/
def toGraph {C : Type} (dflt : Edge C) (r : Record κ C) : Graph κ C :=
  { vkeys := r.nkeys
    v := fun n => ⟨tg_vertex_seq (r.steps n).seq, tg_vertex_ts_start (r.steps n).tsStart, tg_vertex_ts_end (r.steps n).tsEnd⟩
    ekeys := (toGraphEdges r).map (·.1)
    e := fun k => (lookupLast (toGraphEdges r) k).getD dflt }

/-! ## filters -/

/-- the `connections` set computed by `Graph.filter` -/
def gfilterConns {C : Type} (g : Graph κ C) (s : Sel κ) (flag : Bool) : List (κ × κ) :=
  s.names.flatMap fun n2 =>
    if gfilter_flag flag then
      (s.inputs n2).flatMap fun n1 => if gfilter_in_nodes_e n1 s.names then [gfilter_add_e n1 n2] else []
    else if gfilter_dst_present n2 g.vkeys then
      (g.ekeys.filter fun x => gfilter_edge_into x.2 n2).flatMap fun x =>
        if gfilter_in_nodes_v x.1 s.names then [gfilter_add_v x.1 n2] else []
    else []

/-- `Graph.filter(nodes, filter_edges=flag)` -/
def gfilter {C : Type} (g : Graph κ C) (s : Sel κ) (flag : Bool) : Graph κ C :=
  { vkeys := g.vkeys.filter fun k => !(gfilter_pop_vertex k s.names)
    v := g.v
    ekeys := g.ekeys.filter fun x => !(gfilter_pop_edge x.1 x.2 (gfilterConns g s flag))
    e := g.e }

/-- the `connections` set computed by `EpisodeRecord.filter` -/
def rfilterConns {C : Type} (r : Record κ C) (s : Sel κ) (flag : Bool) : List (κ × κ) :=
  s.names.flatMap fun n2 =>
    if rfilter_flag flag then
      (s.inputs n2).flatMap fun n1 => if rfilter_in_nodes_c n1 s.names then [rfilter_add_c n1 n2] else []
    else if rfilter_dst_present n2 r.nkeys then
      (r.ikeys n2).flatMap fun n1 => if rfilter_in_nodes_r n1 s.names then [rfilter_add_r n1 n2] else []
    else []

/-- `EpisodeRecord.filter(nodes, filter_connections=flag)`; `none` = KeyError (`self.nodes[n]` for a name that was
not recorded, or `info.inputs[n1]` for an input without info). -/
def rfilter {C : Type} (r : Record κ C) (s : Sel κ) (flag : Bool) : Option (Record κ C) :=
  let conns := rfilterConns r s flag
  if s.names.all (fun n => decide (n ∈ r.nkeys)) &&
     s.names.all (fun n2 => (r.ikeys n2).all fun n1 => !(rfilter_keep_info n1 n2 conns) || decide (n1 ∈ r.infoKeys n2)) then
    some { nkeys := s.names
           steps := r.steps
           ikeys := fun n2 => (r.ikeys n2).filter fun n1 => rfilter_keep_input n1 n2 conns
           infoKeys := fun n2 => (r.ikeys n2).filter fun n1 => rfilter_keep_info n1 n2 conns
           msgs := r.msgs }
  else none

/-! ## networkx conversion -/

/-- the calls `to_networkx_graph` makes on the `nx.DiGraph`, in order. Vertex names `f"{kind}_{seq}"` are the pairs
`(kind, seq)`. -/
inductive NxOp (κ α : Type) where
  | node (id : κ × α) (seq tsStart tsEnd : α)      -- G.add_node(id, seq=, ts_start=, ts_end=, ...)
  | sedge (u v : κ × α)                             -- G.add_edge(u, v)             (stateful edge)
  | medge (u v : κ × α) (tsRecv : α)                -- G.add_edge(u, v, ts_recv=)   (message edge)

def vertexRowOps (n : κ) (row : α × α × α) : List (NxOp κ α) :=
  let seq := row.1
  let ts_start := row.2.1
  let ts_end := row.2.2
  if nx_vertex_skip seq then []
  else
    let vname := nx_vname n seq
    NxOp.node (nx_node_id vname) (nx_node_seq seq ts_start ts_end) (nx_node_ts_start seq ts_start ts_end)
        (nx_node_ts_end seq ts_start ts_end) ::
      (if nx_has_pred seq then
        let uname := nx_uname n seq
        [NxOp.sedge (nx_sedge_src uname vname) (nx_sedge_dst uname vname)]
       else [])

def vertexOps (n : κ) (v : Vertex (List α)) : List (NxOp κ α) :=
  (nx_vertex_zip v.seq v.tsStart v.tsEnd).flatMap (vertexRowOps n)

def edgeRowOps (n1 n2 : κ) (row : α × α × α) : List (NxOp κ α) :=
  let seq_out := row.1
  let seq_in := row.2.1
  let ts_recv := row.2.2
  if nx_edge_skip seq_out seq_in then []
  else
    let u := nx_u n1 seq_out
    let v := nx_v n2 seq_in
    [NxOp.medge (nx_medge_src u v) (nx_medge_dst u v) (nx_medge_ts_recv seq_out seq_in ts_recv)]

def edgeOps (n1 n2 : κ) (e : Edge (List α)) : List (NxOp κ α) :=
  (nx_edge_zip e.seqOut e.seqIn e.tsRecv).flatMap (edgeRowOps n1 n2)

/-- `to_networkx_graph(graph)` as the sequence of graph-building calls -/
def toNx (g : Graph κ (List α)) : List (NxOp κ α) :=
  g.vkeys.flatMap (fun n => vertexOps n (g.v n)) ++ g.ekeys.flatMap (fun k => edgeOps k.1 k.2 (g.e k))

end

/-! ## specification vocabulary used by the theorems of `Props/C14.lean` -/

section
variable {κ : Type} {α : Type}

/-- all containers of the list have the same dict structure (what `jax.tree_util.tree_map` demands) -/
def SameKeys {C : Type} (gs : List (Graph κ C)) : Prop :=
  ∀ g ∈ gs, ∀ g' ∈ gs, g.vkeys = g'.vkeys ∧ g.ekeys = g'.ekeys

def SameKeysR {C : Type} (rs : List (Record κ C)) : Prop :=
  ∀ r ∈ rs, ∀ r' ∈ rs, r.nkeys = r'.nkeys ∧ r.ikeys = r'.ikeys ∧ r.infoKeys = r'.infoKeys

/-- number of padding rows episode `i` receives in a leaf whose per-episode arrays are `cols` -/
def padAmount {β : Type} (cols : List (List β)) (i : Nat) : Nat := maxLen cols - (cols.getD i []).length

/-- the three columns of a vertex / edge have one length (they describe the same steps / messages) -/
def Vertex.Aligned (v : Vertex (List α)) : Prop := v.tsStart.length = v.seq.length ∧ v.tsEnd.length = v.seq.length
def Edge.Aligned (e : Edge (List α)) : Prop := e.seqIn.length = e.seqOut.length ∧ e.tsRecv.length = e.seqOut.length
def Graph.Aligned (g : Graph κ (List α)) : Prop := (∀ k ∈ g.vkeys, (g.v k).Aligned) ∧ (∀ k ∈ g.ekeys, (g.e k).Aligned)

/-- every edge connects two vertices of the graph -/
def Graph.Closed {C : Type} (g : Graph κ C) : Prop := ∀ x ∈ g.ekeys, x.1 ∈ g.vkeys ∧ x.2 ∈ g.vkeys

variable [Neg α] [NatCast α]

/-- `g'` is `g` with trailing padding rows appended to (some of) its vertices and edges -/
def PadOf (g g' : Graph κ (List α)) : Prop :=
  g'.vkeys = g.vkeys ∧ g'.ekeys = g.ekeys ∧
  (∀ k ∈ g.vkeys, ∃ n, g'.v k = (g.v k).pad n) ∧ (∀ k ∈ g.ekeys, ∃ n, g'.e k = (g.e k).pad n)

variable [BEq α]

/-- a row whose three entries are all the padding value -/
def isPadRow (r : α × α × α) : Bool := r.1 == (gstack_fill : α) && r.2.1 == (gstack_fill : α) && r.2.2 == (gstack_fill : α)

/-- number of rows that remain when the trailing all-padding rows are dropped -/
def keepLen (a b c : List α) : Nat := ((List.zip a (List.zip b c)).reverse.dropWhile isPadRow).length

/-- drop the trailing padding rows -/
def Vertex.unpad (v : Vertex (List α)) : Vertex (List α) :=
  v.map (List.take (keepLen v.seq v.tsStart v.tsEnd))
def Edge.unpad (e : Edge (List α)) : Edge (List α) :=
  e.map (List.take (keepLen e.seqOut e.seqIn e.tsRecv))
def Graph.unpad (g : Graph κ (List α)) : Graph κ (List α) :=
  ⟨g.vkeys, fun k => (g.v k).unpad, g.ekeys, fun k => (g.e k).unpad⟩

end

/-- a single-vertex graph used in the witness theorems and examples -/
def witnessGraph (seq ts te : List Int) : Graph Nat (List Int) := ⟨[0], fun _ => ⟨seq, ts, te⟩, [], fun _ => ⟨[], [], []⟩⟩

end Rex.PadStack
