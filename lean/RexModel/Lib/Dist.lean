import RexModel.Gen.Dist

/-! Model plumbing for C15 (delay distributions). Core Lean only.

Everything arithmetic (clip, key selection, quantile formulas, the grid comparison, the mixture CDF, the estimator's
normalisation / pruning test / rescaling / determinism test) is *generated* from the rex source into
`RexModel/Gen/Dist.lean`; this file only adds the list / loop plumbing around those kernels.

Modelled, not verified (parameters or hypotheses of the theorems): threefry (`split`), the raw sampler of the distrax
distribution (`draw`), `ndtri` / `ndtr` (normal quantile / CDF), `exp`, `log`, numpy's `argmax`, `argsort`. -/

namespace Rex.Dist

open Rex.Gen.Dist

/-! ## Sampling: `StaticDist.sample`, `StaticDist.reset` -/

section Sampling
variable {κ α : Type} [Max α] [NatCast α]

/-- One call of `StaticDist.sample(shape)` on a distribution whose rng state is `rng`:
`new_rng, rng_sample = split(rng, 2)`, `samples = clip(dist.sample(seed=rng_sample, shape), 0, None)`,
returns `(replace(rng=new_rng), samples)`. `draw seed n` is the raw sampler (the `n` elements of the requested shape). -/
def sampleStep (split : κ → Nat → Nat → κ) (draw : κ → Nat → List α) (rng : κ) (n : Nat) : κ × List α :=
  (sample_new_key split rng, (draw (sample_seed_key split rng) n).map delay_clip)

/-- Successive calls `d, x₁ = d.sample(n₁); d, x₂ = d.sample(n₂); …` -/
def sampleSeq (split : κ → Nat → Nat → κ) (draw : κ → Nat → List α) : κ → List Nat → List (List α)
  | _, [] => []
  | k, n :: ns => (sampleStep split draw k n).2 :: sampleSeq split draw (sampleStep split draw k n).1 ns

/-- rng state after `m` calls of `sample`. -/
def keyAfter (split : κ → Nat → Nat → κ) (k : κ) : Nat → κ
  | 0 => k
  | m + 1 => keyAfter split (sample_new_key split k) m

/-- the seeds handed to the raw sampler in `m` successive calls -/
def seedsUsed (split : κ → Nat → Nat → κ) : κ → Nat → List κ
  | _, 0 => []
  | k, m + 1 => sample_seed_key split k :: seedsUsed split (sample_new_key split k) m

/-- `dist.reset(rng)` on a distribution whose current rng state is `old`: the new rng state. -/
def resetFrom (_old rng : κ) : κ := reset_key rng

end Sampling

/-! ## Grid quantile: `mixture_distribution_quantiles` -/

section Grid
variable {α : Type} [LT α] [DecidableLT α] [LE α] [DecidableLE α]

/-- index of the first `true`, if any -/
def firstTrue : List Bool → Option Nat
  | [] => none
  | b :: bs => if b then some 0 else (firstTrue bs).map (· + 1)

/-- numpy `argmax` of a Boolean vector: index of the first `True`; `0` when every entry is `False`. -/
def argmaxBool (bs : List Bool) : Nat := (firstTrue bs).getD 0

/-- `onp.argmax(onp.greater(cdf_grid_one_obs, p))` for one probability level `p` -/
def gridIndex (cdf : List α) (p : α) : Nat := argmaxBool (cdf.map fun c => grid_gt c p)

/-- `base_grid[argmax(...)]` -/
def gridQuantile (grid cdf : List α) (p : α) : Option α := grid[gridIndex cdf p]?

end Grid

/-! ## Estimator: `GMMEstimator.get_dist` -/

section Estimator
variable {α : Type} [Add α] [Sub α] [Mul α] [Div α] [LT α] [DecidableLT α] [LE α] [DecidableLE α] [NatCast α]

/-- the pruning loop of `get_dist`:
`for val in w: if prune_cum + val < 1 - percentile: prune_idx += 1; prune_cum += val  else: break`, then `w[prune_idx:]` -/
def pruneGo (percentile : α) : α → List α → List α
  | _, [] => []
  | cum, v :: rest => if gmm_prune_test cum v percentile then pruneGo percentile (cum + v) rest else v :: rest

/-- number of pruned components (`prune_idx`) -/
def pruneIdx (percentile : α) : α → List α → Nat
  | _, [] => 0
  | cum, v :: rest => if gmm_prune_test cum v percentile then pruneIdx percentile (cum + v) rest + 1 else 0

/-- `prune_cum, prune_idx = 0.0, 0` -/
def prune (percentile : α) (ws : List α) : List α := pruneGo percentile (Nat.cast 0 : α) ws

/-- `w = normalize_weights(np.exp(log_w))` -/
def initWeights (exp : α → α) (log_w : List α) : List α := gmm_w_init gmm_normalize_weights exp log_w

/-- `w = normalize_weights(w[prune_idx:])` on the (ascending) weight vector -/
def finalWeights (percentile : α) (ws : List α) : List α := gmm_w_final gmm_normalize_weights (prune percentile ws)

/-- sum as numpy computes it for the model: left fold from 0 (the same fold the generated kernels use) -/
def sumL (xs : List α) : α := xs.foldl (fun x y => x + y) (Nat.cast 0 : α)

def meanL (xs : List α) : α := sumL xs / (Nat.cast xs.length : α)

/-- population variance (`numpy.std` squared) -/
def varL (xs : List α) : α := meanL (xs.map fun x => (x - meanL xs) * (x - meanL xs))

end Estimator

end Rex.Dist
