import RexModel.Gen.Generator

/-! Model of `rex.artificial._generate_graphs` (C12). Core Lean only.

The arithmetic, the comparisons and the masking `where`s are the generated kernels of `RexModel/Gen/Generator.lean`;
this file only contains the plumbing: `jax.lax.scan` over the per-node `step`, the carried `jax.lax.while_loop` of
`_scan_body_seq` (with fuel), the `scan` over the arrival times, the element-wise (`zipWith`) edge post-processing and
the dictionary bookkeeping of augmenting.

Random delay samples enter as lists of already sampled (clipped) values. `jnp.inf` is a parameter `inf`. -/

namespace Rex.Generator

open Rex.Gen.Generator

/-- one generated vertex (`rex.base.Vertex`) -/
structure Vtx (α : Type) where
  seq : Int
  tsStart : α
  tsEnd : α
deriving Repr

/-- consecutive elements of a list are related by `R` -/
def Adj {β : Type} (R : β → β → Prop) : List β → Prop
  | [] => True
  | [_] => True
  | a :: b :: l => R a b ∧ Adj R (b :: l)

section
variable {α : Type} [Add α] [Sub α] [Mul α] [Div α] [Neg α] [LT α] [LE α] [DecidableLT α] [DecidableLE α]
  [BEq α] [Max α] [Min α] [NatCast α] [IntCast α]

/-- `jax.lax.scan(node_step, (offset, rng), jnp.arange(0, num_steps))`: the carry is `ts_prev`, `i` counts up,
`ds` are the sampled computation delays (one per iteration). -/
def scanSteps (rate tsMax : α) : α → Int → List α → List (Vtx α)
  | _, _, [] => []
  | tsPrev, i, d :: ds =>
    let tsStart := step_ts_start tsPrev
    let tsEnd := step_ts_end tsPrev tsStart d
    ⟨step_seq tsStart tsEnd tsMax i, tsStart, tsEnd⟩ :: scanSteps rate tsMax (step_ts_next tsStart tsEnd tsPrev rate) (i + 1) ds

/-- `ts_start[k]` for an integer index (JAX semantics only matter inside the bounds; `dflt` is returned outside and
every theorem is stated for all `dflt`). -/
def getAt (dflt : α) (xs : List α) (i : Int) : α := xs.getD i.toNat dflt

/-- `_while_cond(_seq)` -/
def condAt (skip : Bool) (starts : List α) (dflt r : α) (seq : Int) : Bool :=
  let n : Int := (starts.length : Int)
  while_cond (while_is_larger skip (getAt dflt starts (while_seq_mod seq n)) r) (while_is_last n seq)

/-- `jax.lax.while_loop(_while_cond, _while_body, seq)` with fuel -/
def whileLoop (skip : Bool) (starts : List α) (dflt r : α) : Nat → Int → Int
  | 0, seq => seq
  | fuel + 1, seq => if condAt skip starts dflt r seq then whileLoop skip starts dflt r fuel (while_body seq) else seq

/-- `_scan_body_seq(skip, ts_start, seq, ts_recv)`: returns `(seq, seq_clipped)`; fuel = number of receiver steps. -/
def scanBodySeq (skip : Bool) (starts : List α) (dflt : α) (seq : Int) (r : α) : Int × Int :=
  let seq' := whileLoop skip starts dflt r starts.length seq
  (seq', post_seq_clipped (post_is_larger skip (getAt dflt starts seq') r) seq')

/-- `jax.lax.scan(scan_body_seq, seq0, ts_recv)[1]` (the stacked `seq_clipped`) -/
def scanAssign (skip : Bool) (starts : List α) (dflt : α) : Int → List α → List Int
  | _, [] => []
  | seq, r :: rs =>
    let p := scanBodySeq skip starts dflt seq r
    p.2 :: scanAssign skip starts dflt p.1 rs

/-- `vertices[input_name].seq.max()` (all sequence numbers are `≥ -1`, the array is never empty) -/
def seqMaxOf (vs : List (Vtx α)) : Int := vs.foldl (fun m v => max m v.seq) (-1)

structure EdgeOut (α : Type) where
  seqOut : List Int
  seqIn : List Int
  tsRecv : List α

/-- sender finishing times with unsent messages pushed to `inf` -/
def maskedEnds (inf : α) (sender : List (Vtx α)) : List α :=
  sender.map fun v => ep_ts_end_masked (ep_unsent v.seq) inf v.tsEnd

/-- arrival times: finishing time plus sampled communication delay, then the FIFO running maximum -/
def arrivals (inf : α) (sender : List (Vtx α)) (delays : List α) : List α :=
  ep_ts_recv_fifo (List.zipWith ep_ts_recv_raw (maskedEnds inf sender) delays)

/-- the body of the connection loop of `episode` for one connection -/
def genEdge (skip : Bool) (inf tsMax dflt : α) (sender : List (Vtx α)) (delays : List α) (recvStarts : List α)
    (seqMaxIn : Int) : EdgeOut α :=
  let seqOut0 := sender.map (·.seq)
  let tsEnd := maskedEnds inf sender
  let fifo := arrivals inf sender delays
  let clipped := scanAssign skip recvStarts dflt ep_scan_init fifo
  let tsRecv := List.zipWith (fun s r => ep_ts_recv_masked (ep_unsent s) r) seqOut0 fifo
  let seqOut := List.zipWith (fun e s => ep_seq_out_masked e tsMax s) tsEnd seqOut0
  let seqIn0 := List.zipWith (fun e c => ep_seq_in_horizon e tsMax c) tsEnd clipped
  let seqIn := List.zipWith (fun c s => ep_seq_in_valid c seqMaxIn s) clipped seqIn0
  ⟨seqOut, seqIn, tsRecv⟩

end

/-! ### the generated graph as a relation on vertices `(node, index)` -/

structure Conn (N : Type) where
  out : N
  inp : N
  skip : Bool

/-- edges of the computation graph: consecutive vertices of a node (stateful edges) and, per connection, message
`k` of the sender to the receiver vertex `seq_in[k]` when that is a real vertex (`≥ 0`, within the array). -/
inductive GEdge {α N : Type} (verts : N → List (Vtx α)) (conns : List (Conn N)) (seqIn : Conn N → List Int) :
    N × Nat → N × Nat → Prop
  | stateful (n : N) (k : Nat) : k + 1 < (verts n).length → GEdge verts conns seqIn (n, k) (n, k + 1)
  | message (c : Conn N) (k j : Nat) : c ∈ conns → k < (verts c.out).length → j < (verts c.inp).length →
      (seqIn c)[k]? = some (j : Int) → GEdge verts conns seqIn (c.out, k) (c.inp, j)

/-! ### augmenting: `vertices = dict(existing)`, then `for n in nodes: if n in vertices: continue; vertices[n] = gen(n)` -/

section
variable {K V : Type} [BEq K]

def hasKey (acc : List (K × V)) (k : K) : Bool := acc.any (fun p => p.1 == k)

/-- one iteration of the loop; `exists_` is the extracted membership test (`aug_vertex_exists` / `aug_edge_exists`) -/
def augStep (exists_ : Bool → Bool) (gen : K → V) (acc : List (K × V)) (k : K) : List (K × V) :=
  if exists_ (hasKey acc k) then acc else acc ++ [(k, gen k)]

def augment (exists_ : Bool → Bool) (gen : K → V) (existing : List (K × V)) (keys : List K) : List (K × V) :=
  keys.foldl (augStep exists_ gen) existing

end

end Rex.Generator
