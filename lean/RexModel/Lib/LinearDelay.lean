import RexModel.Gen.LinearDelay

/-! Model of the `interp = "linear"` / `"linear_real_only"` branch of `TrainableDist.apply_delay`
(`rex/base.py`) for property C11.  Core Lean only (the driver runs it on `Float`).

* `interp1` is clamped piecewise-linear interpolation, the mathematical function `jnp.interp(q, xp, fp)` is
  *trusted* to implement (values at duplicated knots excepted: there `jnp.interp` takes the last of the duplicates,
  `interp1` the first; rex's only duplicated knots are the dummy messages, which all carry the same payload).
* `dynSlice` is the documented semantics of `jax.lax.dynamic_slice` on a 1-D array (a negative start index is
  wrapped once, then the start is clamped so that the slice fits) — modelled, not verified.
* everything else (`+ d`, the `where` on `seq < 0`, the arrival test, `idx_max - window`, the `-1e9` mask, the
  shift of the query times) is taken from the generated kernels in `RexModel/Gen/LinearDelay.lean`. -/

namespace Rex.LinearDelay

open Rex.Gen.LinearDelay

section
variable {α : Type} [Add α] [Sub α] [Mul α] [Div α] [Neg α] [LT α] [LE α] [DecidableLT α] [DecidableLE α]
  [BEq α] [Max α] [Min α] [NatCast α] [IntCast α]

/-- value on the segment from `(x0, y0)` to `(x1, y1)` -/
@[inline] def seg (x0 y0 x1 y1 q : α) : α := y0 + (q - x0) * ((y1 - y0) / (x1 - x0))

/-- Clamped piecewise-linear interpolation through the knots `(x0, y0) :: rest` (abscissae non-decreasing):
left of the first knot the first value, right of the last knot the last value. -/
def interp1 (x0 y0 : α) : List (α × α) → α → α
  | [], _ => y0
  | (x1, y1) :: rest, q =>
      if q ≤ x0 then y0
      else if q < x1 then seg x0 y0 x1 y1 q
      else interp1 x1 y1 rest q

/-- interpolation through a list of knots; an empty knot list has no value (never queried by the model). -/
def interpL : List (α × α) → α → Option α
  | [], _ => none
  | (x0, y0) :: rest, q => some (interp1 x0 y0 rest q)

/-- one slot of the input buffer (payload kept separately) -/
structure Msg (α : Type) where
  seq : Int
  sent : α
  recv : α

/-- `ts_recv = input.ts_sent + d;  ts_recv = where(input.seq < 0, input.ts_recv, ts_recv)` -/
def recvOf (d : α) (m : Msg α) : α := c11_recv_where m.seq m.recv (c11_recv_delayed m.sent d)

/-- `ts_recv_mask` of either variant (`interp`: 1 = "linear", 2 = "linear_real_only") -/
def knotOf (interp : Nat) (d : α) (m : Msg α) : α :=
  if c11_is_real_only interp then c11_mask m.seq (recvOf d m) else c11_mask_linear (recvOf d m)

/-- `jnp.argwhere(ts_recv > ts_start, size=1, fill_value=cum_window)[0, 0]` -/
def idxMax (tsStart : α) (recvs : List α) : Int :=
  match recvs.findIdx? (fun r => c11_not_arrived r tsStart) with
  | some i => (i : Int)
  | none => c11_idx_fill (recvs.length : Int)

/-- `jax.lax.dynamic_slice(xs, [start], [n])` on a 1-D array -/
def dynSlice {β : Type} (xs : List β) (start : Int) (n : Nat) : List β :=
  let len : Int := xs.length
  let s := if start < 0 then start + len else start
  let s := if s < 0 then 0 else if s > len - n then (if len - n < 0 then 0 else len - n) else s
  (xs.drop s.toNat).take n

/-- the shifted query times `ts_recv_interp + (ts_start - ts_recv_interp[-1])` of a slice -/
def shiftQueries (tsStart : α) (sl : List α) : List α :=
  match sl.getLast? with
  | none => []
  | some last => sl.map (fun x => c11_shift x tsStart last)

/-- query times of the window: slice of the (masked) knots, shifted so that the last one is `ts_start` -/
def queries (interp : Nat) (d tsStart : α) (window : Nat) (buf : List (Msg α)) : List α :=
  let recvs := buf.map (recvOf d)
  let knots := buf.map (fun m => c11_slice_src (knotOf interp d m))
  let idxMin := c11_idx_min (idxMax tsStart recvs) (window : Int)
  shiftQueries tsStart (dynSlice knots (c11_slice_start idxMin) (c11_slice_size (window : Int)).toNat)

/-- `apply_delay` (linear variants) on one scalar leaf `ys` of the buffer: the `window` values a step sees. -/
def applyLinear (interp : Nat) (d tsStart : α) (window : Nat) (buf : List (Msg α)) (ys : List α) : List (Option α) :=
  let knots := buf.map (fun m => c11_interp_knots (knotOf interp d m))
  (queries interp d tsStart window buf).map fun q =>
    interpL (List.zip knots (ys.map c11_interp_vals)) (c11_interp_query q)

/-- the delay of a `TrainableDist`: `min + alpha * (max - min)` (the `* ones(shape)` broadcast is `* 1`) -/
def delayOf (mn alpha mx : α) : α := c11_sample mn alpha mx (Nat.cast 1)

end

end Rex.LinearDelay
