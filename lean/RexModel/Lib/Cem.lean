import RexModel.Gen.Cem

/-! Model of `rex.cem` (C18). Core Lean only.

* `Loss Q` — what a loss evaluation can return: NaN, −∞, a finite value, +∞, with the IEEE comparison
  (`<` is false as soon as one side is NaN). The generated kernels (`Gen/Cem.lean`) are polymorphic in the
  carrier and are used here at `Loss Q` (theorems) and at `Float` (driver).
* `argsort` — `jnp.argsort`: a stable sort of the indices, NaN last (numpy / XLA order).
* `update` — `cem_update_mean_stdev`: plumbing around the generated kernels. `none` stands for the
  `IndexError` that JAX raises for `elite_indices[0]` when `num_elites = 0`.
* `run` — the iteration (`cem`'s scan over `cem_step`), as a fold over the evaluated batches.

Candidates (`C`) and the sampling distribution (`D` = mean and stdev, re-fitted from the elite samples by an
arbitrary function `refit`) are abstract: the property does not speak about their values. -/

namespace Rex.Cem

open Rex.Gen.Cem

/-- value of a loss evaluation -/
inductive Loss (Q : Type) where
  | nan
  | ninf
  | fin (q : Q)
  | pinf
deriving DecidableEq, Repr

namespace Loss
variable {Q : Type}

/-- IEEE `<`: false whenever an operand is NaN; −∞ < finite < +∞. -/
def lt [LT Q] : Loss Q → Loss Q → Prop
  | nan, _ => False
  | _, nan => False
  | ninf, ninf => False
  | ninf, _ => True
  | fin _, ninf => False
  | fin a, fin b => a < b
  | fin _, pinf => True
  | pinf, _ => False

instance [LT Q] : LT (Loss Q) := ⟨lt⟩

instance [LT Q] [DecidableLT Q] : DecidableLT (Loss Q) := fun a b =>
  match a, b with
  | nan, _ => isFalse (by cases ‹Loss Q› <;> exact id)
  | ninf, nan => isFalse id
  | ninf, ninf => isFalse id
  | ninf, fin _ => isTrue trivial
  | ninf, pinf => isTrue trivial
  | fin _, nan => isFalse id
  | fin _, ninf => isFalse id
  | fin x, fin y => inferInstanceAs (Decidable (x < y))
  | fin _, pinf => isTrue trivial
  | pinf, nan => isFalse id
  | pinf, ninf => isFalse id
  | pinf, fin _ => isFalse id
  | pinf, pinf => isFalse id

/-- `jnp.isnan` -/
def isnan : Loss Q → Bool
  | nan => true
  | _ => false

/-- unary minus (so that an edit to `-jnp.inf` still has a meaning) -/
instance [Neg Q] : Neg (Loss Q) :=
  ⟨fun | nan => nan | ninf => pinf | fin q => fin (-q) | pinf => ninf⟩

/-- "finite or −∞": a value that is strictly better than `+∞` -/
def better : Loss Q → Bool
  | fin _ => true
  | ninf => true
  | _ => false

end Loss

/-- one coordinate of what `gaussian_samples.sample` returns (noise is the standard-normal draw) -/
def sampleCoord {K : Type} [Add K] [Mul K] [Max K] [Min K] (mean stdev noise lo hi : K) : K :=
  sample_ret (sample_raw mean stdev noise) (sample_clip (sample_raw mean stdev noise) lo hi)

section Generic
variable {α : Type} [LT α] [DecidableLT α]

/-- numpy / XLA sort order on floats as a total preorder: `a` may stand before `b`. NaN is last, ties keep their order. -/
def sortLe (isnan : α → Bool) (a b : α) : Bool :=
  !(decide (b < a) || (isnan a && !isnan b))

/-- insert `x` before the first element it may stand before (keeps equal elements in their order) -/
def insertBy {β : Type} (le : β → β → Bool) (x : β) : List β → List β
  | [] => [x]
  | y :: ys => if le x y then x :: y :: ys else y :: insertBy le x ys

/-- stable insertion sort -/
def isort {β : Type} (le : β → β → Bool) : List β → List β
  | [] => []
  | x :: xs => insertBy le x (isort le xs)

/-- the (value, index) pairs of `ls` in sorted order -/
def sortIdx (isnan : α → Bool) (ls : List α) : List (α × Nat) :=
  isort (fun p q => sortLe isnan p.1 q.1) ls.zipIdx

/-- `jnp.argsort(ls)` (stable, NaN last): the indices of `ls` ordered by value. -/
def argsort (isnan : α → Bool) (ls : List α) : List Nat :=
  (sortIdx isnan ls).map (·.2)

/-- `CEMState`: `dist` = (mean, stdev), `best` = bestsofar, `bestLoss` = bestsofar_loss -/
structure State (α C D : Type) where
  dist : D
  best : C
  bestLoss : α

/-- `CEMSolver.init_state`: bestsofar = the initial mean (`c0`), bestsofar_loss = +∞ -/
def initState {C D : Type} (inf : α) (d0 : D) (c0 : C) : State α C D := ⟨d0, c0, inf⟩

variable {C D : Type}

/-- the sanitised losses of a batch: `jnp.where(jnp.isnan(losses), jnp.inf, losses)` elementwise -/
def sanitize (isnan : α → Bool) (inf : α) (raw : List α) : List α :=
  raw.map (fun l => nan_to_inf isnan l inf)

/-- the elite indices of a batch -/
def elites (isnan : α → Bool) (inf : α) (numElites : Nat) (raw : List α) : List Nat :=
  elite_indices (argsort isnan) (sanitize isnan inf raw) numElites

/-- `cem_update_mean_stdev` -/
def update (isnan : α → Bool) (inf : α) (refit : D → List C → D) (numElites : Nat)
    (s : State α C D) (samples : List C) (raw : List α) : Option (State α C D) :=
  let losses := sanitize isnan inf raw
  let elite := elite_indices (argsort isnan) losses numElites
  match best_index elite with
  | none => none
  | some bi =>
    match best_loss losses bi, best_sample samples bi with
    | some bl, some bs =>
      some { dist := refit s.dist (elite_samples samples elite)
             best := ret_bestsofar s.best bs (upd_best_sample s.bestLoss bl s.best bs)
             bestLoss := ret_bestsofar_loss s.bestLoss bl (upd_best_loss s.bestLoss bl) }
    | _, _ => none

/-- iterations: one `(samples, losses)` batch per `cem_step` -/
def run (isnan : α → Bool) (inf : α) (refit : D → List C → D) (numElites : Nat) :
    State α C D → List (List C × List α) → Option (State α C D)
  | s, [] => some s
  | s, b :: rest =>
    match update isnan inf refit numElites s b.1 b.2 with
    | none => none
    | some s' => run isnan inf refit numElites s' rest

/-- everything evaluated in a history: (candidate, raw loss) pairs -/
def evaluated (batches : List (List C × List α)) : List (C × α) :=
  batches.flatMap (fun b => b.1.zip b.2)

end Generic

end Rex.Cem
