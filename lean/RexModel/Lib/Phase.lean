import RexModel.Gen.Phase

/-! Model of `rex.node` phases, `set_delay` and infos (C16). Core Lean only.

* Nodes are natural numbers, connections a list in the order of the `connect` calls. `node.inputs.values()` is the
  sub-list of connections whose receiving node is `node` (dict insertion order).
* `node.phase`, `node.phase_output`, `connection.phase` are mutually recursive Python properties without memoisation.
  Python evaluates them until the interpreter's stack is exhausted (`RecursionError`, re-raised as "Algebraic loop
  detected"). The model evaluates the *generated* kernels over `Res α` = value | `loop`, where every arithmetic
  operation propagates `loop` (an exception aborts the evaluation), with an explicit `fuel` for the stack depth.
  Which inputs are evaluated at all (the skip filter) is decided by the generated `node_phase` kernel, not by the model.
* Delay distributions are abstract objects `δ` with `isD` (= `isinstance(·, distrax.Distribution)`), `wrap`
  (= `StaticDist.create`), `q99` (= `float(·.quantile(0.99))`) and `dflt` (= the constructor default). -/

namespace Rex.Phase

open Rex.Gen.Phase

/-- Result of evaluating a property: a value, or `RecursionError`. -/
inductive Res (α : Type) where
  | ok (v : α)
  | loop
  deriving Repr, DecidableEq

namespace Res
variable {α : Type}

/-- strict lifting of a binary operation: an exception in either operand aborts -/
def map₂ (f : α → α → α) : Res α → Res α → Res α
  | ok a, ok b => ok (f a b)
  | _, _ => loop

def map (f : α → α) : Res α → Res α
  | ok a => ok (f a)
  | loop => loop

def lt [LT α] : Res α → Res α → Prop
  | ok a, ok b => a < b
  | _, _ => False

def le [LE α] : Res α → Res α → Prop
  | ok a, ok b => a ≤ b
  | _, _ => False

instance [Add α] : Add (Res α) := ⟨map₂ (· + ·)⟩
instance [Sub α] : Sub (Res α) := ⟨map₂ (· - ·)⟩
instance [Mul α] : Mul (Res α) := ⟨map₂ (· * ·)⟩
instance [Div α] : Div (Res α) := ⟨map₂ (· / ·)⟩
instance [Neg α] : Neg (Res α) := ⟨map (- ·)⟩
instance [Max α] : Max (Res α) := ⟨map₂ max⟩
instance [Min α] : Min (Res α) := ⟨map₂ min⟩
instance [NatCast α] : NatCast (Res α) := ⟨fun n => ok (Nat.cast n)⟩
instance [IntCast α] : IntCast (Res α) := ⟨fun n => ok (Int.cast n)⟩
instance [LT α] : LT (Res α) := ⟨lt⟩
instance [LE α] : LE (Res α) := ⟨le⟩
instance [BEq α] : BEq (Res α) :=
  ⟨fun a b => match a, b with | ok x, ok y => x == y | loop, loop => true | _, _ => false⟩

instance [LT α] [DecidableLT α] : DecidableLT (Res α) := fun a b =>
  match a, b with
  | ok x, ok y => inferInstanceAs (Decidable (x < y))
  | ok _, loop => isFalse (fun h => h)
  | loop, _ => isFalse (fun h => by cases h)

instance [LE α] [DecidableLE α] : DecidableLE (Res α) := fun a b =>
  match a, b with
  | ok x, ok y => inferInstanceAs (Decidable (x ≤ y))
  | ok _, loop => isFalse (fun h => h)
  | loop, _ => isFalse (fun h => by cases h)

end Res

section
variable {α : Type} [Add α] [Sub α] [Mul α] [Div α] [Neg α] [LT α] [LE α] [DecidableLT α] [DecidableLE α]
  [BEq α] [Max α] [Min α] [NatCast α] [IntCast α]

/-- One connection: `dst.connect(src, delay=…, skip=…)`; `src` is the sending ("output") node. -/
structure Conn (α : Type) where
  src : Nat
  dst : Nat
  delay : α
  skip : Bool

/-- The part of a node/connection configuration that phases depend on. -/
structure Graph (α : Type) where
  nodeDelay : Nat → α
  conns : List (Conn α)

/-- `node.inputs.values()` -/
def Graph.inputs (G : Graph α) (n : Nat) : List (Conn α) := G.conns.filter (fun c => c.dst == n)

/-- `node.phase` evaluated with stack depth `fuel` (one unit per node level). -/
def phaseF (G : Graph α) : Nat → Nat → Res α
  | 0, _ => Res.loop
  | fuel + 1, n =>
    node_phase
      (fun c : Conn α => conn_phase (node_phase_output (phaseF G fuel c.src) (Res.ok (G.nodeDelay c.src))) (Res.ok c.delay))
      (fun c : Conn α => c.skip)
      (G.inputs n)

/-- `node.phase_output` -/
def phaseOutF (G : Graph α) (fuel n : Nat) : Res α :=
  node_phase_output (phaseF G fuel n) (Res.ok (G.nodeDelay n))

/-- `connection.phase` -/
def connPhaseF (G : Graph α) (fuel : Nat) (c : Conn α) : Res α :=
  conn_phase (phaseOutF G fuel c.src) (Res.ok c.delay)

end

/-! ## Configuration state, `connect` / `set_delay` histories -/

/-- The delay-distribution world: `isD x` ⇔ `x` is a raw `distrax.Distribution`. -/
structure DistOps (α δ : Type) where
  isD : δ → Bool
  wrap : δ → δ
  q99 : δ → α
  dflt : δ

structure NodeSt (α δ : Type) where
  delay : α
  dist : δ

structure ConnSt (α δ : Type) where
  src : Nat
  dst : Nat
  delay : α
  dist : δ
  skip : Bool
  blocking : Bool

structure St (α δ : Type) where
  nodes : List (NodeSt α δ)
  conns : List (ConnSt α δ)

inductive Op (α δ : Type) where
  /-- `BaseNode(name, rate, delay=…, delay_dist=…)` -/
  | newNode (dist : Option δ) (delay : Option α)
  /-- `dst.connect(src, blocking, delay, delay_dist, skip)` -/
  | connect (src dst : Nat) (dist : Option δ) (delay : Option α) (skip blocking : Bool)
  /-- `nodes[n].set_delay(delay_dist, delay)` -/
  | setNode (n : Nat) (dist : Option δ) (delay : Option α)
  /-- `k`-th connection `.set_delay(delay_dist, delay)` -/
  | setConn (k : Nat) (dist : Option δ) (delay : Option α)

section
variable {α δ : Type} [Add α] [Sub α] [Mul α] [Div α] [Neg α] [LT α] [LE α] [DecidableLT α] [DecidableLE α]
  [BEq α] [Max α] [Min α] [NatCast α] [IntCast α]

/-- `BaseNode.__init__`: the two `delay_dist` assignments and the `delay` assignment. -/
def mkNode (D : DistOps α δ) (dist : Option δ) (delay : Option α) : NodeSt α δ :=
  let d0 := node_init_dist dist D.dflt
  let d1 := node_init_wrap D.wrap (D.isD d0) d0
  { dist := d1, delay := node_init_delay delay (D.q99 d1) }

/-- `Connection.__init__` -/
def mkConn (D : DistOps α δ) (src dst : Nat) (dist : Option δ) (delay : Option α) (skip blocking : Bool) : ConnSt α δ :=
  let d0 := conn_init_dist dist D.dflt
  let d1 := conn_init_wrap D.wrap (D.isD d0) d0
  { src := src, dst := dst, dist := d1, delay := conn_init_delay delay (D.q99 d1), skip := skip, blocking := blocking }

/-- `BaseNode.set_delay` -/
def nodeSetDelay (D : DistOps α δ) (dist : Option δ) (delay : Option α) (s : NodeSt α δ) : NodeSt α δ :=
  let d0 := node_set_dist dist s.dist
  { dist := node_set_wrap D.wrap (D.isD d0) d0, delay := node_set_delay delay s.delay }

/-- `Connection.set_delay` -/
def connSetDelay (D : DistOps α δ) (dist : Option δ) (delay : Option α) (s : ConnSt α δ) : ConnSt α δ :=
  let d0 := conn_set_dist dist s.dist
  { s with dist := conn_set_wrap D.wrap (D.isD d0) d0, delay := conn_set_delay delay s.delay }

def St.apply (D : DistOps α δ) (s : St α δ) : Op α δ → St α δ
  | .newNode dist delay => { s with nodes := s.nodes ++ [mkNode D dist delay] }
  | .connect src dst dist delay skip blocking => { s with conns := s.conns ++ [mkConn D src dst dist delay skip blocking] }
  | .setNode n dist delay => { s with nodes := s.nodes.modify n (nodeSetDelay D dist delay) }
  | .setConn k dist delay => { s with conns := s.conns.modify k (connSetDelay D dist delay) }

def St.run (D : DistOps α δ) (s : St α δ) (ops : List (Op α δ)) : St α δ := ops.foldl (St.apply D) s

/-- The graph that phases are computed on. Nodes that do not exist have delay 0 (never used: they have no connection). -/
def St.graph (s : St α δ) : Graph α :=
  { nodeDelay := fun n => match s.nodes[n]? with | some x => x.delay | none => Nat.cast 0
    conns := s.conns.map fun c => { src := c.src, dst := c.dst, delay := c.delay, skip := c.skip } }

/-! ### the specification of "takes effect": what was requested last (independent of the kernels) -/

/-- `isinstance`-normalisation that constructors and setters are meant to perform. -/
def DistOps.norm (D : DistOps α δ) (x : δ) : δ := if D.isD x then D.wrap x else x

/-- what a constructor call requests -/
def reqInit (D : DistOps α δ) (dist : Option δ) (delay : Option α) : NodeSt α δ :=
  let d := D.norm (dist.getD D.dflt)
  { dist := d, delay := delay.getD (D.q99 d) }

/-- what a `set_delay` call requests, given what was configured before -/
def reqSet (D : DistOps α δ) (dist : Option δ) (delay : Option α) (cur : NodeSt α δ) : NodeSt α δ :=
  { dist := match dist with | some x => D.norm x | none => cur.dist
    delay := match delay with | some v => v | none => cur.delay }

/-- Configured (requested) settings of node `n` after a history, `none` while the node does not exist. -/
def cfgNode (D : DistOps α δ) : List (Op α δ) → (count : Nat) → (n : Nat) → Option (NodeSt α δ) → Option (NodeSt α δ)
  | [], _, _, cur => cur
  | .newNode dist delay :: ops, count, n, cur =>
      cfgNode D ops (count + 1) n (if count = n then some (reqInit D dist delay) else cur)
  | .setNode m dist delay :: ops, count, n, cur =>
      cfgNode D ops count n (if m = n then cur.map (reqSet D dist delay) else cur)
  | _ :: ops, count, n, cur => cfgNode D ops count n cur

/-- Configured settings of the `k`-th connection after a history. -/
def cfgConn (D : DistOps α δ) : List (Op α δ) → (count : Nat) → (k : Nat) → Option (NodeSt α δ) → Option (NodeSt α δ)
  | [], _, _, cur => cur
  | .connect _ _ dist delay _ _ :: ops, count, k, cur =>
      cfgConn D ops (count + 1) k (if count = k then some (reqInit D dist delay) else cur)
  | .setConn m dist delay :: ops, count, k, cur =>
      cfgConn D ops count k (if m = k then cur.map (reqSet D dist delay) else cur)
  | _ :: ops, count, k, cur => cfgConn D ops count k cur

/-! ## infos -/

structure InputInfo (α δ : Type) where
  output : Nat
  phase : Res α
  delay : α
  dist : δ
  skip : Bool
  blocking : Bool

structure NodeInfo (α δ : Type) where
  name : Nat
  phase : Res α
  delay : α
  dist : δ
  inputs : List (InputInfo α δ)

def St.inputsOf (s : St α δ) (n : Nat) : List (ConnSt α δ) := s.conns.filter (fun c => c.dst == n)

/-- `Connection.info` (the fields C16 speaks about) -/
def connInfo (s : St α δ) (fuel : Nat) (c : ConnSt α δ) : InputInfo α δ :=
  { output := c.src
    phase := conn_info_phase (connPhaseF s.graph fuel { src := c.src, dst := c.dst, delay := c.delay, skip := c.skip })
    delay := conn_info_delay c.delay
    dist := conn_info_dist c.dist
    skip := conn_info_skip c.skip
    blocking := conn_info_blocking c.blocking }

/-- `BaseNode.info` -/
def nodeInfo (s : St α δ) (fuel : Nat) (n : Nat) (x : NodeSt α δ) : NodeInfo α δ :=
  { name := n
    phase := node_info_phase (phaseF s.graph fuel n)
    delay := node_info_delay x.delay
    dist := node_info_dist x.dist
    inputs := (s.inputsOf n).map (connInfo s fuel) }

/-- infos of the nodes `k, k+1, …` -/
def infosFrom (s : St α δ) (fuel : Nat) : Nat → List (NodeSt α δ) → List (NodeInfo α δ)
  | _, [] => []
  | k, x :: xs => nodeInfo s fuel k x :: infosFrom s fuel (k + 1) xs

/-- `{name: node.info for name, node in nodes.items()}` -/
def St.infos (s : St α δ) (fuel : Nat) : List (NodeInfo α δ) := infosFrom s fuel 0 s.nodes

/-- the configuration of a connection that `set_delay` acts on -/
def ConnSt.cfg (c : ConnSt α δ) : NodeSt α δ := { delay := c.delay, dist := c.dist }

/-- `{name: cls.from_info(info)}` followed by `node.connect_from_info(info.inputs, nodes)` for every node, in order. -/
def rebuild (D : DistOps α δ) (infos : List (NodeInfo α δ)) : St α δ :=
  { nodes := infos.map fun i => mkNode D (some (from_info_dist none i.dist)) (some (from_info_delay none i.delay))
    conns := infos.flatMap fun i => i.inputs.map fun ii =>
      mkConn D ii.output i.name (some (cfi_dist ii.dist)) (some (cfi_delay ii.delay)) (cfi_skip ii.skip) (cfi_blocking ii.blocking) }

end

end Rex.Phase
