import RexModel.Props.C01
#print axioms Rex.C01.C01_any_valid_schedule
#print axioms Rex.C01.push_truncated_group
#print axioms Rex.C01.async_window_eq_last
#print axioms Rex.C01.not_selectable_rest
#print axioms Rex.C01.foldl_no_select
#print axioms Rex.C01.applyWindow_sorted
#print axioms Rex.C01.padding_never_selected
#print axioms Rex.C01.C01_windows_agree
#print axioms Rex.C01.C01_window_payloads_are_sender_outputs
#print axioms Rex.C01.C01_compiled_executor_refines_dataflow
#print axioms Rex.C01.C01_compiled_executor_refines_dataflow_consec
#print axioms Rex.C01.C01_accepted_instance_executor_refines
#print axioms Rex.C01.C01_compiled_executor_agrees_with_any_valid_order
#print axioms Rex.C01.C01_executor_order_valid
