import RexModel.Props.C09
#print axioms Rex.C09.reset_steps_eq_runs
#print axioms Rex.C09.rollout_eq_iter
#print axioms Rex.C09.rolloutTraj_length
#print axioms Rex.C09.rolloutTraj_last
#print axioms Rex.C09.rolloutTraj_get
#print axioms Rex.C09.override_eq_default
#print axioms Rex.C09.eps_clip_in_range
#print axioms Rex.C09.eps_clip_id
#print axioms Rex.C09.eps_clip_saturates
#print axioms Rex.C09.eps_clip_mono
#print axioms Rex.C09.step_clip_in_range
#print axioms Rex.C09.step_clip_id
#print axioms Rex.C09.step_clip_saturates
#print axioms Rex.C09.sup_skip_iff
#print axioms Rex.C09.C09_exec_rollout_is_iterated_run
#print axioms Rex.C09.C09_exec_split
