import RexModel.Props.C07
#print axioms Rex.C07.check_parts
#print axioms Rex.C07.valid_no_vertex_twice
#print axioms Rex.C07.valid_dep_earlier
#print axioms Rex.C07.posLt_trans
#print axioms Rex.C07.valid_ancestors_scheduled_earlier
#print axioms Rex.C07.valid_supervisor_and_needs
#print axioms Rex.C07.valid_supervisor_alone
#print axioms Rex.C07.valid_cell_data
#print axioms Rex.C07.valid_noprune_complete
#print axioms Rex.C07.c6_iff_missing_nil
#print axioms Rex.C07.valid_one_kind_per_generation
#print axioms Rex.C07.posLt_iff
#print axioms Rex.C07.cellLe_iff
#print axioms Rex.C07.cellLe_trans
#print axioms Rex.C07.cellLe_total
#print axioms Rex.C07.C07_checked_schedule_is_valid_order
