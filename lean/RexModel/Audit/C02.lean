import RexModel.Props.C02
#print axioms Rex.C02.machine_stable
#print axioms Rex.C02.machine_good
#print axioms Rex.C02.C02_confluent
#print axioms Rex.C02.C02_step_records_schedule_independent
#print axioms Rex.C02.C02_message_records_schedule_independent
#print axioms Rex.C02.C02_nbCount_needed_prefix
#print axioms Rex.C02.C02_source_queue_discipline
#print axioms Rex.C02.C02_machine_ownership
#print axioms Rex.C02.run_of_terminal
#print axioms Rex.C02.restrict_good
#print axioms Rex.C02.restrict_run
#print axioms Rex.C02.bounded_good
#print axioms Rex.C02.C02_completed_episodes_equal
#print axioms Rex.C02.C02_bounded_is_run
