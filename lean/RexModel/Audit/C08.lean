import RexModel.Props.C08
#print axioms Rex.C08.read_write_same_slot
#print axioms Rex.C08.noop_read_same_slot
#print axioms Rex.C08.slot_in_range
#print axioms Rex.C08.slot_clash_far
#print axioms Rex.C08.ring_read_ok
#print axioms Rex.C08.default_slot
#print axioms Rex.C08.default_slot_untouched
#print axioms Rex.C08.masked_write_noop
#print axioms Rex.C08.slotOf_eq_kernel
#print axioms Rex.C08.C08_ring_reads_live_message
#print axioms Rex.C08.C08_ring_stale_not_read
#print axioms Rex.C08.C08_default_until_full
#print axioms Rex.C08.C08_replay_read_live
#print axioms Rex.C08.C08_computed_size_bounds_live
#print axioms Rex.C08.C08_sized_ring_reads_scheduled
#print axioms Rex.C08.C08_sized_ring_keeps_default
