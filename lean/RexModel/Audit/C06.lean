import RexModel.Props.C06
#print axioms Rex.C06.async_one_call_per_push_step
#print axioms Rex.C06.async_supervisor_one_call
#print axioms Rex.C06.compiled_one_call_site
#print axioms Rex.C06.compiled_calls
#print axioms Rex.C06.masked_slot_zero_calls
#print axioms Rex.C06.compiled_calls_nodup
#print axioms Rex.C06.supervisor_calls
#print axioms Rex.C06.seq_after_step
#print axioms Rex.C06.async_calls_once
#print axioms Rex.C06.async_ticks_numbered
