import RexModel.Props.C04
#print axioms Rex.C04.start_law
#print axioms Rex.C04.start_law_advance
#print axioms Rex.C04.only_blocking_spec
#print axioms Rex.C04.never_early
#print axioms Rex.C04.start_after_prev_and_inputs
#print axioms Rex.C04.end_law
#print axioms Rex.C04.frequency_drift
#print axioms Rex.C04.frequency_drift_mono
#print axioms Rex.C04.frequency_drift_nonneg
#print axioms Rex.C04.frequency_spacing
#print axioms Rex.C04.phase_resync
#print axioms Rex.C04.sched_is_frequency_spec
#print axioms Rex.C04.scheduled_ts_spec
#print axioms Rex.C04.scheduled_ts_mono
#print axioms Rex.C04.arrival_law
#print axioms Rex.C04.arrival_ge
#print axioms Rex.C04.C04_recorded_steps_obey_start_law
