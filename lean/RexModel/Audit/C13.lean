import RexModel.Props.C13
#print axioms Rex.C13.view_eq_of_agree
#print axioms Rex.C13.record_noninterference
#print axioms Rex.C13.record_noninterference_run
#print axioms Rex.C13.rex_records_are_write_only
#print axioms Rex.C13.record_row_present
#print axioms Rex.C13.record_rows_untouched
#print axioms Rex.C13.record_write_out_of_bounds_dropped
#print axioms Rex.C13.max_records_keeps_first
#print axioms Rex.C13.C13_recorded_steps_are_faithful
#print axioms Rex.C13.C13_recorded_states_chain
#print axioms Rex.C13.run_of_guardsOk
#print axioms Rex.C13.C13_reachable_state_with_a_record
