import RexModel.Props.C05
#print axioms Rex.C05.source_order
#print axioms Rex.C05.step_measure
#print axioms Rex.C05.inv_step
#print axioms Rex.C05.stop_no_stuck
#print axioms Rex.C05.stop_terminates
#print axioms Rex.C05.entry_inv
#print axioms Rex.C05.stop_returns
#print axioms Rex.C05.quiescent_after_stop
#print axioms Rex.C05.pinned_stop_deadlock
#print axioms Rex.C05.fixed_same_schedule_returns
#print axioms Rex.C05.prev_episode_filtered
#print axioms Rex.C05.no_task_after_flip
