import RexModel.Props.C17
#print axioms Rex.C17.denorm_inv_apply
#print axioms Rex.C17.denorm_apply_inv
#print axioms Rex.C17.denorm_endpoints
#print axioms Rex.C17.denorm_strict_mono
#print axioms Rex.C17.denorm_range
#print axioms Rex.C17.denorm_tree_inv_apply
#print axioms Rex.C17.exp_inv_apply
#print axioms Rex.C17.exp_apply_inv
#print axioms Rex.C17.chain_order_apply
#print axioms Rex.C17.chain_order_inv
#print axioms Rex.C17.chain_inv_apply
#print axioms Rex.C17.identity_noop
#print axioms Rex.C17.extend_fills_missing
#print axioms Rex.C17.extend_keeps_supplied
#print axioms Rex.C17.extend_inv_apply
#print axioms Rex.C17.shared_inv_apply
#print axioms Rex.C17.shared_apply_spec
