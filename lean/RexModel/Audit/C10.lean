import RexModel.Props.C10
#print axioms Rex.C10.getAlpha_clamps
#print axioms Rex.C10.sample_eq_mean
#print axioms Rex.C10.zoh_len
#print axioms Rex.C10.arrived_prefix
#print axioms Rex.C10.zoh_eq_static_partial
#print axioms Rex.C10.zoh_wraps_witness
#print axioms Rex.C10.gaps_bound
#print axioms Rex.C10.spacing_suffices
